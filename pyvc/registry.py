"""Registry: Python built-ins, numpy semantics, and the *assumed contracts on dependencies*.

Every extern entry that a run actually uses is recorded in E.used_externs and printed in the
evidence trusted_base.  Three tiers (DESIGN 4.3): modelled, specified opaquely, no-ops.
"""
import ast
from fractions import Fraction

import z3

from .values import (NdArr, Cell, Obj, Opaque, SList, NaN, Unsupported, is_sym, is_int_like,
                     is_bool_like, is_real_like, is_num_like, is_str_like, z, zbool, znum,
                     fresh_name, arr_sort, elem_sort)
from .engine import (ExternFn, ExternMod, PyFn, Closure, LambdaFn, BoundMethod, GenResult, PySet,
                     IterSpec, Raised, RepoModRef, Frame, HavocNone, Unbound)
from .frontend import RepoClass, RepoFunc

MODULES = {"numpy", "numpy.random", "numpy.ma", "numpy.linalg", "warnings", "sklearn", "scipy", "scipy.sparse",
           "pandas", "textwrap", "itertools", "bisect", "copy", "pickle", "math", "numpy.testing",
           "sklearn.base", "sklearn.utils", "scipy.sparse.linalg", "inspect", "numbers", "sklearn.metrics"}

EXC_NAMES = ["AssertionError", "ValueError", "TypeError", "KeyError", "IndexError", "AttributeError",
             "RuntimeError", "NotImplementedError", "ZeroDivisionError", "Exception", "StopIteration",
             "ImportError", "NotFittedError", "FloatingPointError", "Warning", "RuntimeWarning", "UserWarning", "DeprecationWarning",
             "FutureWarning"]

NOOPS = {"print", "warnings.warn", "tqdm.tqdm", "textwrap.dedent", "pprint.pprint", "warnings.simplefilter"}


class ExcClass:
    def __init__(self, name):
        self.name = name


class TypeTag:
    """a Python type used in isinstance / dtype positions"""

    def __init__(self, name):
        self.name = name

    def __repr__(self):
        return "<type %s>" % self.name


class RangeVal:
    def __init__(self, start, stop, step=1):
        self.start, self.stop, self.step = start, stop, step


class EnumVal:
    def __init__(self, inner, start=0):
        self.inner, self.start = inner, start


class ZipVal:
    def __init__(self, parts):
        self.parts = parts


def conc(v):
    return not is_sym(v)


def zmax(a, b):
    return z3.If(z(a) >= z(b), z(a), z(b))


def zmin(a, b):
    return z3.If(z(a) <= z(b), z(a), z(b))


def same(a, b):
    """syntactic equality of int-like terms"""
    if conc(a) and conc(b):
        return a == b
    return z3.is_true(z3.simplify(z(a) == z(b)))


class Registry:
    def __init__(self):
        self.fns = {}
        self.methods = {}          # (tag, name) -> fn(E, recv, args, kwargs, node)
        self.ext_methods = {}      # extern class dotted name -> {method: extern fn name}
        self.ext_bases = {}
        self.attr_hooks = []
        from . import npmodel, pymodel
        pymodel.install(self)
        npmodel.install(self)

    # ---- lookup ------------------------------------------------------------------------
    def builtin(self, n):
        if n in EXC_NAMES:
            return ExcClass(n)
        if ("builtin." + n) in self.fns:
            return ExternFn("builtin." + n)
        if n in ("int", "float", "str", "bool", "list", "tuple", "dict", "set", "object", "type", "bytes"):
            return ExternFn("builtin." + n)
        if n in ("True", "False", "None"):
            return {"True": True, "False": False, "None": None}[n]
        return None

    def is_module(self, nm):
        return nm in MODULES

    def extern(self, nm):
        return ExternFn(nm)

    def extern_method(self, clsname, meth):
        return self.ext_methods.get(clsname, {}).get(meth)

    def extern_bases(self, clsname):
        return self.ext_bases.get(clsname, [])

    def register(self, name):
        def deco(f):
            self.fns[name] = f
            return f
        return deco

    def method(self, tag, name):
        def deco(f):
            self.methods[(tag, name)] = f
            return f
        return deco

    # ---- calls -------------------------------------------------------------------------
    def call_extern(self, E, fn, args, kwargs, node):
        name = fn.name
        if name in NOOPS or name.split(".")[-1] in ("warn",):
            return None
        if name.startswith("estimator.") and fn.self_obj is not None:
            m = self.methods.get(("estimator", name.split(".", 1)[1]))
            if m is None:
                raise Unsupported("estimator method %s" % name)
            return m(E, fn.self_obj, list(args), dict(kwargs), node)
        f = self.fns.get(name)
        if f is None:
            # aliases: 'sklearn.x.y.Z' -> try last two components
            short = ".".join(name.split(".")[-2:])
            f = self.fns.get(short) or self.fns.get("*." + name.split(".")[-1])
        if f is None:
            raise Unsupported("extern %s at %s" % (name, E.where(node)))
        used = getattr(E, "used_externs", None)
        if used is not None:
            used.add(name)
        if E.ext_may_raise and (name.startswith("sklearn.") or name.startswith("pyx:") or name.startswith("scipy.")
                                or name.startswith("pandas.")) and not name.endswith("__init__"):
            # C02: a call into a dependency may fail at this point (one exceptional path, unconstrained error)
            if E.choose([None, None]) == 1:
                raise Raised("ExternalError", (name,), node, "external")
        if fn.self_obj is not None:
            return f(E, fn.self_obj, *args, **kwargs)
        return f(E, *args, **kwargs)

    def call_opaque(self, E, fn, args, kwargs, node):
        raise Unsupported("call of opaque value %r" % (fn,))

    def call_method(self, E, recv, name, args, kwargs, node):
        from . import pymodel
        return pymodel.call_method(self, E, recv, name, args, kwargs, node)

    def getattr(self, E, base, attr, node):
        from . import pymodel
        return pymodel.getattr_(self, E, base, attr, node)

    def getitem(self, E, base, idx, node):
        from . import pymodel
        return pymodel.getitem(self, E, base, idx, node)

    def setitem(self, E, base, idx, v, node):
        from . import pymodel
        return pymodel.setitem(self, E, base, idx, v, node)

    def binop(self, E, op, a, b, node):
        from . import pymodel
        return pymodel.binop(self, E, op, a, b, node)

    def compare(self, E, op, a, b, node):
        from . import pymodel
        return pymodel.compare(self, E, op, a, b, node)

    def inplace_arr(self, E, arr, op, rhs, node):
        from . import npmodel
        return npmodel.inplace(self, E, arr, op, rhs, node)

    def arr_map(self, E, fn, arrs, kind):
        from . import npmodel
        return npmodel.arr_map(E, fn, arrs, kind)

    def iterspec(self, E, v, node):
        from . import pymodel
        return pymodel.iterspec(self, E, v, node)

    def symbolic_comprehension(self, E, spec, gen, sub, elt, node):
        from . import pymodel
        return pymodel.symbolic_comprehension(self, E, spec, gen, sub, elt, node)

    def filtered_comprehension(self, E, spec, gen, sub, elt, node):
        from . import pymodel
        return pymodel.filtered_comprehension(self, E, spec, gen, sub, elt, node)

    def str_of_int(self, E, v):
        """A4: str(i) for i >= 0 is a non-empty digit string ds with str.to_int(ds) = i"""
        ds = E.str("ds")
        E.assume(z3.Implies(v >= 0, z3.And(z3.StrToInt(ds) == v, z3.Length(ds) >= 1)))
        E.assume(z3.Implies(v < 0, z3.And(z3.PrefixOf(z3.StringVal("-"), ds), z3.Length(ds) >= 2)))
        cache = getattr(E, "_digitstr", None)
        return ds
