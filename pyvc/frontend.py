"""Front end: re-reads and re-parses the real source files of /repo on every run."""
import ast
import hashlib
import os


class RepoModule:
    def __init__(self, repo, relpath, text=None):
        self.repo = repo
        self.relpath = relpath
        path = os.path.join(repo.root, relpath)
        if text is None:
            with open(path, "r", encoding="utf-8") as f:
                text = f.read()
        self.stripped = None
        if relpath.endswith(".pyx"):
            # Cython source: the Python-subset text is extracted mechanically on every run (pyvc/pyxstrip.py says what is dropped)
            from .pyxstrip import strip
            self.stripped = strip(text)
            text = self.stripped.text
        self.text = text
        self.lines = text.splitlines()
        self.tree = ast.parse(text, filename=path)
        self.defs = {}      # name -> RepoFunc | RepoClass
        self.imports = {}   # name -> ('ext', dotted) | ('repo', relpath, name) | ('repomod', relpath)
        self.consts = {}    # name -> ast expr (module-level simple assignments)
        self._scan(self.tree.body)

    def _scan(self, body):
        for node in body:
            if isinstance(node, (ast.FunctionDef,)):
                self.defs[node.name] = RepoFunc(self, node, node.name)
            elif isinstance(node, ast.ClassDef):
                self.defs[node.name] = RepoClass(self, node)
            elif isinstance(node, ast.Import):
                for a in node.names:
                    self.imports[a.asname or a.name.split(".")[0]] = ("ext", a.name if a.asname else a.name.split(".")[0])
            elif isinstance(node, ast.ImportFrom):
                self._import_from(node)
            elif isinstance(node, ast.Assign) and len(node.targets) == 1 and isinstance(node.targets[0], ast.Name):
                self.consts[node.targets[0].id] = node.value
            elif isinstance(node, (ast.If, ast.Try)):
                # conditional imports: take the first branch that parses
                self._scan(node.body)

    def _import_from(self, node):
        if node.level > 0:
            base = os.path.dirname(self.relpath)
            for _ in range(node.level - 1):
                base = os.path.dirname(base)
            modpath = os.path.join(base, *(node.module.split(".") if node.module else []))
            for a in node.names:
                nm = a.asname or a.name
                cand = None
                for ext in (".py", ".pyx"):
                    if os.path.exists(os.path.join(self.repo.root, modpath + ext)):
                        cand = modpath + ext
                        break
                if cand is None and os.path.isdir(os.path.join(self.repo.root, modpath)):
                    # from .pkg import name: name may be a submodule or re-exported through __init__
                    sub = os.path.join(modpath, a.name)
                    for ext in (".py", ".pyx"):
                        if os.path.exists(os.path.join(self.repo.root, sub + ext)):
                            self.imports[nm] = ("repomod", sub + ext)
                            break
                    else:
                        self.imports[nm] = ("repo", os.path.join(modpath, "__init__.py"), a.name)
                    continue
                if cand is None:
                    self.imports[nm] = ("ext", "?." + (node.module or "") + "." + a.name)
                else:
                    self.imports[nm] = ("repo", cand, a.name)
        else:
            for a in node.names:
                self.imports[a.asname or a.name] = ("ext", node.module + "." + a.name)


class RepoFunc:
    def __init__(self, module, node, qualname, cls=None, parent=None):
        self.module = module
        self.node = node
        self.qualname = qualname
        self.cls = cls
        self.parent = parent
        self.name = node.name
        self.decorators = [ast.unparse(d) for d in node.decorator_list]

    @property
    def key(self):
        return "%s::%s" % (self.module.relpath, self.qualname)

    def source(self):
        return ast.get_source_segment(self.module.text, self.node) or ""

    def sha(self):
        return hashlib.sha256(self.source().encode()).hexdigest()[:16]

    def nested(self, name):
        for n in ast.walk(self.node):
            if isinstance(n, ast.FunctionDef) and n.name == name and n is not self.node:
                return RepoFunc(self.module, n, self.qualname + "." + name, cls=None, parent=self)
        raise KeyError(name)

    def loops(self):
        """For/While nodes of this function in source order, *excluding* nested defs"""
        out = []

        def walk(n):
            for c in ast.iter_child_nodes(n):
                if isinstance(c, (ast.FunctionDef, ast.Lambda, ast.ClassDef)):
                    continue
                if isinstance(c, (ast.For, ast.While)):
                    out.append(c)
                walk(c)
        walk(self.node)
        return out

    def loop_signature(self):
        """what the contracts' loop invariants are attached to: the loops of the function in order, each as its kind and the names it
        binds (NOT its bounds: a changed bound is a change the invariants must judge, a removed / added / re-targeted loop is a
        change of structure under which invariants numbered by position no longer talk about the same loop)"""
        sig = []
        for n in self.loops():
            if isinstance(n, ast.For):
                sig.append("for " + ast.unparse(n.target))
            else:
                sig.append("while")
        return sig

    def __repr__(self):
        return "<RepoFunc %s>" % self.key


class RepoClass:
    def __init__(self, module, node):
        self.module = module
        self.node = node
        self.name = node.name
        self.methods = {}
        self.class_consts = {}
        for n in node.body:
            if isinstance(n, ast.FunctionDef):
                self.methods[n.name] = RepoFunc(module, n, node.name + "." + n.name, cls=self)
            elif isinstance(n, ast.Assign) and len(n.targets) == 1 and isinstance(n.targets[0], ast.Name):
                self.class_consts[n.targets[0].id] = n.value
        self.base_exprs = node.bases

    def __repr__(self):
        return "<RepoClass %s>" % self.name


class Repo:
    def __init__(self, root="/repo"):
        self.root = root
        self._mods = {}

    def module(self, relpath):
        if relpath not in self._mods:
            self._mods[relpath] = RepoModule(self, relpath)
        return self._mods[relpath]

    def lookup(self, key):
        """'path::A.b.c' -> RepoFunc"""
        relpath, qual = key.split("::")
        mod = self.module(relpath)
        parts = qual.split(".")
        cur = mod.defs[parts[0]]
        for p in parts[1:]:
            if isinstance(cur, RepoClass):
                cur = cur.methods[p]
            else:
                cur = cur.nested(p)
        return cur
