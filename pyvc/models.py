"""Assumed contracts on dependencies (specified-opaquely tier).  Grown per property."""
import z3

from .values import NdArr, Obj, Opaque, Unsupported, is_sym, z, zbool, fresh_name
from .engine import ExternFn, Raised


def install(R):
    pass
