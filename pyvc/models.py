"""Assumed contracts on dependencies (specified-opaquely tier, DESIGN 4.3).

Estimator protocol: an estimator is a heap object (Obj tag 'estimator') with ghost fields
  $state   z3 term of sort Est: everything `fit` learned
  $class   class name (string), $methods: set of method names it has, $params: SymDict or dict
  $fit_X, $fit_y, $fit_w, $fit_kwargs: arguments of the last fit call (ghost)
`fit` replaces $state by a fresh term and returns the receiver; predict/transform/... are
deterministic row-wise functions of ($state, row).  Every call is appended to E.trace.
"""
import z3

from .values import NdArr, Obj, Opaque, Unsupported, is_sym, z, zbool, fresh_name, is_num_like
from .engine import ExternFn, Raised, PyFn, SymSeq, PathEnd

Est = z3.DeclareSort("Est")
Row = z3.DeclareSort("Row")
RA2 = z3.ArraySort(z3.IntSort(), z3.IntSort(), z3.RealSort())
RA1 = z3.ArraySort(z3.IntSort(), z3.RealSort())
rowF = z3.Function("row", RA2, z3.IntSort(), Row)
predF = z3.Function("predict", Est, Row, z3.RealSort())
out2F = {m: z3.Function(m, Est, Row, z3.IntSort(), z3.RealSort())
         for m in ("predict_proba", "transform", "decision_function", "predict2")}
widthF = {m: z3.Function("width_" + m, Est, z3.IntSort()) for m in ("predict_proba", "transform", "decision_function", "predict2")}
unfitted = z3.Function("unfitted", z3.IntSort(), Est)


def term2(E, X):
    """the 2-d array term of a view (lambda over the view's own indices)"""
    if X.ndim != 2:
        raise Unsupported("row-wise call on rank %d" % X.ndim)
    fs = X.snapshot()
    i, j = z3.Int(fresh_name("ri")), z3.Int(fresh_name("rj"))
    v = fs.get(i, j)
    if z3.is_int(v):
        v = z3.ToReal(v)
    return z3.Lambda([i, j], v)


def term2c(E, X):
    """cached: the same view contents give the same (syntactically identical) term"""
    key = ("term2", X.cell.term.get_id(), tuple(map(repr, X.imap)), tuple(map(repr, X.shape)))
    cache = E.ps.setdefault("term2", {})
    if key not in cache:
        cache[key] = term2(E, X)
    return cache[key]


def term1c(E, v):
    key = ("term1", v.cell.term.get_id(), tuple(map(repr, v.imap)), tuple(map(repr, v.shape)))
    cache = E.ps.setdefault("term2", {})
    if key not in cache:
        fs = v.snapshot()
        i = z3.Int("di!bound")        # fixed bound-variable name: alpha-equivalent row terms are identical terms
        body = fs.get(i)
        if z3.is_int(body):
            body = z3.ToReal(body)     # vectors of numbers: an integer vector is the same vector of reals (numpy.dot promotes)
        elif z3.is_bool(body):
            body = z3.If(body, z3.RealVal(1), z3.RealVal(0))
        cache[key] = z3.Lambda([i], body)
    return cache[key]


def row_of(E, X, r):
    return rowF(term2c(E, X), z(r))


def rows_equal_lemma(E, A, r, B, s, ncols):
    """row extensionality (instance): equal entries => equal Row"""
    c = z3.Int(fresh_name("c"))
    E.axiom(z3.Implies(z3.ForAll([c], z3.Implies(z3.And(c >= 0, c < z(ncols)), A.get(r, c) == B.get(s, c))),
                       row_of(E, A, r) == row_of(E, B, s)))
    E.used_lemmas.add("row_ext")


class DelayedCall:
    def __init__(self, f, args, kwargs):
        self.f, self.args, self.kwargs = f, args, kwargs


def new_estimator(E, name="est", cls="Estimator", methods=("fit", "predict", "get_params", "set_params"),
                  fitted=False, params=None, bases=("BaseEstimator",)):
    o = Obj("estimator", tag="estimator")
    o.fields["$class"] = cls
    o.fields["$methods"] = set(methods)
    o.fields["$state"] = z3.Const(fresh_name(name + "_state"), Est)
    o.fields["$params"] = params if params is not None else {}
    o.fields["$bases"] = list(bases)
    o.fields["$name"] = name
    o.fields["$fitted"] = fitted
    return o


def est_state(o):
    return o.fields["$state"]


def maybe_raise(E, what, node=None):
    """a call into a dependency may raise (C02): one exceptional path with an unconstrained error"""
    if E.ext_may_raise:
        if E.choose([None, None]) == 1:
            raise Raised("ExternalError", (what,), node, "external")


def install(R):
    reg = R.register

    # ------------------------------------------------------------------ estimator protocol
    def hook_attr(E, base, attr, node):
        if isinstance(base, Obj) and base.tag == "estimator":
            if attr in base.fields["$methods"]:
                return ExternFn("estimator." + attr, base)
            if attr.endswith("_") and not attr.startswith("_") and base.fields.get("$fitted"):
                return R.fitted_attr(E, base, attr, node)
            return NotImplemented
        return NotImplemented
    R.attr_hooks.append(hook_attr)

    def fitted_attr(E, base, attr, node):
        raise Unsupported("fitted attribute %s of an opaque estimator" % attr)
    R.fitted_attr = fitted_attr

    def opaque_hasattr(E, v, attr):
        if isinstance(v, Obj) and v.tag == "estimator":
            if attr in v.fields["$methods"] or attr in v.fields:
                return True
            if attr.endswith("_") and not attr.startswith("_"):
                fa = v.fields.get("$fitted_attrs")
                return bool(v.fields.get("$fitted")) and (fa is None or attr in fa)
            return False
        raise Unsupported("hasattr(%r, %s)" % (v, attr))
    R.opaque_hasattr = opaque_hasattr

    def m_fit(E, recv, args, kwargs, node):
        names = ["X", "y", "sample_weight"]
        b = dict(zip(names, args))
        for k, v in kwargs.items():
            b[k] = v
        maybe_raise(E, "fit", node)
        pre = recv.fields["$state"]
        recv.fields["$state"] = z3.Const(fresh_name(recv.fields.get("$name", "est") + "_fitted"), Est)
        recv.fields["$fitted"] = True
        recv.fields["$fit_X"] = b.get("X")
        recv.fields["$fit_y"] = b.get("y")
        recv.fields["$fit_w"] = b.get("sample_weight")
        recv.fields["$fit_kwargs"] = {k: v for k, v in b.items() if k not in names}
        recv.fields["$fit_count"] = recv.fields.get("$fit_count", 0) + 1
        recv.events.append(("call", "fit"))
        E.trace.append(dict(op="fit", obj=recv, X=b.get("X"), y=b.get("y"), w=b.get("sample_weight"),
                            kwargs=recv.fields["$fit_kwargs"], pre_state=pre, post_state=recv.fields["$state"],
                            given=set(b.keys())))
        return recv
    R.methods[("estimator", "fit")] = m_fit

    def rowwise1(method):
        def m(E, recv, args, kwargs, node):
            X = args[0] if args else kwargs["X"]
            maybe_raise(E, method, node)
            if not isinstance(X, NdArr) or X.ndim != 2:
                raise Unsupported("%s on %r" % (method, X))
            st = recv.fields["$state"]
            fs = X.snapshot()
            out_ = NdArr.from_fn(method, (X.shape[0],), "real", lambda r: predF(st, row_of(E, fs, r)))
            E.trace.append(dict(op=method, obj=recv, X=X, state=st, result=out_))
            return out_
        return m
    R.methods[("estimator", "predict")] = rowwise1("predict")

    def rowwise2(method):
        def m(E, recv, args, kwargs, node):
            X = args[0] if args else kwargs["X"]
            maybe_raise(E, method, node)
            if not isinstance(X, NdArr) or X.ndim != 2:
                raise Unsupported("%s on %r" % (method, X))
            st = recv.fields["$state"]
            fs = X.snapshot()
            wd = recv.fields.get("$width_" + method)
            if wd is None:
                wd = widthF[method](st)
                E.assume(wd >= 1)
            out_ = NdArr.from_fn(method, (X.shape[0], wd), "real",
                                 lambda r, c: out2F[method](st, row_of(E, fs, r), c))
            E.trace.append(dict(op=method, obj=recv, X=X, state=st, result=out_))
            return out_
        return m
    for mname in ("predict_proba", "transform", "decision_function"):
        R.methods[("estimator", mname)] = rowwise2(mname)
    _plain_transform = R.methods[("estimator", "transform")]

    def m_transform_any(E, recv, args, kwargs, node):
        """transform of an opaque estimator; an opaque RECIPROCAL transformer (fields['$reciprocal'], mlinsights' BaseReciprocalTransformer
        protocol) takes (X, y) and returns the pair (X, transformed y) - None stays None, the features are returned as they are"""
        if not recv.fields.get("$reciprocal"):
            return _plain_transform(E, recv, args, kwargs, node)
        b = dict(zip(["X", "y"], args)); b.update(kwargs)
        maybe_raise(E, "transform", node)
        y = b.get("y")
        yt = None
        if isinstance(y, NdArr):
            yt = NdArr.fresh("y_transformed", tuple(y.shape), "real")
        elif y is not None:
            raise Unsupported("reciprocal transform of %r" % (y,))
        E.trace.append(dict(op="rtransform", obj=recv, X=b.get("X"), y=y, result=yt, state=recv.fields["$state"]))
        return (b.get("X"), yt)
    R.methods[("estimator", "transform")] = m_transform_any

    def m_get_fct_inv(E, recv, args, kwargs, node):
        inv = new_estimator(E, recv.fields.get("$name", "tr") + "_inverse", recv.fields["$class"], recv.fields["$methods"], True,
                            recv.fields["$params"], recv.fields["$bases"])
        inv.fields["$reciprocal"] = True
        inv.fields["$inverse_of"] = recv
        E.trace.append(dict(op="get_fct_inv", obj=recv, result=inv))
        return inv
    R.methods[("estimator", "get_fct_inv")] = m_get_fct_inv

    def m_fit_transform(E, recv, args, kwargs, node):
        """scikit-learn's TransformerMixin.fit_transform: fit(X, y, ...) then transform(X)"""
        m_fit(E, recv, args, kwargs, node)
        X = args[0] if args else kwargs["X"]
        return R.methods[("estimator", "transform")](E, recv, [X], {}, node)
    R.methods[("estimator", "fit_transform")] = m_fit_transform

    @reg("sklearn.metrics.mean_squared_error")
    def _mse(E, y_true, y_pred, **kw):
        """ASSUMED: a non-negative number; ValueError when the shapes differ"""
        if isinstance(y_true, NdArr) and isinstance(y_pred, NdArr):
            from .npmodel import shapes_equal
            if y_true.ndim != y_pred.ndim:
                E.raise_("ValueError", None, "registry")
            shapes_equal(E, y_true.shape, y_pred.shape, None, "mse-shape")
        r = E.real("mse")
        E.assume(r >= 0)
        return r

    Val = z3.DeclareSort("Val")
    R.Val = Val

    def m_get_params(E, recv, args, kwargs, node):
        E.trace.append(dict(op="get_params", obj=recv))
        return dict(recv.fields["$params"])
    R.methods[("estimator", "get_params")] = m_get_params

    def m_set_params(E, recv, args, kwargs, node):
        """sklearn protocol: sets exactly the given parameters, ValueError for an unknown name, returns self"""
        from . import dicts
        maybe_raise(E, "set_params", node)
        given = dicts.items(kwargs)
        for k, v in given:
            key = dicts.find(R, E, recv.fields["$params"], k, node)
            if key is None:
                raise Raised("ValueError", ("Invalid parameter",), node, "external")
            recv.fields["$params"][key] = v
        recv.events.append(("call", "set_params"))
        E.trace.append(dict(op="set_params", obj=recv, given=given))
        return recv
    R.methods[("estimator", "set_params")] = m_set_params

    def str_split(E, recv, args, kwargs, node):
        """s.split(sep, 1) for a symbolic s: split at the first occurrence of sep"""
        sep = args[0] if args else None
        maxsplit = args[1] if len(args) > 1 else kwargs.get("maxsplit", -1)
        if sep is None or is_sym(sep) or maxsplit != 1:
            raise Unsupported("str.split on a symbolic string supports split(sep, 1) only")
        sv = z(recv)
        idx = z3.IndexOf(sv, z3.StringVal(sep), 0)
        if E.branch(idx >= 0):
            return [z3.SubString(sv, 0, idx), z3.SubString(sv, idx + len(sep), z3.Length(sv) - idx - len(sep))]
        return [recv]
    R.str_split = str_split

    @reg("sklearn.base.clone")
    def _clone(E, est, safe=True):
        if isinstance(est, Obj) and est.tag == "estimator":
            maybe_raise(E, "clone")
            o = new_estimator(E, est.fields.get("$name", "est") + "_clone", est.fields["$class"],
                              est.fields["$methods"], False, est.fields["$params"], est.fields["$bases"])
            o.fields["$clone_of"] = est
            # constructor parameters kept as plain attributes (scikit-learn: clone copies parameters, clones nested estimators)
            for pf in est.fields.get("$param_fields", ()):
                v = est.fields[pf]
                o.fields[pf] = _clone(E, v, False) if isinstance(v, Obj) and v.tag == "estimator" else v
            if "$param_fields" in est.fields:
                o.fields["$param_fields"] = list(est.fields["$param_fields"])
            for k in ("$width_predict_proba", "$width_transform", "$width_decision_function", "$fitted_attrs", "$fit_params", "$reciprocal"):
                if k in est.fields:
                    o.fields[k] = est.fields[k]
            E.trace.append(dict(op="clone", obj=est, result=o))
            return o
        hook = getattr(R, "clone_hook", None)
        if hook is not None:
            r = hook(E, est, safe)
            if r is not NotImplemented:
                return r
        raise Unsupported("clone(%r)" % (est,))

    # ------------------------------------------------------------------ sklearn.linear_model.LinearRegression
    coefF = z3.Function("coef", Est, z3.IntSort(), z3.RealSort())

    def _linreg_new(E, *a, **kw):
        names = ["fit_intercept", "copy_X", "n_jobs", "positive"]
        params = dict(fit_intercept=True, copy_X=True, n_jobs=None, positive=False)
        params.update(dict(zip(names, a)))
        params.update(kw)
        o = new_estimator(E, "linreg", "LinearRegression", ("fit", "predict", "get_params", "set_params", "score"),
                          False, params, ("LinearModel", "RegressorMixin", "BaseEstimator"))
        o.fields["$fitted_attrs"] = {"coef_", "intercept_"}
        E.trace.append(dict(op="new", cls="LinearRegression", params=dict(params), result=o))
        return o
    R.fns["sklearn.linear_model.LinearRegression"] = _linreg_new

    def _linreg_init(E, self_obj, *a, **kw):
        # LinearRegression.__init__(self, fit_intercept=..., copy_X=..., n_jobs=..., positive=...): stores verbatim
        names = ["fit_intercept", "copy_X", "n_jobs", "positive"]
        params = dict(fit_intercept=True, copy_X=True, n_jobs=None, positive=False)
        params.update(dict(zip(names, a)))
        params.update(kw)
        for k, v in params.items():
            E.setattr(self_obj, k, v)
        return None
    R.fns["sklearn.linear_model.LinearRegression.__init__"] = _linreg_init

    def _linreg_predict(E, self_obj, X):
        """LinearRegression.predict on an in-repo subclass instance: X @ coef_ + intercept_ (opaque, row-wise)"""
        if not isinstance(X, NdArr) or X.ndim != 2:
            raise Unsupported("predict on %r" % (X,))
        maybe_raise(E, "predict")
        out = NdArr.fresh("pred", (X.shape[0],), "real")
        E.trace.append(dict(op="predict", obj=self_obj, X=X, result=out))
        return out
    R.fns["sklearn.linear_model.LinearRegression.predict"] = _linreg_predict
    R.ext_methods["sklearn.linear_model.LinearRegression"] = {
        "predict": "sklearn.linear_model.LinearRegression.predict",
        "__init__": "sklearn.linear_model.LinearRegression.__init__"}
    R.ext_bases["sklearn.linear_model.LinearRegression"] = ["LinearModel", "RegressorMixin", "BaseEstimator"]

    def fitted_attr(E, base, attr, node):
        if base.fields.get("$class") == "LinearRegression" and attr == "coef_":
            st = base.fields["$state"]
            X = base.fields.get("$fit_X")
            d = X.shape[1] if isinstance(X, NdArr) and X.ndim == 2 else E.size("p", 1)
            cache = base.fields.setdefault("$attr_cache", {})
            key = ("coef_", st.get_id())
            if key not in cache:
                cache[key] = NdArr.from_fn("coef", (d,), "real", lambda j: coefF(st, j))
            return cache[key]
        if attr == "classes_":
            # two arbitrary distinct class labels (ghost label set used by set(...))
            cache = base.fields.setdefault("$attr_cache", {})
            if "classes_" not in cache:
                arr = NdArr.fresh("classes", (2,), "int")
                l0, l1 = arr.get(0), arr.get(1)
                E.assume(l0 < l1)
                arr.cell.labels = [l0, l1]
                cache["classes_"] = arr
            return cache["classes_"]
        raise Unsupported("fitted attribute %s of an opaque estimator" % attr)
    R.fitted_attr = fitted_attr

    dotF = z3.Function("dot", RA2, RA1, z3.IntSort(), z3.RealSort())
    R.dotF = dotF

    def term1(E, v):
        fs = v.snapshot()
        i = z3.Int(fresh_name("di"))
        return z3.Lambda([i], fs.get(i))
    R.term1 = term1

    def matmul(E, a, b, node):
        if isinstance(a, NdArr) and isinstance(b, NdArr) and a.ndim == 2 and b.ndim == 1:
            from .npmodel import shapes_equal
            shapes_equal(E, (a.shape[1],), (b.shape[0],), node, "matmul-shape")
            ta, tb = term2c(E, a), term1c(E, b)
            E.ps.setdefault("matmul", []).append((a, b, ta, tb))
            return NdArr.from_fn("matmul", (a.shape[0],), "real", lambda r: dotF(ta, tb, r))
        if isinstance(a, NdArr) and isinstance(b, NdArr) and a.ndim == 2 and b.ndim == 2:
            # matrix product: entry (r, c) is a ghost function of row r of a and column c of b (no algebra is assumed about it)
            from .npmodel import shapes_equal
            shapes_equal(E, (a.shape[1],), (b.shape[0],), node, "matmul-shape")
            ta, tb = term2c(E, a), term2c(E, b)
            return NdArr.from_fn("matmul2", (a.shape[0], b.shape[1]), "real", lambda r, c: dot2F(ta, tb, r, c))
        raise Unsupported("matmul of %r and %r" % (a, b))
    dot2F = z3.Function("dot2", RA2, RA2, z3.IntSort(), z3.IntSort(), z3.RealSort())
    R.matmul = matmul

    maeF = z3.Function("mean_absolute_error", RA1, RA1, RA1, z3.BoolSort(), z3.RealSort())

    @reg("sklearn.metrics.mean_absolute_error")
    def _mae(E, y_true, y_pred, sample_weight=None, **kw):
        E.trace.append(dict(op="mean_absolute_error", y_true=y_true, y_pred=y_pred, w=sample_weight, kwargs=kw))
        r = E.real("mae")
        E.assume(r >= 0)
        return r

    # ------------------------------------------------------------------ sklearn base classes
    for cls in ("BaseEstimator", "TransformerMixin", "RegressorMixin", "ClassifierMixin", "ClusterMixin"):
        R.fns["sklearn.base.%s.__init__" % cls] = lambda E, *a, **k: None
        R.ext_methods.setdefault("sklearn.base." + cls, {})["__init__"] = "sklearn.base.%s.__init__" % cls
        R.ext_bases["sklearn.base." + cls] = []

    def sk_ctor(clsname, methods):
        def f(E, *a, **kw):
            o = new_estimator(E, clsname.lower(), clsname, methods, False, dict(kw))
            o.fields["$ctor_args"] = (a, dict(kw))
            E.trace.append(dict(op="new", cls=clsname, params=dict(kw), args=a, result=o))
            return o
        return f
    CLF = ("fit", "predict", "predict_proba", "decision_function", "get_params", "set_params", "score")
    REG = ("fit", "predict", "get_params", "set_params", "score")
    TRF = ("fit", "transform", "fit_transform", "get_params", "set_params")
    for full, meths in (("sklearn.linear_model.LogisticRegression", CLF), ("sklearn.tree.DecisionTreeRegressor", REG + ("decision_path", "apply")),
                        ("sklearn.tree.DecisionTreeClassifier", CLF + ("decision_path", "apply")), ("sklearn.neural_network.MLPRegressor", REG),
                        ("sklearn.cluster.KMeans", ("fit", "predict", "transform", "get_params", "set_params")),
                        ("sklearn.preprocessing.StandardScaler", TRF), ("sklearn.decomposition.NMF", TRF + ("inverse_transform",)),
                        ("sklearn.decomposition.TruncatedSVD", TRF), ("sklearn.manifold.TSNE", ("fit", "fit_transform", "get_params", "set_params")),
                        ("sklearn.neighbors.NearestNeighbors", ("fit", "kneighbors", "get_params", "set_params")),
                        ("sklearn.preprocessing.KBinsDiscretizer", TRF)):
        if full not in R.fns:
            R.fns[full] = sk_ctor(full.split(".")[-1], meths)

    # ------------------------------------------------------------------ sklearn parents called on in-repo instances
    def _kmeans_fit(E, self_obj, X=None, y=None, sample_weight=None):
        """KMeans.fit(self, X, y, sample_weight): sets the fitted attributes, n_iter_ <= max_iter, returns self"""
        k = self_obj.fields.get("n_clusters")
        d = X.shape[1] if isinstance(X, NdArr) and X.ndim == 2 else E.size("d", 1)
        n = X.shape[0] if isinstance(X, NdArr) else E.size("n", 1)
        self_obj.fields["cluster_centers_"] = NdArr.fresh("centers", (k, d), "real")
        lab = NdArr.fresh("labels", (n,), "int")
        i = z3.Int(fresh_name("i"))
        E.assume(z3.ForAll([i], z3.And(lab.cell.term[i] >= 0, lab.cell.term[i] < z(k))))
        lab.cell.dtype_name = "int32"       # scikit-learn's k-means labels are int32
        self_obj.fields["labels_"] = lab
        self_obj.fields["inertia_"] = E.real("inertia")
        it = E.int("n_iter")
        E.assume(z3.And(it >= 0, it <= z(self_obj.fields.get("max_iter", 300))))
        self_obj.fields["n_iter_"] = it
        E.trace.append(dict(op="KMeans.fit", obj=self_obj, X=X, y=y, w=sample_weight,
                            max_iter=self_obj.fields.get("max_iter"), rng="Seeded" if self_obj.fields.get("random_state") is not None else "Global"))
        return self_obj
    R.fns["sklearn.cluster.KMeans.fit"] = _kmeans_fit

    def _dtr_fit(E, self_obj, X=None, y=None, sample_weight=None, check_input=True):
        self_obj.fields["tree_"] = Opaque(z3.Const(fresh_name("tree"), Est), "tree")
        self_obj.fields["n_features_in_"] = X.shape[1] if isinstance(X, NdArr) and X.ndim == 2 else None
        E.trace.append(dict(op="DecisionTreeRegressor.fit", obj=self_obj, X=X, y=y, w=sample_weight,
                            criterion=self_obj.fields.get("criterion")))
        return self_obj
    R.fns["sklearn.tree.DecisionTreeRegressor.fit"] = _dtr_fit

    def _dtr_predict(E, self_obj, X, check_input=True):
        out = NdArr.fresh("tree_pred", (X.shape[0],), "real")
        E.trace.append(dict(op="DecisionTreeRegressor.predict", obj=self_obj, X=X, result=out))
        return out
    R.fns["sklearn.tree.DecisionTreeRegressor.predict"] = _dtr_predict

    def _signature(E, fn):
        o = Obj("Signature", tag="Signature")
        names = ["X", "y", "sample_weight"]
        if isinstance(fn, ExternFn) and fn.self_obj is not None:
            names = list(fn.self_obj.fields.get("$fit_params", names))
        o.fields["parameters"] = {nme: None for nme in names}
        return o
    R.fns["inspect.signature"] = _signature

    def generic_sklearn_init(E, self_obj, *a, **kw):
        """assumed: scikit-learn estimators store their constructor arguments verbatim"""
        if a:
            raise Unsupported("positional arguments to a scikit-learn constructor")
        for k, v in kw.items():
            E.setattr(self_obj, k, v)
        E.note_assumption("scikit-learn base-class constructors store their keyword arguments verbatim as attributes")
        return None
    R.fns["*.__init__"] = generic_sklearn_init

    # ------------------------------------------------------------------ exp / log (uninterpreted + axioms)
    logF = z3.Function("ln", z3.RealSort(), z3.RealSort())
    expF = z3.Function("exp", z3.RealSort(), z3.RealSort())
    R.logF, R.expF = logF, expF

    def explog_axioms(E):
        if E.ps.get("explog"):
            return
        E.ps["explog"] = True
        x = z3.Real("xq")
        E.axiom(z3.ForAll([x], logF(expF(x)) == x, patterns=[expF(x)]))
        E.axiom(z3.ForAll([x], z3.Implies(x > 0, expF(logF(x)) == x), patterns=[logF(x)]))
        E.axiom(z3.ForAll([x], expF(x) > 0, patterns=[expF(x)]))
        E.axiom(z3.ForAll([x], z3.Implies(x >= 1, logF(x) >= 0), patterns=[logF(x)]))
        E.used_lemmas.add("exp_log_inverse: ln(exp x)=x, exp(ln x)=x for x>0, exp x>0, ln x>=0 for x>=1")

    def ufunc(name, fn):
        def f(E, a, *rest, **kw):
            from .npmodel import arr_map
            explog_axioms(E)
            if isinstance(a, NdArr):
                return arr_map(E, lambda v: fn(v if z3.is_real(v) else z3.ToReal(v)), [a], "real")
            if is_num_like(a):
                v = z(a)
                if z3.is_int(v):
                    v = z3.ToReal(v)
                return fn(v)
            raise Unsupported("numpy.%s(%r)" % (name, a))
        R.fns["numpy." + name] = f
    ufunc("log", lambda v: logF(v))
    ufunc("exp", lambda v: expF(v))
    ufunc("log1p", lambda v: logF(1 + v))
    ufunc("expm1", lambda v: expF(v) - 1)

    @reg("numpy.issubdtype")
    def _issubdtype(E, dt, kind):
        from .npmodel import DType
        n = dt.name if isinstance(dt, DType) else str(dt)
        k = kind.name.split(".")[-1] if isinstance(kind, ExternFn) else getattr(kind, "name", str(kind))
        if k in ("floating", "float64", "float32"):
            return n.startswith("float")
        if k in ("integer", "int64", "int32"):
            return n.startswith("int")
        raise Unsupported("issubdtype(%s,%s)" % (n, k))

    def _permutation(tag):
        def f(E, x, *a, **kw):
            """numpy.random.permutation(x): a bijection of the entries of x (concrete length only)"""
            if isinstance(x, NdArr) and x.ndim == 1 and isinstance(x.shape[0], int):
                m = x.shape[0]
                out = NdArr.fresh("perm", (m,), x.kind)
                idx = [E.int("pi") for _ in range(m)]
                for v in idx:
                    E.assume(z3.And(v >= 0, v < m))
                if m > 1:
                    E.assume(z3.Distinct(*idx))
                fs = x.snapshot()
                for i in range(m):
                    out.set((i,), fs.get(idx[i]))
                out.cell.writes = 0
                E.trace.append(dict(op="permutation", rng=tag, result=out))
                return out
            raise Unsupported("permutation of %r" % (x,))
        return f
    R.fns["numpy.random.permutation"] = _permutation("Global")

    @reg("numpy.random.RandomState")
    def _randomstate(E, seed=None):
        o = Obj("RandomState", tag="RandomState")
        o.fields["seed"] = seed
        o.fields["$rng"] = "Entropy" if seed is None else "Seeded"
        E.trace.append(dict(op="RandomState", seed=seed, rng=o.fields["$rng"], result=o))
        return o
    def _rs_randint(E, recv, args, kwargs, node):
        names = ["low", "high", "size", "dtype"]
        b = dict(zip(names, args)); b.update(kwargs)
        before = len(E.trace)
        r = R.fns["numpy.random.randint"](E, b.get("low"), b.get("high"), b.get("size"), b.get("dtype"))
        for t in E.trace[before:]:
            t["rng"] = recv.fields["$rng"]
        return r
    R.methods[("RandomState", "randint")] = _rs_randint

    def _rs_shuffle(E, recv, args, kwargs, node):
        x = args[0]
        if isinstance(x, NdArr):
            E.note_write(x, node)
            x.cell.term = z3.Const(fresh_name("shuffled"), x.cell.term.sort())
        E.trace.append(dict(op="shuffle", rng=recv.fields["$rng"], obj=recv))
        recv.events.append(("call", "shuffle"))
        return None
    R.methods[("RandomState", "shuffle")] = _rs_shuffle

    def pyx_criterion(name):
        def f(E, *a, **kw):
            o = Obj("Criterion", tag="Criterion")
            o.fields["$class"] = name
            o.fields["$args"] = a
            E.trace.append(dict(op="new", cls=name, args=a, result=o))
            return o
        return f
    R.fns["pyx:mlinsights/mlmodel/piecewise_tree_regression_criterion_linear.pyx::LinearRegressorCriterion"] = pyx_criterion("LinearRegressorCriterion")
    olsF = z3.Function("node_beta", z3.IntSort(), z3.IntSort(), z3.RealSort())       # (criterion id, coefficient index) -> value
    R.olsF = olsF

    def _lin_create(E, X, y, sample_weight=None):
        """ASSUMED (compiled, LAPACK): LinearRegressorCriterion.create(X, y, w) is a criterion over exactly these rows; node_beta writes the
        coefficients (features then intercept) of ITS least-squares fit - a function of this criterion - into the given vector"""
        o = Obj("Criterion", tag="Criterion")
        o.fields.update({"$class": "LinearRegressorCriterion", "$X": X, "$y": y, "$w": sample_weight, "$cid": E.int("criterion_id")})
        E.trace.append(dict(op="LinearRegressorCriterion.create", X=X, y=y, w=sample_weight, result=o))
        return o
    R.fns["pyx:mlinsights/mlmodel/piecewise_tree_regression_criterion_linear.pyx::LinearRegressorCriterion.create"] = _lin_create

    def _node_beta(E, recv, args, kwargs, node):
        dest = args[0]
        if not (isinstance(dest, NdArr) and dest.ndim == 1):
            raise Unsupported("node_beta(%r)" % (dest,))
        X = recv.fields["$X"]
        E.safety("node-beta-size", z(dest.shape[0]) == z(X.shape[1]) + 1, node, "ValueError")
        E.note_write(dest, node)
        cid = recv.fields["$cid"]
        dest.assign_fn(lambda j: olsF(cid, j))
        E.trace.append(dict(op="node_beta", obj=recv, dest=dest))
        return None
    R.methods[("Criterion", "node_beta")] = _node_beta
    R.fns["pyx:mlinsights/mlmodel/piecewise_tree_regression_criterion_fast.pyx::SimpleRegressorCriterionFast"] = pyx_criterion("SimpleRegressorCriterionFast")
    R.fns["pyx:mlinsights/mlmodel/piecewise_tree_regression_criterion.pyx::SimpleRegressorCriterion"] = pyx_criterion("SimpleRegressorCriterion")

    def set_hook(E, v):
        """set(y) for a label vector whose label set is declared by the contract (ghost attribute of the array)"""
        from .engine import PySet
        if isinstance(v, NdArr) and getattr(v.cell, "labels", None) is not None:
            ps = PySet([])
            ps.items = list(v.cell.labels)
            return ps
        return None
    R.set_hook = set_hook

    R.methods[("RandomState", "permutation")] = lambda E, recv, args, kwargs, node: _permutation(recv.fields["$rng"])(E, *args, **kwargs)

    # ------------------------------------------------------------------ metrics / preprocessing / model_selection
    @reg("sklearn.metrics.r2_score")
    def _r2(E, y_true, y_pred, **kw):
        r = E.real("r2")
        E.trace.append(dict(op="r2_score", y_true=y_true, y_pred=y_pred, kwargs=dict(kw), result=r))
        return r

    @reg("numpy.corrcoef")
    def _corrcoef(E, x, y=None, rowvar=True, **kw):
        if not isinstance(x, NdArr) or x.ndim != 2:
            raise Unsupported("corrcoef of %r" % (x,))
        d = x.shape[0] if rowvar else x.shape[1]
        if E.branch(z(d) == 1):
            from .values import NanReal
            return NanReal(E.real("corr_scalar"), z3.Bool(fresh_name("corr_scalar_nan")))      # a 0-d scalar for a single variable; NaN if it is constant
        # any entry may be NaN: the correlation with a constant (zero-variance) column is 0/0
        return NdArr.fresh("corr", (d, d), "real", True)

    @reg("numpy.atleast_2d")
    def _atleast_2d(E, x):
        if isinstance(x, NdArr) and x.ndim == 2:
            return x
        if isinstance(x, NdArr) and x.ndim == 1:
            # a vector becomes ONE ROW (a view of the same memory)
            from .npmodel import getitem as np_getitem
            return np_getitem(E.registry, E, x, (None, slice(None, None, None)), None)
        from .values import NanReal
        if isinstance(x, NanReal):
            a = NdArr.fresh("a2d", (1, 1), "real", True)
            a.set((0, 0), x.val, nanval=x.isnan)
            a.cell.writes = 0
            return a
        if is_num_like(x):
            a = NdArr.fresh("a2d", (1, 1), "real")
            a.set((0, 0), x)
            a.cell.writes = 0
            return a
        raise Unsupported("atleast_2d(%r)" % (x,))

    @reg("sklearn.preprocessing.scale")
    def _scale(E, X, **kw):
        """returns a NEW array of the same shape (copy=True default); the argument is not written"""
        if isinstance(X, NdArr):
            return NdArr.fresh("scaled", tuple(X.shape), "real")
        raise Unsupported("scale(%r)" % (X,))

    @reg("sklearn.model_selection.train_test_split")
    def _tts(E, X, test_size=None, **kw):
        """two new arrays partitioning the rows; with test_size=0.5 both parts are non-empty for n >= 2 (ValueError otherwise)"""
        if not isinstance(X, NdArr) or X.ndim != 2:
            raise Unsupported("train_test_split(%r)" % (X,))
        n = z(X.shape[0])
        E.safety("train_test_split", n >= 2, None, "ValueError")
        n1, n2 = E.int("n_train"), E.int("n_test")
        E.assume(z3.And(n1 >= 1, n2 >= 1, n1 + n2 == n))
        E.trace.append(dict(op="train_test_split", rng="Global"))
        return [NdArr.fresh("train", (n1, X.shape[1]), "real"), NdArr.fresh("test", (n2, X.shape[1]), "real")]

    @reg("numpy.var")
    def _var(E, a, **kw):
        r = E.real("var")
        E.assume(r >= 0)
        return r

    sqrtF = z3.Function("sqrt", z3.RealSort(), z3.RealSort())

    def pow_(E, x, y, node):
        if z3.is_rational_value(y) and y.numerator_as_long() == 1 and y.denominator_as_long() == 2:
            r = sqrtF(x)
            E.axiom(z3.Implies(x >= 0, z3.And(r >= 0, z3.Implies(x <= 1, r <= 1), z3.Implies(x == 0, r == 0))))
            E.used_lemmas.add("sqrt maps [0,1] into [0,1]")
            return r
        raise Unsupported("power with exponent %s" % y)
    R.pow_ = pow_

    R.fns["sklearn.clone"] = R.fns["sklearn.base.clone"]
    def _iter_conc(E, it):
        return list(E.iterate_concrete(it))
    import itertools as _it
    from .engine import GenResult as _Gen
    R.fns["itertools.combinations"] = lambda E, it, r: _Gen([tuple(c) for c in _it.combinations(_iter_conc(E, it), r)])
    R.fns["itertools.combinations_with_replacement"] = lambda E, it, r: _Gen([tuple(c) for c in _it.combinations_with_replacement(_iter_conc(E, it), r)])
    R.fns["itertools.chain.from_iterable"] = lambda E, its: _Gen([x for it in E.iterate_concrete(its) for x in E.iterate_concrete(it)])
    def _deepcopy(E, v):
        """copy.deepcopy on the value kinds that occur in fitted attributes"""
        if isinstance(v, NdArr):
            c = v.copy()
            c.cell.copy_of = v
            return c
        if isinstance(v, list):
            return [_deepcopy(E, x) for x in v]
        if isinstance(v, tuple):
            return tuple(_deepcopy(E, x) for x in v)
        if isinstance(v, dict):
            return {k: _deepcopy(E, x) for k, x in v.items()}
        if isinstance(v, Obj):
            raise Unsupported("deepcopy of an object")
        return v
    R.fns["copy.deepcopy"] = _deepcopy
    def _method_type(E, fn, obj):
        from .engine import BoundMethod, Closure
        if isinstance(fn, Closure):
            return BoundMethod(obj, fn.func)
        raise Unsupported("MethodType(%r)" % (fn,))
    R.fns["types.MethodType"] = _method_type
    manhF = z3.Function("manhattan", Row, Row, z3.RealSort())
    R.manhF = manhF

    def _argmin_min(E, X=None, Y=None, metric="euclidean", **kw):
        """pairwise_distances_argmin_min(X, Y, metric): for every row of X an index of a nearest row of Y and that distance"""
        n, k = z(X.shape[0]), z(Y.shape[0])
        labels = NdArr.fresh("argmin", (X.shape[0],), "int")
        mind = NdArr.fresh("mindist", (X.shape[0],), "real")
        fx, fy = X.snapshot(), Y.snapshot()
        E.trace.append(dict(op="pairwise_distances_argmin_min", X=X, Y=Y, metric=metric, kwargs=kw, labels=labels, mindist=mind))
        if metric == "manhattan":
            r, c = z3.Int(fresh_name("r")), z3.Int(fresh_name("c"))
            dist = lambda rr, cc: manhF(row_of(E, fx, rr), row_of(E, fy, cc))
            E.axiom(z3.ForAll([r], z3.Implies(z3.And(r >= 0, r < n), z3.And(
                labels.cell.term[r] >= 0, labels.cell.term[r] < k, mind.cell.term[r] == dist(r, labels.cell.term[r])))))
            E.axiom(z3.ForAll([r, c], z3.Implies(z3.And(r >= 0, r < n, c >= 0, c < k), mind.cell.term[r] <= dist(r, c))))
        return (labels, mind)
    R.fns["sklearn.metrics.pairwise.pairwise_distances_argmin_min"] = _argmin_min
    R.fns["sklearn.metrics.pairwise_distances_argmin_min"] = _argmin_min

    def _manhattan(E, X, Y=None, **kw):
        fx, fy = X.snapshot(), Y.snapshot()
        E.trace.append(dict(op="manhattan_distances", X=X, Y=Y))
        return NdArr.from_fn("manhattan", (X.shape[0], Y.shape[0]), "real", lambda r, c: manhF(row_of(E, fx, r), row_of(E, fy, c)))
    R.fns["sklearn.metrics.pairwise.manhattan_distances"] = _manhattan
    R.fns["sklearn.utils.validation.check_is_fitted"] = lambda E, *a, **k: None

    def _kmeans_transform(E, self_obj, X, **kw):
        out = NdArr.fresh("kmeans_transform", (X.shape[0], self_obj.fields.get("n_clusters")), "real")
        E.trace.append(dict(op="KMeans.transform", obj=self_obj, X=X, result=out))
        return out
    R.fns["sklearn.cluster.KMeans.transform"] = _kmeans_transform
    R.fns["sklearn.cluster.KMeans._check_test_data"] = lambda E, self_obj, X: X
    R.ext_methods.setdefault("sklearn.cluster.KMeans", {})["_check_test_data"] = "sklearn.cluster.KMeans._check_test_data"
    dot1F = z3.Function("dot1", RA1, RA1, z3.RealSort())
    R.dot1F = dot1F

    def _dot(E, a, b, **kw):
        if isinstance(a, NdArr) and isinstance(b, NdArr) and a.ndim == 1 and b.ndim == 1:
            from .npmodel import shapes_equal
            shapes_equal(E, a.shape, b.shape, None, "dot-shape")
            return dot1F(term1c(E, a), term1c(E, b))
        if isinstance(a, NdArr) and isinstance(b, NdArr) and a.ndim == 2 and b.ndim == 1:
            return matmul(E, a, b, None)
        raise Unsupported("numpy.dot(%r, %r)" % (a, b))
    R.fns["numpy.dot"] = _dot
    R.fns["scipy.sparse.issparse"] = lambda E, X: False if isinstance(X, NdArr) else (_ for _ in ()).throw(Unsupported("issparse"))
    R.fns["sklearn.utils.extmath.row_norms"] = lambda E, X, squared=False: NdArr.fresh("row_norms", (X.shape[0],), "real")

    def _kmeans_predict(E, self_obj, X, **kw):
        """KMeans.predict(self, X): index of the nearest centre (row-wise)"""
        out = NdArr.fresh("nearest", (X.shape[0],), "int")
        E.trace.append(dict(op="KMeans.predict", obj=self_obj, X=X, result=out))
        return out
    R.fns["sklearn.cluster.KMeans.predict"] = _kmeans_predict
    R.fns["scipy.sparse.isspmatrix"] = lambda E, X: False if isinstance(X, NdArr) else (_ for _ in ()).throw(Unsupported("isspmatrix"))
    R.fns["sklearn.utils.check_array"] = lambda E, X, **kw: X

    def np_multiply(E, A, B, out=None, **kw):
        """numpy.multiply(A, B, out=C) with a one-column B broadcast over the columns of A"""
        from .npmodel import shapes_equal, arr_map
        if out is None:
            return arr_map(E, lambda x, y: x * y, [A, B], "real")
        if not (isinstance(A, NdArr) and isinstance(B, NdArr) and isinstance(out, NdArr) and A.ndim == 2 and B.ndim == 2 and out.ndim == 2):
            raise Unsupported("numpy.multiply(out=) on these operands")
        shapes_equal(E, A.shape, out.shape, None, "multiply-out-shape")
        shapes_equal(E, (A.shape[0],), (B.shape[0],), None, "multiply-rows")
        if not (isinstance(B.shape[1], int) and B.shape[1] == 1):
            shapes_equal(E, A.shape, B.shape, None, "multiply-shape")
            fa, fb = A.snapshot(), B.snapshot()
            out.assign_fn(lambda r, c: fa.get(r, c) * fb.get(r, c))
        else:
            fa, fb = A.snapshot(), B.snapshot()
            out.assign_fn(lambda r, c: fa.get(r, c) * fb.get(r, 0))
        E.note_write(out)
        return out
    R.fns["numpy.multiply"] = np_multiply

    # ------------------------------------------------------------------ sklearn.tree._tree.Tree being built node by node
    leafidF = z3.Function("leafid", z3.IntSort(), z3.RealSort(), z3.IntSort())
    R.leafidF = leafidF

    @reg("sklearn.tree._tree.Tree")
    def _tree_new(E, n_features, n_classes, n_outputs):
        o = Obj("Tree", tag="Tree")
        o.fields.update(cnt=z3.IntVal(0),
                        thr=z3.Const(fresh_name("thr"), z3.ArraySort(z3.IntSort(), z3.RealSort())),
                        leaf=z3.Const(fresh_name("isleaf"), z3.ArraySort(z3.IntSort(), z3.BoolSort())),
                        attL=z3.K(z3.IntSort(), z3.BoolVal(False)), attR=z3.K(z3.IntSort(), z3.BoolVal(False)))
        o.fields["$leafid"] = leafidF
        return o

    def tree_add_node(E, tree, parent, is_left, is_leaf, feature, threshold, impurity, n_node_samples, weighted, missing_go_to_left):
        """assumed contract of Tree._add_node (through the Cython wrapper tree_add_node): returns the next node id; a split node routes
        x <= threshold to the child attached on the left and x > threshold to the one attached on the right (final tree);
        precondition: the parent exists, is a split node and that slot is still free"""
        f = tree.fields
        cnt = f["cnt"]
        if not isinstance(is_left, bool) or not isinstance(is_leaf, bool):
            raise Unsupported("tree_add_node with symbolic flags")
        lid = f["$leafid"]
        att = "attL" if is_left else "attR"
        if not (isinstance(parent, int) and parent == -1):
            pz = z(parent)
            site = E.where(None)
            E.oblige("%s.%s.pre.tree_add_node.parent_is_an_existing_split_node_with_free_slot" % (E.prop, E.cur_func.qualname),
                     z3.And(pz >= 0, pz < cnt, z3.Not(f["leaf"][pz]), z3.Not(f[att][pz])), "pre@call")
            f[att] = z3.Store(f[att], pz, z3.BoolVal(True))
            x = z3.Real(fresh_name("x"))
            side = (x <= f["thr"][pz]) if is_left else (x > f["thr"][pz])
            E.axiom(z3.ForAll([x], z3.Implies(side, lid(pz, x) == lid(cnt, x)), patterns=[lid(pz, x)]))
        f["leaf"] = z3.Store(f["leaf"], cnt, z3.BoolVal(is_leaf))
        tv = z(threshold)
        f["thr"] = z3.Store(f["thr"], cnt, z3.ToReal(tv) if z3.is_int(tv) else tv)
        f["attL"] = z3.Store(f["attL"], cnt, z3.BoolVal(False))
        f["attR"] = z3.Store(f["attR"], cnt, z3.BoolVal(False))
        if is_leaf:
            x = z3.Real(fresh_name("x"))
            E.axiom(z3.ForAll([x], lid(cnt, x) == cnt, patterns=[lid(cnt, x)]))
        f["cnt"] = z3.simplify(cnt + 1)
        tree.events.append(("call", "add_node"))
        return cnt
    R.fns["pyx:mlinsights/mltree/_tree_digitize.pyx::tree_add_node"] = tree_add_node

    def m_add_node(E, recv, args, kwargs, node):
        """Tree._add_node itself (scikit-learn): the root is added with parent = _TREE_UNDEFINED = -2"""
        parent = args[0]
        if isinstance(parent, int) and parent == -2:
            parent = -1
        elif is_sym(parent):
            E.safety("add-node-parent", z(parent) >= 0, node, "ValueError")
        elif isinstance(parent, int) and parent < 0:
            raise Unsupported("Tree._add_node with parent %r" % (parent,))
        return tree_add_node(E, recv, parent, *args[1:], **kwargs)
    R.methods[("Tree", "_add_node")] = m_add_node

    def tree_attr(E, base, attr, node):
        if isinstance(base, Obj) and base.tag == "Tree":
            if attr == "value":
                if "$value" not in base.fields:
                    base.fields["$value"] = NdArr.fresh("tree_value", (base.fields["cnt"], 1, 1), "real", nan=True)
                return base.fields["$value"]
            if attr == "node_count":
                return base.fields["cnt"]
            if attr in ("children_left", "children_right", "threshold", "feature") and "$" + attr in base.fields:
                return base.fields["$" + attr]
        return NotImplemented
    R.attr_hooks.append(tree_attr)

    # ------------------------------------------------------------------ joblib (A8)
    def _parallel(E, *a, **kw):
        def runner(E, calls):
            def run1(c):
                if not isinstance(c, DelayedCall):
                    raise Unsupported("Parallel over non-delayed items")
                return E.call(c.f, list(c.args), dict(c.kwargs))
            if isinstance(calls, SymSeq):
                seq = SymSeq(calls.length, lambda k: run1(calls.item(k)), "parallel")
                E.generic_element_check(seq)
                return seq
            return [run1(c) for c in E.iterate_concrete(calls)]
        E.note_assumption("A8 joblib.Parallel(...)(delayed(f)(a) for ...) = [f(a) for ...] in order (sequential semantics)")
        return PyFn(runner, "Parallel-runner")
    R.fns["*.Parallel"] = _parallel

    def _delayed(E, f):
        return PyFn(lambda E, *a, **k: DelayedCall(f, a, k), "delayed")
    R.fns["*.delayed"] = _delayed
    R.fns["*.tqdm"] = lambda E, it, *a, **k: it

    # ------------------------------------------------------------------ numpy.random (global generator)
    @reg("numpy.random.randint")
    def _randint(E, low, high=None, size=None, dtype=None):
        if high is None:
            low, high = 0, low
        # numpy raises ValueError when high <= low
        E.safety("randint-range", z(high) > z(low), None, "ValueError")
        if size is None:
            v = E.int("rnd")
            E.assume(z3.And(v >= z(low), v < z(high)))
            E.trace.append(dict(op="randint", low=low, high=high, size=None, result=v, rng="Global"))
            return v
        if isinstance(size, tuple):
            raise Unsupported("randint with tuple size")
        E.safety("randint-size", z(size) >= 0, None, "ValueError")
        arr = NdArr.fresh("rnd", (size,), "int")
        i = z3.Int(fresh_name("i"))
        E.assume(z3.ForAll([i], z3.And(arr.cell.term[i] >= z(low), arr.cell.term[i] < z(high))))
        E.trace.append(dict(op="randint", low=low, high=high, size=size, result=arr, rng="Global"))
        if dtype is not None:
            from .npmodel import DType
            nm = dtype.name if isinstance(dtype, DType) else (dtype.name.split(".")[-1] if isinstance(dtype, ExternFn) else str(dtype))
            arr.cell.dtype_name = nm
        return arr

    # ------------------------------------------------------------------ boolean-mask gather / scatter (ghost rank / count)
    def mask_info(E, mask):
        """ghost symbols of one boolean mask: count K, rank: row -> position, unrank: position -> row"""
        key = ("mask", mask.cell.term.get_id(), tuple(map(repr, mask.imap)), tuple(map(repr, mask.shape)))
        if getattr(mask, "canonical_key", False):
            # masks declared interchangeable when they have the same pointwise definition (filter of a comprehension vs. the same
            # predicate written in a contract): key on the body at a canonical index
            canon = z3.Int("mask!canon")
            key = ("mask-body", z3.simplify(zbool(mask.get(canon))).sexpr(), tuple(map(repr, mask.shape)))
        cache = E.ps.setdefault("masks", {})
        if key in cache:
            return cache[key]
        fm = mask.snapshot()
        if isinstance(mask.shape[0], int):
            # a concrete mask (finite-scope pass, differential self-test): rank / unrank / count are computed, not axiomatised
            bits = [z3.simplify(fm.get(i)) for i in range(mask.shape[0])]
            if all(z3.is_true(b) or z3.is_false(b) for b in bits):
                sel = [i for i, b in enumerate(bits) if z3.is_true(b)]
                Kc = len(sel)

                def crank(r):
                    t = z3.IntVal(0)
                    for pos, i in reversed(list(enumerate(sel))):
                        t = z3.If(z(r) == i, z3.IntVal(pos), t)
                    return t

                def cunrank(j):
                    t = z3.IntVal(0)
                    for pos, i in reversed(list(enumerate(sel))):
                        t = z3.If(z(j) == pos, z3.IntVal(i), t)
                    return t
                cache[key] = (fm, z3.IntVal(mask.shape[0]), Kc, crank, cunrank)
                return cache[key]
        n = z(mask.shape[0])
        K = z3.Int(fresh_name("count"))
        rank = z3.Function(fresh_name("rank"), z3.IntSort(), z3.IntSort())
        unrank = z3.Function(fresh_name("unrank"), z3.IntSort(), z3.IntSort())
        r, j = z3.Int(fresh_name("mr")), z3.Int(fresh_name("mj"))
        inb = lambda v: z3.And(v >= 0, v < n)
        E.axiom(K >= 0)
        E.axiom(K <= n)
        E.axiom(z3.ForAll([r], z3.Implies(z3.And(inb(r), fm.get(r)), z3.And(rank(r) >= 0, rank(r) < K, unrank(rank(r)) == r)),
                          patterns=[rank(r)]))
        E.axiom(z3.ForAll([j], z3.Implies(z3.And(j >= 0, j < K), z3.And(inb(unrank(j)), fm.get(unrank(j)), rank(unrank(j)) == j)),
                          patterns=[unrank(j)]))
        r0 = z3.Int(fresh_name("mr0"))
        # corollary of the line above (0 <= rank(r) < K for a selected r), stated without the rank function so that it is found: no selected row when K = 0
        E.axiom(z3.Implies(K <= 0, z3.ForAll([r0], z3.Implies(inb(r0), z3.Not(fm.get(r0))))))
        j2 = z3.Int(fresh_name("mj2"))
        E.axiom(z3.ForAll([j, j2], z3.Implies(z3.And(j >= 0, j < j2, j2 < K), unrank(j) < unrank(j2)), patterns=[z3.MultiPattern(unrank(j), unrank(j2))]),
                requested=False)      # order preservation: only tried in the last solver stage (rarely needed, costly to instantiate)
        E.used_lemmas.add("mask_rank: numpy boolean-mask selection keeps the selected rows in order (rank/unrank bijection, count)")
        cache[key] = (fm, n, K, rank, unrank)
        return cache[key]
    R.mask_info = mask_info

    def mask_select(E, arr, mask, node=None):
        from .npmodel import shapes_equal
        if mask.ndim != 1:
            raise Unsupported("mask rank %d" % mask.ndim)
        shapes_equal(E, (arr.shape[0],), (mask.shape[0],), node, "mask-length")
        fm, n, K, rank, unrank = mask_info(E, mask)
        fa = arr.snapshot()
        if arr.ndim == 1:
            out = NdArr.from_fn("sel", (K,), arr.kind, lambda j: fa.get(unrank(j)))
        elif arr.ndim == 2:
            out = NdArr.from_fn("sel", (K, arr.shape[1]), arr.kind, lambda j, c: fa.get(unrank(j), c))
            if isinstance(K, int):
                out.cell.sel_of = (arr, mask)
                return out
            # rows of the selection are the selected rows (row extensionality, instance of the sel definition)
            r = z3.Int(fresh_name("sr"))
            E.axiom(z3.ForAll([r], z3.Implies(z3.And(r >= 0, r < n, fm.get(r)), row_of(E, out, rank(r)) == row_of(E, fa, r)),
                              patterns=[rank(r)]))
            j = z3.Int(fresh_name("sj"))
            E.axiom(z3.ForAll([j], z3.Implies(z3.And(j >= 0, j < K), row_of(E, out, j) == row_of(E, fa, unrank(j))),
                              patterns=[unrank(j)]))
        else:
            raise Unsupported("mask select rank %d" % arr.ndim)
        out.cell.sel_of = (arr, mask)
        return out
    R.mask_select = mask_select

    def fancy_set(E, arr, idx, val, node):
        if isinstance(idx, NdArr) and idx.kind == "bool" and idx.ndim == 1 and isinstance(val, NdArr):
            from .npmodel import shapes_equal
            shapes_equal(E, (arr.shape[0],), (idx.shape[0],), node, "mask-length")
            fm, n, K, rank, unrank = mask_info(E, idx)
            shapes_equal(E, (K,) + tuple(arr.shape[1:]), tuple(val.shape), node, "mask-assign-shape")
            old, fv = arr.snapshot(), val.snapshot()
            arr.assign_fn(lambda r, *c: z3.If(fm.get(r), fv.get(rank(r), *c), old.get(r, *c)))
            return None
        if isinstance(idx, NdArr) and idx.kind == "bool" and idx.ndim == 1 and not isinstance(val, NdArr):
            from .npmodel import cast
            old, fm = arr.snapshot(), idx.snapshot()
            arr.assign_fn(lambda r, *c: z3.If(fm.get(r), cast(val, arr.kind), old.get(r, *c)))
            return None
        if isinstance(idx, tuple) and len(idx) == 2 and isinstance(idx[0], NdArr) and idx[0].kind == "int" and idx[0].ndim == 1 \
                and not isinstance(idx[1], (NdArr, slice, tuple, list)) and arr.ndim == 2 and not isinstance(val, NdArr):
            # mat[indices, j] = v : rows listed in an integer vector, one column
            from .npmodel import cast
            from .pymodel import norm_index
            col = norm_index(E, idx[1], arr.shape[1], node)
            fi = idx[0].snapshot()
            m = z(idx[0].shape[0])
            q = z3.Int(fresh_name("fq"))
            E.safety("fancy-store-rows", z3.ForAll([q], z3.Implies(z3.And(q >= 0, q < m), z3.And(fi.get(q) >= 0, fi.get(q) < z(arr.shape[0])))),
                     node, "IndexError")
            old = arr.snapshot()
            hit = lambda r: z3.Exists([q], z3.And(q >= 0, q < m, fi.get(q) == r))
            arr.assign_fn(lambda r, c: z3.If(z3.And(c == z(col), hit(r)), cast(val, arr.kind), old.get(r, c)))
            return None
        if isinstance(idx, NdArr) and idx.kind == "int" and idx.ndim == 1 and isinstance(val, NdArr) and val.ndim == arr.ndim:
            # arr[positions] = values : scatter; a position listed several times keeps the value of ONE of its writers
            # (numpy: the last one - not modelled, an over-approximation)
            from .npmodel import shapes_equal
            shapes_equal(E, (idx.shape[0],) + tuple(arr.shape[1:]), tuple(val.shape), node, "scatter-shape")
            n, m = z(arr.shape[0]), z(idx.shape[0])
            fi, fv, old = idx.snapshot(), val.snapshot(), arr.snapshot()
            q = z3.Int(fresh_name("fq"))
            E.safety("fancy-store-rows", z3.ForAll([q], z3.Implies(z3.And(q >= 0, q < m), z3.And(fi.get(q) >= -n, fi.get(q) < n))), node, "IndexError")
            pos = lambda r: z3.If(fi.get(r) < 0, fi.get(r) + n, fi.get(r))
            if isinstance(idx.shape[0], int):
                # a concrete number of positions: numpy's semantics exactly (writes in order, the last one wins)
                def after(r, *c):
                    v = old.get(r, *c)
                    for q_ in range(idx.shape[0]):
                        v = z3.If(pos(q_) == r, fv.get(q_, *c), v)
                    return v
                arr.assign_fn(after)
                return None
            writer = z3.Function(fresh_name("writer"), z3.IntSort(), z3.IntSort())
            p = z3.Int(fresh_name("fp"))
            E.assume(z3.ForAll([p], z3.Implies(z3.Exists([q], z3.And(q >= 0, q < m, pos(q) == p)),
                                               z3.And(writer(p) >= 0, writer(p) < m, pos(writer(p)) == p))))
            hit = lambda r: z3.Exists([q], z3.And(q >= 0, q < m, pos(q) == r))
            arr.assign_fn(lambda r, *c: z3.If(hit(r), fv.get(writer(r), *c), old.get(r, *c)))
            return None
        raise Unsupported("fancy store %r" % (idx,))
    R.fancy_set = fancy_set

    def np_any(E, a):
        if isinstance(a, NdArr) and a.ndim == 1 and a.kind == "bool":
            fm, n, K, rank, unrank = mask_info(E, a)
            return (K > 0) if isinstance(K, int) else K > 0
        raise Unsupported("any(%r)" % (a,))
    R.np_any = np_any
    R.fns["numpy.any"] = lambda E, a, **kw: np_any(E, a)

    def np_all(E, a):
        if isinstance(a, NdArr) and a.ndim == 1 and a.kind == "bool":
            fm, n, K, rank, unrank = mask_info(E, a)
            r = z3.Int(fresh_name("ar"))
            # all(mask) <=> every row selected (count = n); stated both ways for the solver
            if isinstance(K, int):
                return K == a.shape[0]
            E.axiom(z3.Implies(K == n, z3.ForAll([r], z3.Implies(z3.And(r >= 0, r < n), fm.get(r)))))
            E.axiom(z3.Implies(z3.ForAll([r], z3.Implies(z3.And(r >= 0, r < n), fm.get(r))), K == n))
            return K == n
        raise Unsupported("all(%r)" % (a,))
    R.np_all = np_all
    R.fns["numpy.all"] = lambda E, a, **kw: np_all(E, a)

    # ------------------------------------------------------------------ integer-array indexing
    def fancy_get(E, arr, idx, node):
        if isinstance(idx, tuple) and len(idx) == 2 and isinstance(idx[0], NdArr) and idx[0].kind == "bool" and isinstance(idx[1], slice) \
                and idx[1] == slice(None, None, None):
            return mask_select(E, arr, idx[0], node)
        if isinstance(idx, tuple) and not (len(idx) == 2 and isinstance(idx[1], (tuple, list))):
            if len(idx) == 2 and isinstance(idx[0], NdArr) and isinstance(idx[1], slice) and \
                    idx[1].start is None and idx[1].stop is None and idx[1].step is None:
                idx = idx[0]
            else:
                raise Unsupported("fancy index %r" % (idx,))
        if isinstance(idx, tuple) and len(idx) == 2 and isinstance(idx[0], slice) and idx[0] == slice(None, None, None) \
                and isinstance(idx[1], (tuple, list)) and all(isinstance(c, int) for c in idx[1]) and arr.ndim == 2:
            cols = list(idx[1])
            from .pymodel import norm_index
            cols = [norm_index(E, c, arr.shape[1], node) for c in cols]
            fa = arr.snapshot()

            def pick(r, c):
                v = fa.get(r, cols[-1]) if cols else z3.RealVal(0)
                for k in range(len(cols) - 2, -1, -1):
                    v = z3.If(c == k, fa.get(r, cols[k]), v)
                return v
            return NdArr.from_fn("cols", (arr.shape[0], len(cols)), arr.kind, pick)
        if isinstance(idx, NdArr) and idx.kind == "int" and idx.ndim == 1:
            n = z(arr.shape[0])
            fi = idx.snapshot()
            i = z3.Int(fresh_name("fi"))
            inb = z3.ForAll([i], z3.Implies(z3.And(i >= 0, i < z(idx.shape[0])),
                                            z3.And(fi.get(i) >= -n, fi.get(i) < n)))
            # numpy accepts -n <= j < n (negative positions count from the end)
            E.safety("fancy-index", inb, node, "IndexError")
            fa = arr.snapshot()
            shape = (idx.shape[0],) + tuple(arr.shape[1:])
            pos = lambda r: z3.If(fi.get(r) < 0, fi.get(r) + n, fi.get(r))
            nanfn = (lambda r, *c: fa.isnan(pos(r), *c)) if fa.cell.nan is not None else None
            return NdArr.from_fn("take", shape, arr.kind, lambda r, *c: fa.get(pos(r), *c), nanfn)
        raise Unsupported("fancy index %r at %s" % (idx, E.where(node)))
    R.fancy_get = fancy_get
