"""Ghost functions and their lemma instances (DESIGN 4.2).  Every lemma schema used here is a
statement about finite sums / sorting / counting; the statements are listed in LEMMAS and the
non-trivial ones are checked by Lean in lemmas/Sums.lean (same statement, by hand transcription; run by the check of every property that uses them).
Instances are generated per application (and per pair of applications for congruence): the
solver never sees a quantifier over arrays."""
import z3

from .values import (NdArr, Cell, Opaque, SList, NaN, Unsupported, is_sym, z, zbool, znum, fresh_name,
                     is_num_like)

LEMMAS = {
    "sum_empty": "n <= 0 -> Sum(a,n) = 0",
    "sum_nonneg": "(forall i in [0,n). a[i] >= 0) -> Sum(a,n) >= 0",
    "sum_nonpos": "(forall i in [0,n). a[i] <= 0) -> Sum(a,n) <= 0",
    "sum_congr": "n = m and (forall i in [0,n). a[i] = b[i]) -> Sum(a,n) = Sum(b,m)",
    "sum_scale": "(forall i in [0,n). a[i] = c*b[i]) -> Sum(a,n) = c*Sum(b,n)",
    "sum_le": "(forall i in [0,n). a[i] <= b[i]) -> Sum(a,n) <= Sum(b,n)",
    "sum_bounds": "n >= 1 and (forall i. lo <= a[i] <= hi) -> n*lo <= Sum(a,n) <= n*hi",
    "sort_perm": "numpy.sort(a) is non-decreasing and a permutation of a",
    "sum_zero_terms": "(forall i in [0,n). a[i] >= 0) and Sum(a,n) <= 0 -> forall i in [0,n). a[i] <= 0",
}

RA = z3.ArraySort(z3.IntSort(), z3.RealSort())
SumF = z3.Function("Sum", RA, z3.IntSort(), z3.RealSort())


def _all_in(n, fn):
    i = z3.Int(fresh_name("si"))
    return z3.ForAll([i], z3.Implies(z3.And(i >= 0, i < n), fn(i)))


def sum1(E, arr, node=None):
    """Sum of a 1-d array through the ghost function, with lemma instances"""
    if arr.ndim != 1:
        raise Unsupported("Sum of rank %d" % arr.ndim)
    key = ("sum1", arr.cell.term.get_id(), tuple(map(repr, arr.imap)), tuple(map(repr, arr.shape)))
    cache = E.ps.setdefault("sum1", {})
    if key in cache:
        return cache[key]
    fs = arr.snapshot()
    flagged = arr.cell.nan is not None
    masked = flagged and getattr(arr.cell, "masked", False)
    from .values import NanReal
    if isinstance(arr.shape[0], int):
        # concrete length (finite-scope pass, differential self-test): the sum is computed, not axiomatised
        tot = z3.RealVal(0)
        flags = []
        for j in range(arr.shape[0]):
            v = fs.get(j)
            v = z3.If(v, z3.RealVal(1), z3.RealVal(0)) if z3.is_bool(v) else (z3.ToReal(v) if z3.is_int(v) else v)
            if flagged:
                flags.append(zbool(fs.isnan(j)))
                if masked:
                    v = z3.If(flags[-1], z3.RealVal(0), v)
            tot = tot + v
        tot = z3.simplify(tot)
        if flagged:
            # numpy.ma: the sum of the unmasked cells, `masked` when there is none; plain arrays: NaN as soon as one cell is NaN
            flag = z3.simplify(z3.And(*flags) if masked else z3.Or(*flags)) if flags else z3.BoolVal(bool(masked))
            if not z3.is_false(flag):
                tot = NanReal(tot, flag)
        cache[key] = tot
        return cache[key]
    n = z(arr.shape[0])
    i = z3.Int(fresh_name("sx"))
    body = fs.get(i)
    if z3.is_int(body):
        body = z3.ToReal(body)
    if z3.is_bool(body):
        body = z3.If(body, z3.RealVal(1), z3.RealVal(0))
    if masked:
        body = z3.If(zbool(fs.isnan(i)), z3.RealVal(0), body)
    a = z3.Lambda([i], body)
    S = sum_term(E, a, n)
    if flagged:
        q = z3.Int(fresh_name("sq"))
        inb = z3.And(q >= 0, q < n)
        flag = z3.ForAll([q], z3.Implies(inb, zbool(fs.isnan(q)))) if masked else z3.Exists([q], z3.And(inb, zbool(fs.isnan(q))))
        S = NanReal(S, flag)
    cache[key] = S
    return cache[key]


def sum_term(E, a, n):
    """per application: sum_empty / sum_nonneg / sum_nonpos instances.  Congruence and monotonicity
    instances between two applications are requested by contracts (sum_congr, sum_congr_all)."""
    S = SumF(a, n)
    E.axiom(z3.Implies(n <= 0, S == 0), requested=False)
    E.axiom(z3.Implies(_all_in(n, lambda i: z3.Select(a, i) >= 0), S >= 0), requested=False)
    E.axiom(z3.Implies(_all_in(n, lambda i: z3.Select(a, i) <= 0), S <= 0), requested=False)
    E._sum_apps_for_path().append((a, n, S))
    E.used_lemmas.update(["sum_empty", "sum_nonneg", "sum_nonpos"])
    return S


def sum_zero_terms(E, app):
    """non-negative terms with a sum <= 0 are all zero (instance for one application)"""
    a, n, S = app
    E.axiom(z3.Implies(z3.And(_all_in(n, lambda i: z3.Select(a, i) >= 0), S <= 0), _all_in(n, lambda i: z3.Select(a, i) <= 0)))
    E.used_lemmas.add("sum_zero_terms")


def sum_congr(E, app1, app2, le=False):
    (a, n, S), (b, m, Sb) = app1, app2
    E.axiom(z3.Implies(z3.And(n == m, _all_in(n, lambda i: z3.Select(a, i) == z3.Select(b, i))), S == Sb))
    E.used_lemmas.add("sum_congr")
    if le:
        E.axiom(z3.Implies(z3.And(n == m, _all_in(n, lambda i: z3.Select(a, i) <= z3.Select(b, i))), S <= Sb))
        E.axiom(z3.Implies(z3.And(n == m, _all_in(n, lambda i: z3.Select(b, i) <= z3.Select(a, i))), Sb <= S))
        E.used_lemmas.add("sum_le")


def sum_congr_all(E, le=False):
    apps = E._sum_apps_for_path()
    for i in range(len(apps)):
        for j in range(i + 1, len(apps)):
            sum_congr(E, apps[i], apps[j], le)


def app_of(E, S):
    for app in E._sum_apps_for_path():
        if z3.eq(app[2], S):
            return app
    raise KeyError("no Sum application for %s" % S)


def sum_scale_lemma(E, a, b, n, c):
    """instance of sum_scale for Sum(a,n), Sum(b,n), scalar c (requested by a contract)"""
    E.axiom(z3.Implies(_all_in(n, lambda i: z3.Select(a, i) == c * z3.Select(b, i)),
                       SumF(a, n) == c * SumF(b, n)))
    E.used_lemmas.add("sum_scale")


def install(R):
    from .npmodel import cast, kind_of_scalar, arr_map, MaskedView, materialize, getitem as np_getitem

    def np_sum(E, a, axis=None, **kw):
        if isinstance(a, MaskedView):
            a = materialize(R, E, a)
        if is_sym(a) or is_num_like(a):
            return a
        if not isinstance(a, NdArr):
            raise Unsupported("sum of %r" % (a,))
        if a.ndim == 1 and axis in (None, 0):
            return sum1(E, a)
        if a.ndim == 2 and axis == 1:
            return row_reduce(E, a, "sum")
        if a.ndim == 2 and axis == 0 and a.cell.nan is None:
            # column sums: one ghost function per reduction, ColSum_k(c) := Sum(i -> a[i,c], rows); only its sign lemma is instantiated
            fs = a.snapshot()
            f = z3.Function(fresh_name("ColSum"), z3.IntSort(), z3.RealSort())
            c, i = z3.Int(fresh_name("cc")), z3.Int(fresh_name("ci"))
            rows, cols = z(a.shape[0]), z(a.shape[1])
            val = lambda r, col: z3.ToReal(fs.get(r, col)) if z3.is_int(fs.get(r, col)) else fs.get(r, col)
            E.axiom(z3.ForAll([c], z3.Implies(z3.And(c >= 0, c < cols, z3.ForAll([i], z3.Implies(z3.And(i >= 0, i < rows), val(i, c) >= 0))), f(c) >= 0),
                              patterns=[f(c)]), requested=False)
            E.used_lemmas.add("sum_nonneg")
            return NdArr.from_fn("colsum", (a.shape[1],), "real", lambda col: f(col))
        if a.ndim == 2 and axis is None and a.cell.nan is None:
            if isinstance(a.shape[0], int) and a.shape[0] == 1:
                return sum1(E, np_getitem(R, E, a, (0, slice(None, None, None)), None))       # a single row
            fs = a.snapshot()
            if isinstance(a.shape[0], int) and isinstance(a.shape[1], int):
                cells = [fs.get(i_, c_) for i_ in range(a.shape[0]) for c_ in range(a.shape[1])]
                cells = [z3.ToReal(v_) if z3.is_int(v_) else (z3.If(v_, z3.RealVal(1), z3.RealVal(0)) if z3.is_bool(v_) else v_) for v_ in cells]
                return z3.simplify(z3.Sum(cells)) if cells else z3.RealVal(0)
            # the total of a matrix: one ghost number per reduction; only its sign lemma is instantiated
            tot = E.real("total")
            i, c = z3.Int(fresh_name("ti")), z3.Int(fresh_name("tc"))
            val = fs.get(i, c)
            val = z3.ToReal(val) if z3.is_int(val) else (z3.If(val, z3.RealVal(1), z3.RealVal(0)) if z3.is_bool(val) else val)
            inb = z3.And(i >= 0, i < z(a.shape[0]), c >= 0, c < z(a.shape[1]))
            E.axiom(z3.Implies(z3.ForAll([i, c], z3.Implies(inb, val >= 0)), tot >= 0), requested=False)
            E.used_lemmas.add("sum_nonneg")
            return tot
        raise Unsupported("numpy.sum rank %d axis %r" % (a.ndim, axis))
    R.np_sum = np_sum

    def row_reduce(E, a, what):
        fs = a.snapshot()
        m = z(a.shape[1])
        rows = a.shape[0]
        # one ghost function per reduction: RowSum_k(r) := Sum(j -> a[r,j], m); the lemma instances
        # needed about it are requested by contracts through E.row_sum_facts
        f = z3.Function(fresh_name("RowSum"), z3.IntSort(), z3.RealSort())
        E.ps.setdefault("row_sums", []).append((f, fs, m))
        if what == "sum":
            return NdArr.from_fn("rowsum", (rows,), "real", lambda r: f(r))
        return NdArr.from_fn("rowmean", (rows,), "real", lambda r: f(r) / z3.ToReal(m))

    def np_mean(E, a, axis=None, **kw):
        if not isinstance(a, NdArr):
            raise Unsupported("mean of %r" % (a,))
        if a.ndim == 1 and axis in (None, 0):
            return sum1(E, a) / z3.ToReal(z(a.shape[0]))
        if a.ndim == 2 and axis == 1:
            return row_reduce(E, a, "mean")
        if a.ndim == 2 and axis == 0:
            return col_stat(E, a, "mean")
        raise Unsupported("numpy.mean rank %d axis %r" % (a.ndim, axis))
    R.np_mean = np_mean

    def col_stat(E, a, what):
        """per-column statistic of a matrix (mean / std over the rows): a ghost function of the column; std is non-negative"""
        f = z3.Function(fresh_name("Col" + what), z3.IntSort(), z3.RealSort())
        c = z3.Int(fresh_name("cc"))
        if what == "std":
            E.axiom(z3.ForAll([c], f(c) >= 0, patterns=[f(c)]))
        return NdArr.from_fn("col" + what, (a.shape[1],), "real", lambda col: f(col))
    R.col_stat = col_stat

    def np_average(E, a, axis=None, weights=None, **kw):
        """numpy.average(a, weights=w) of vectors: Sum(a*w) / Sum(w) (ZeroDivisionError when the weights sum to zero); the mean without weights"""
        if weights is None:
            return np_mean(E, a, axis)
        if not (isinstance(a, NdArr) and isinstance(weights, NdArr) and a.ndim == 1 and weights.ndim == 1 and axis in (None, 0)):
            raise Unsupported("numpy.average of %r with weights %r" % (a, weights))
        from .npmodel import arr_map as _arr_map
        prod = _arr_map(E, lambda x, y: x * y, [a, weights], "real")
        den = sum1(E, weights)
        E.safety("average-weights-sum", z(den) != 0, None, "ZeroDivisionError")
        return sum1(E, prod) / den
    R.fns["numpy.average"] = np_average

    def np_sort(E, a, axis=-1, **kw):
        if not isinstance(a, NdArr) or a.ndim != 1:
            raise Unsupported("numpy.sort of %r" % (a,))
        fs = a.snapshot()
        n = z(a.shape[0])
        out = NdArr.fresh("sorted", a.shape, a.kind)
        pi = z3.Function(fresh_name("perm"), z3.IntSort(), z3.IntSort())
        inv = z3.Function(fresh_name("perminv"), z3.IntSort(), z3.IntSort())
        i, j = z3.Int(fresh_name("i")), z3.Int(fresh_name("j"))
        E.axiom(z3.ForAll([i, j], z3.Implies(z3.And(0 <= i, i <= j, j < n), out.get(i) <= out.get(j))))
        E.axiom(z3.ForAll([i], z3.Implies(z3.And(0 <= i, i < n),
                                          z3.And(0 <= pi(i), pi(i) < n, inv(pi(i)) == i, out.get(i) == fs.get(pi(i))))))
        E.axiom(z3.ForAll([i], z3.Implies(z3.And(0 <= i, i < n),
                                          z3.And(0 <= inv(i), inv(i) < n, pi(inv(i)) == i,
                                                 out.get(inv(i)) == fs.get(i)))))
        E.used_lemmas.add("sort_perm")
        E.ps.setdefault("sorts", []).append((out, fs, pi, inv))
        return out
    R.np_sort = np_sort

    def np_reshape(E, arr, *shape, **kw):
        if len(shape) == 1 and isinstance(shape[0], (tuple, list)):
            shape = tuple(shape[0])
        if len(shape) == arr.ndim and all(s_ == -1 or _same(s_, t_) for s_, t_ in zip(shape, arr.shape)):
            return arr
        if arr.ndim == 1 and len(shape) == 2 and shape[1] == 1 and (shape[0] == -1 or _same(shape[0], arr.shape[0])):
            fs = arr
            return arr.view((arr.shape[0], 1), [("dim", 0, e[2], e[3]) if e[0] == "dim" else e for e in arr.imap])
        if arr.ndim == 2 and len(shape) == 1 and (_same(arr.shape[1], 1)) and (shape[0] == -1 or _same(shape[0], arr.shape[0])):
            from .npmodel import getitem as np_getitem
            return np_getitem(R, E, arr, (slice(None, None, None), 0), None)
        raise Unsupported("reshape %r -> %r" % (arr.shape, shape))

    def _same(a, b):
        if not is_sym(a) and not is_sym(b):
            return a == b
        return z3.is_true(z3.simplify(z(a) == z(b)))
    R.np_reshape = np_reshape

    def unsupported(name):
        def f(E, *a, **k):
            raise Unsupported(name)
        return f

    for nm in ("matmul", "pow_", "fancy_get", "fancy_set", "mask_select", "opaque_binop", "np_reshape",
               "np_any", "np_all", "np_max", "np_min", "str_split"):
        if not hasattr(R, nm):
            setattr(R, nm, unsupported(nm))
    R.opaque_hasattr = lambda E, v, attr: (_ for _ in ()).throw(Unsupported("hasattr on opaque %r.%s" % (v, attr)))
    R.opaque_isinstance = lambda E, v, name: False
