"""Mechanical extraction of the Python-subset text of a Cython (.pyx) file, on every run, from /repo's current source.

    python3-vt -m pyvc.pyxstrip FILE.pyx      prints the extracted text and the list of what was dropped

The extraction is purely syntactic.  It keeps every statement, expression, loop, branch, call, attribute and index exactly as
written, and DROPS / REWRITES only the following (reported per file in `Stripped.dropped`):

  D1  `ctypedef` lines, `cimport` lines (a relative `from .x cimport (A, b_t)` becomes `from .x import (A, b_t)`), `cnp.import_array()`
  D2  `cdef class A(B):`                               ->  `class A(B):`
  D3  class-level C attribute declarations `cdef T* name` / `cdef T name`          (dropped; the names are recorded)
  D4  C signatures: `cdef T f(self, const T[:, ::1] y, T* p, U q=1) except -1 nogil:`  ->  `def f(self, y, p, q=1):`
      (return type, parameter types, `except ...`, `noexcept`, `nogil` dropped)
  D5  decorators `@cython.*`                                                        (dropped)
  D6  local C declarations: `cdef T a, b` dropped; `cdef T a = e` -> `a = e`
  D7  casts `<T>e`, `<T*>e`                                                         ->  `e`
  D8  address-of: a local whose address is taken (`&x`) becomes a one-element cell: its declaration `x = [0.0]`, every use `x[0]`,
      `&x` -> `x`;  `&self.attr` -> `_pyx_attr_ref(self, "attr")` (an object whose [0] reads / writes the attribute).
      A pointer PARAMETER `T* p` is used as written (`p[0] = ...`, passed on as `p`).
  D9  `NULL` -> `None` (`== NULL` -> `is None`), `sizeof(T)` -> `"T"`; `calloc`, `free`, `NAN`, `Criterion` resolve to pyvc.pyx_runtime
      (zero-filled buffer of element type T, no-op, nan, a plain base class holding scikit-learn's Criterion attributes)
  D10 a C function with an integer return type whose last statement is not a return gets a final `return 0` (Cython's default)

What is NOT modelled and therefore assumed when reading the extracted text as Python: C integer / double arithmetic is
mathematical (A1/A2), `@cython.boundscheck(False)` (an out-of-range index is undefined behaviour in C: the executor checks every
index instead - a possible out-of-range access is reported, never assumed away), memory allocation never fails, the GIL.
The extracted text is also executable by CPython with pyvc.pyx_runtime (differential test against the compiled extension:
bounded/C09.py)."""
import re
import sys

CTYPES = r"(?:const\s+)?(?:unsigned\s+)?(?:float64_t|float32_t|intp_t|int32_t|int64_t|uint8_t|int|double|float|long|size_t|void|bint|char|object|Criterion|" \
         r"cnp\.\w+|[A-Z]\w*_t)"
CAST = re.compile(r"<\s*" + CTYPES + r"\s*\**\s*>\s*")
DECL_HEAD = re.compile(r"^(\s*)cdef\s+(" + CTYPES + r")\s*(\[[^\]]*\])?\s*(\**)\s*(.*)$")


class Stripped:
    def __init__(self, text, dropped, c_attrs):
        self.text, self.dropped, self.c_attrs = text, dropped, c_attrs


def _split_params(s):
    out, depth, cur = [], 0, ""
    for ch in s:
        if ch in "([{":
            depth += 1
        elif ch in ")]}":
            depth -= 1
        if ch == "," and depth == 0:
            out.append(cur)
            cur = ""
        else:
            cur += ch
    if cur.strip():
        out.append(cur)
    return out


def _param_name(p):
    p = p.strip()
    default = None
    if "=" in p and not p.startswith("*"):
        p, default = p.split("=", 1)
        p, default = p.strip(), default.strip()
    p = re.sub(r"\[[^\]]*\]", " ", p)          # memoryview brackets
    p = p.replace("*", " ")
    name = p.split()[-1]
    return name + ("=" + default if default is not None else "")


def _header(lines, i):
    """join a (possibly multi-line) def/cdef header starting at line i; returns (text, next index)"""
    txt = lines[i]
    depth = txt.count("(") - txt.count(")")
    j = i
    while depth > 0 or not txt.rstrip().endswith(":"):
        j += 1
        txt += "\n" + lines[j]
        depth += lines[j].count("(") - lines[j].count(")")
    return txt, j + 1


def strip(src):
    dropped, c_attrs = [], []
    lines = src.split("\n")
    out = []
    i = 0
    in_class_indent = None
    while i < len(lines):
        ln = lines[i]
        s = ln.strip()
        ind = ln[:len(ln) - len(ln.lstrip())]
        # D1
        if re.match(r"^(from\s+\S+\s+)?cimport\b", s):
            m = re.match(r"^from\s+(\.\S*)\s+cimport\s*(.*)$", s)
            txt, j = ln, i + 1
            if "(" in s and ")" not in s:
                while ")" not in lines[j]:
                    txt += "\n" + lines[j]
                    j += 1
                txt += "\n" + lines[j]
                j += 1
            if m:
                flat = " ".join(txt.split())
                names = [x.strip() for x in re.sub(r"^from\s+\S+\s+cimport", "", flat).strip(" ()").split(",") if x.strip()]
                keep = [x for x in names if not x.endswith("_t")]
                out.append(ind + ("from %s import %s" % (m.group(1), ", ".join(keep)) if keep else ""))
                out.extend([""] * (j - i - 1))
                dropped.append("D1 relative cimport -> import (C typedefs %s dropped): %s" % ([x for x in names if x.endswith("_t")], flat))
            else:
                out.extend([ind + "pass  # " + t.strip() if k == 0 and False else "" for k, t in enumerate(txt.split("\n"))])
                dropped.append("D1 " + " ".join(txt.split()))
            i = j
            continue
        if re.match(r"^ctypedef\b", s):
            out.append("")
            dropped.append("D1 " + s)
            i += 1
            continue
        if s == "cnp.import_array()":
            out.append("")
            dropped.append("D1 cnp.import_array()")
            i += 1
            continue
        # D5
        if s.startswith("@cython."):
            out.append("")
            dropped.append("D5 " + s)
            i += 1
            continue
        # D2
        m = re.match(r"^(\s*)cdef\s+class\s+(.*)$", ln)
        if m:
            out.append(m.group(1) + "class " + m.group(2))
            dropped.append("D2 cdef class " + m.group(2).split("(")[0])
            in_class_indent = len(m.group(1))
            i += 1
            continue
        # D4 function headers
        if re.match(r"^\s*(cdef|cpdef|def)\s+[^=]*\(", ln) and not re.match(r"^\s*cdef\s+class\b", ln):
            txt, j = _header(lines, i)
            flat = " ".join(txt.split())
            m = re.match(r"^(cdef|cpdef|def)\s+(.*?)(\w+)\s*\((.*)\)\s*([^:()]*):$", flat)
            if m is None:
                raise ValueError("unparsed header: %r" % flat)
            kind, rtype, name, params, tail = m.groups()
            names = [_param_name(p) for p in _split_params(params)]
            out.append(ind + "def %s(%s):" % (name, ", ".join(names)) + ("  # pyx:int" if kind != "def" and rtype.strip() in ("int", "intp_t", "long") else ""))
            out.extend([""] * (j - i - 1))
            if kind != "def" or rtype.strip() or tail.strip() or any(_param_name(p) != p.strip() for p in _split_params(params)):
                dropped.append("D4 %s -> def %s(%s)" % (flat, name, ", ".join(names)))
            i = j
            continue
        # D3 / D6 declarations
        m = DECL_HEAD.match(CAST.sub("", ln)) if s.startswith("cdef ") else None
        if m:
            indent, ctype, brackets, stars, rest = m.groups()
            rest = rest.strip()
            if "=" in rest:
                name, val = rest.split("=", 1)
                out.append(indent + name.strip() + " = " + val.strip())
                dropped.append("D6 %s -> %s = ..." % (s.split("=")[0].strip(), name.strip()))
            else:
                names = [x.strip().lstrip("*").strip() for x in rest.split(",")]
                is_class_level = in_class_indent is not None and len(indent) == in_class_indent + 4 and not _inside_function(out, len(indent))
                if is_class_level:
                    c_attrs.extend(names)
                    dropped.append("D3 " + s)
                    out.append("")
                else:
                    out.append(indent + "_pyx_declare = %r" % (names,))
                    dropped.append("D6 " + s)
            i += 1
            continue
        out.append(ln)
        i += 1
    out = _default_returns(out, dropped)
    text = "\n".join(out)
    n_cast = len(CAST.findall(text))
    if n_cast:
        dropped.append("D7 %d casts <T>e -> e" % n_cast)
    text = CAST.sub("", text)
    text = _address_of(text, dropped)
    text, k = re.subn(r"\bsizeof\(\s*([^)]*?)\s*\)", r'"\1"', text)
    if k:
        dropped.append('D9 %d sizeof(T) -> "T" (the element type of the buffer calloc returns)' % k)
    text = re.sub(r"==\s*NULL\b", "is NULL", text)
    text = re.sub(r"!=\s*NULL\b", "is not NULL", text)
    text, k = re.subn(r"\bNULL\b", "None", text)
    if k:
        dropped.append("D9 %d NULL -> None" % k)
    prelude = "from pyvc.pyx_runtime import calloc, free, NAN, _pyx_attr_ref, Criterion"
    first, rest = (text.split("\n", 1) + [""])[:2]
    # the prelude takes the place of the first line when that line was dropped (line numbers stay those of the .pyx)
    text = (prelude + "\n" + rest) if not first.strip() else (prelude + "; " + first + "\n" + rest)
    return Stripped(text, dropped, c_attrs)


def _default_returns(lines, dropped):
    """D10: `cdef int f(...)` whose last statement is not a return gets `return 0`"""
    res = list(lines)
    k = 0
    while k < len(res):
        l = res[k]
        if l.rstrip().endswith("# pyx:int"):
            ind = len(l) - len(l.lstrip())
            res[k] = l[:l.index("  # pyx:int")]
            end = len(res)
            for q in range(k + 1, len(res)):
                t = res[q]
                if t.strip() and (len(t) - len(t.lstrip())) <= ind and not t.lstrip().startswith("#"):
                    end = q
                    break
            body = [(q, res[q]) for q in range(k + 1, end) if res[q].strip() and not res[q].lstrip().startswith("#")]
            bind = ind + 4
            last_q = body[-1][0]
            stmts = [t for _, t in body if (len(t) - len(t.lstrip())) == bind]       # statements of the body (a statement may span lines)
            last = stmts[-1] if stmts else ""
            if not last.strip().startswith("return"):
                res.insert(last_q + 1, " " * bind + "return 0")
                dropped.append("D10 %s: final `return 0`" % res[k].strip())
        k += 1
    return res


def _inside_function(out, indent):
    """is the current position (given indentation) inside a def body?"""
    for prev in reversed(out):
        if not prev.strip():
            continue
        pind = len(prev) - len(prev.lstrip())
        if pind < indent:
            return prev.lstrip().startswith("def ")
    return False


def _address_of(text, dropped):
    """D8 per function: locals whose address is taken become one-element cells"""
    lines = text.split("\n")
    # function extents
    starts = [k for k, l in enumerate(lines) if re.match(r"^\s*def\s+\w+\(", l)]
    for si, k in enumerate(starts):
        ind = len(lines[k]) - len(lines[k].lstrip())
        end = len(lines)
        for q in range(k + 1, len(lines)):
            l = lines[q]
            if l.strip() and (len(l) - len(l.lstrip())) <= ind and not l.lstrip().startswith("#"):
                end = q
                break
        body = lines[k + 1:end]
        params = set(re.findall(r"\w+", lines[k].split("(", 1)[1]))
        taken = set(re.findall(r"&\s*([A-Za-z_]\w*)\b(?!\s*\.)", "\n".join(body))) - {"self"}
        attr_refs = re.findall(r"&\s*self\.(\w+)", "\n".join(body))
        new = []
        for l in body:
            m = re.match(r"^(\s*)_pyx_declare = (\[.*\])$", l)
            if m:
                names = eval(m.group(2))
                cells = [n for n in names if n in taken]
                new.append(m.group(1) + ("; ".join("%s = [0.0]" % n for n in cells) if cells else "pass"))
                continue
            l2 = re.sub(r"&\s*self\.(\w+)", r'_pyx_attr_ref(self, "\1")', l)
            for n in taken:
                if n in params:
                    continue
                l2 = re.sub(r"&\s*%s\b" % n, "\x00%s\x00" % n, l2)            # protect &x
                l2 = re.sub(r"(?<![\w.\x00])%s\b(?!\x00)" % n, n + "[0]", l2)
                l2 = l2.replace("\x00%s\x00" % n, n)
            l2 = re.sub(r"&\s*([A-Za-z_]\w*)\b", r"\1", l2) if any(("&" + p) in l2.replace(" ", "") for p in params) else l2
            new.append(l2)
        lines[k + 1:end] = new
        if taken or attr_refs:
            dropped.append("D8 in %s: cells %s, attribute references %s" % (lines[k].strip().split("(")[0][4:], sorted(taken - params), sorted(set(attr_refs))))
    return "\n".join(lines)


if __name__ == "__main__":
    st = strip(open(sys.argv[1]).read())
    print(st.text)
    print("\n# ---- dropped / rewritten ----", file=sys.stderr)
    for d in st.dropped:
        print("# " + d, file=sys.stderr)
