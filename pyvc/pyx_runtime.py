"""Run-time support for the text extracted from .pyx files by pyvc.pyxstrip when it is executed by CPython (differential test
against the compiled extension).  Under the symbolic executor the same names resolve to models (pyvc/pyxmodel.py)."""
import numpy

NAN = float("nan")
_DTYPES = {"float64_t": numpy.float64, "double": numpy.float64, "intp_t": numpy.intp, "int": numpy.int32, "float32_t": numpy.float32}


def calloc(n, elem):
    """a zero-filled buffer of n items of C type `elem` (C: calloc(n, sizeof(elem)))"""
    return numpy.zeros(int(n), dtype=_DTYPES[elem])


def free(p):
    return None


class _pyx_attr_ref:
    """&obj.attr : a pointer to an attribute; p[0] reads / writes it"""

    def __init__(self, obj, attr):
        self.obj, self.attr = obj, attr

    def __getitem__(self, i):
        assert i == 0
        return getattr(self.obj, self.attr)

    def __setitem__(self, i, v):
        assert i == 0
        setattr(self.obj, self.attr, v)


class Criterion:
    """the attributes scikit-learn's Criterion (sklearn/tree/_criterion.pxd) declares; `__cinit__` is Cython's constructor"""

    def __init__(self, *args):
        self.y = None
        self.sample_weight = None
        self.sample_indices = None
        self.start = self.pos = self.end = 0
        self.n_outputs = self.n_samples = self.n_node_samples = 0
        self.weighted_n_samples = self.weighted_n_node_samples = self.weighted_n_left = self.weighted_n_right = 0.0
        if hasattr(self, "__cinit__"):
            self.__cinit__(*args)
