"""Discharge of obligations: every query runs in its own killable solver process
(z3 first, cvc5 takes z3's unknowns), 16 at a time."""
import os
import subprocess
import tempfile
import time
from concurrent.futures import ThreadPoolExecutor

import z3

Z3 = os.environ.get("PYVC_Z3", "z3-new")
CVC5 = os.environ.get("PYVC_CVC5", "/usr/bin/cvc5")
Z3_OLD = os.environ.get("PYVC_Z3_OLD", "/usr/bin/z3")


def to_smt2(ob, want_model=False, with_axioms=True):
    s = z3.Solver()
    ax = ob.axioms if with_axioms is True else (getattr(ob, "req_axioms", []) if with_axioms == "req" else [])
    for c in ax:
        s.add(c)
    for c in ob.pc:
        s.add(c)
    s.add(z3.Not(ob.goal))
    txt = s.to_smt2()
    if want_model:
        txt += "\n(get-model)\n"
    return txt


class FrozenOb:
    """an obligation generated in a worker process: its queries as SMT-LIB text plus the bookkeeping fields (z3 terms do not travel
    between processes).  discharge() sends exactly the text it would have produced from the live obligation."""
    frozen = True

    def __init__(self, ob, want_model=True):
        self.oid, self.kind, self.where, self.canary, self.path = ob.oid, ob.kind, ob.where, ob.canary, ob.path
        self.variant = repr(getattr(ob, "variant", None))
        self.goal_true = z3.is_true(ob.goal)
        self.n_axioms = len(ob.axioms)
        self.n_req = len(getattr(ob, "req_axioms", []))
        self.txt = self.txt_noax = self.txt_req = None
        if not self.goal_true:
            self.txt = to_smt2(ob, want_model=want_model)
            if self.n_axioms >= 1:
                self.txt_noax = to_smt2(ob, with_axioms=False)
                if 0 < self.n_req < self.n_axioms:
                    self.txt_req = to_smt2(ob, with_axioms="req")


def uses_strings(txt):
    return "String" in txt or "str." in txt


def run_solver(cmd, txt, timeout):
    t0 = time.time()
    try:
        p = subprocess.run(cmd, input=txt, capture_output=True, text=True, timeout=timeout + 2)
        out = (p.stdout or "").strip()
        first = out.splitlines()[0].strip() if out else ""
        if first in ("sat", "unsat", "unknown"):
            return first, out, time.time() - t0
        if "timeout" in out:
            return "timeout", out, time.time() - t0
        return "error", (out + "\n" + (p.stderr or ""))[-800:], time.time() - t0
    except subprocess.TimeoutExpired:
        return "timeout", "", time.time() - t0


def race(cmds, txt, timeout):
    """run several solver processes on the same query; the first sat/unsat wins, the others are killed"""
    t0 = time.time()
    procs = []
    for name, cmd in cmds:
        p = subprocess.Popen(cmd, stdin=subprocess.PIPE, stdout=subprocess.PIPE, stderr=subprocess.PIPE, text=True)
        try:
            p.stdin.write(txt)
            p.stdin.close()
        except BrokenPipeError:
            pass
        procs.append((name, p))
    result = None
    pending = list(procs)
    last = ("none", "timeout", "")
    while pending and time.time() - t0 < timeout + 3:
        for name, p in list(pending):
            if p.poll() is not None:
                pending.remove((name, p))
                out = (p.stdout.read() or "").strip()
                first = out.splitlines()[0].strip() if out else ""
                if first in ("sat", "unsat"):
                    result = (name, first, out)
                    break
                last = (name, first if first in ("unknown",) else ("timeout" if "timeout" in out else "error"), out)
        if result:
            break
        time.sleep(0.01)
    for name, p in procs:
        if p.poll() is None:
            p.kill()
        try:
            p.stdout.close()
            p.stderr.close()
        except Exception:
            pass
    dt = time.time() - t0
    if result:
        return result[0], result[1], result[2], dt, None
    return last[0], last[1], last[2], dt, None


def discharge_one(args):
    idx, txt, timeout, strings, stages = args
    log = []
    # earlier stages use fewer hypotheses (no / only contract-requested lemma instances): sound for a proof
    for name, t_ in stages:
        t1 = min(timeout, 6)
        if strings:
            res, out, dt = run_solver([Z3, "-in", "-smt2", "-T:%d" % t1], t_, t1)
            who = "z3"
        else:
            who, res, out, dt, _ = race([("z3", [Z3, "-in", "-smt2", "-T:%d" % t1]), ("z3-4.8.12", [Z3_OLD, "-in", "-smt2", "-T:%d" % t1])], t_, t1)
        log.append((who + "-" + name, res, round(dt * 1000)))
        if res == "unsat":
            return idx, res, who, log, None
    if not strings:
        # race the two z3 versions (different quantifier heuristics); first definite answer wins
        who, res, out, dt, others = race([("z3", [Z3, "-in", "-smt2", "-T:%d" % timeout]),
                                          ("z3-4.8.12", [Z3_OLD, "-in", "-smt2", "-T:%d" % timeout])], txt, timeout)
        log.append((who, res, round(dt * 1000)))
        if res in ("unsat", "sat"):
            return idx, res, who, log, (out if res == "sat" else None)
        return idx, res if res != "error" else "error:" + out[:300], None, log, None
    res, out, dt = run_solver([Z3, "-in", "-smt2", "-T:%d" % timeout], txt, timeout)
    log.append(("z3", res, round(dt * 1000)))
    model = out if res == "sat" else None
    if res in ("unsat", "sat"):
        return idx, res, "z3", log, model
    if strings:
        c5 = txt.replace("(check-sat)", "(check-sat)")
        res2, out2, dt2 = run_solver([CVC5, "--lang=smt2", "--strings-exp", "--tlimit=%d" % (timeout * 1000)], "(set-logic ALL)\n" + c5, timeout)
        log.append(("cvc5", res2, round(dt2 * 1000)))
        if res2 in ("unsat", "sat"):
            return idx, res2, "cvc5", log, None
    return idx, res if res != "error" else "error:" + out[:300], None, log, None


def discharge(obligations, timeout=10, jobs=None, want_models=True):
    """-> list of dicts aligned with obligations"""
    jobs = jobs or min(16, os.cpu_count() or 4)
    tasks = []
    for i, ob in enumerate(obligations):
        # trivial cases without a process
        if getattr(ob, "frozen", False):
            if ob.goal_true:
                tasks.append(None)
                continue
            stages = []
            if ob.txt_noax is not None:
                stages.append(("noaxioms", ob.txt_noax))
                if ob.txt_req is not None:
                    stages.append(("requested-lemmas", ob.txt_req))
            tasks.append((i, ob.txt, timeout, uses_strings(ob.txt), stages))
            continue
        g = ob.goal
        if z3.is_true(g):
            tasks.append(None)
            continue
        txt = to_smt2(ob, want_model=want_models)
        stages = []
        if len(ob.axioms) >= 1:
            # first without any lemma instance / model axiom (fewer hypotheses: sound for a proof).  Even a few lambda-heavy lemma instances
            # can send a solver astray on a goal that does not need them (measured: 3 Sum instances, 0.0 s without, > 60 s with)
            stages.append(("noaxioms", to_smt2(ob, with_axioms=False)))
            nreq = len(getattr(ob, "req_axioms", []))
            if 0 < nreq < len(ob.axioms):
                stages.append(("requested-lemmas", to_smt2(ob, with_axioms="req")))
        tasks.append((i, txt, timeout, uses_strings(txt), stages))
    results = [None] * len(obligations)
    # paths that share a prefix re-generate the obligations of that prefix: identical queries are solved once
    first, dups, todo = {}, {}, []
    for t in tasks:
        if t is None:
            continue
        key = hash(t[1])
        if key in first and tasks[first[key]][1] == t[1]:
            dups.setdefault(first[key], []).append(t[0])
        else:
            first.setdefault(key, t[0])
            todo.append(t)
    for i, t in enumerate(tasks):
        if t is None:
            results[i] = dict(status="unsat", by="trivial", log=[], model=None)
    with ThreadPoolExecutor(max_workers=jobs) as ex:
        for idx, res, by, log, model in ex.map(discharge_one, todo):
            results[idx] = dict(status=res, by=by, log=log, model=model)
            for j in dups.get(idx, []):
                results[j] = dict(status=res, by=by, log=[(l[0] + "(same query)", l[1], 0) for l in log], model=model)
    return results
