"""./check Cxx [--tier quick|thorough] [--replay FILE] [--write-ledger] [--repo DIR]

Decides one property: (1) generates and discharges the proof obligations of the property's
contracts from /repo's current source, (2) runs the canaries (must fail), (3) compares with the
committed ledger, (4) runs the bounded stand-in on the real code in a fresh overlay, (5) turns
failures into replay files, filters them through KNOWN_FINDINGS.json, writes the evidence.

exit 0: held on everything explored · 1: VIOLATION line printed · 2: undecided (engine could not
handle a function that is under contract) · 3: the checker itself is broken (vacuity guard).
"""
import hashlib
import json
import os
import subprocess
import sys
import time
import traceback

HERE = os.path.dirname(os.path.dirname(os.path.abspath(__file__)))

ASSUMPTIONS = {
    "A1": "A1 floats are reals: no rounding, overflow, NaN (NaN only as an explicit per-cell missing flag)",
    "A2": "A2 ints are mathematical integers (numpy intp/int32 never overflow)",
    "A3": "A3 // and % have Python floor semantics (encoded sign-correctly)",
    "A4": "A4 str(i) for i>=0 is abstracted as a non-empty digit string ds with str.to_int(ds)=i",
    "A5": "A5 dict iteration is insertion order; sorted is a stable total-order sort",
    "A6": "A6 no hidden aliasing: contract parameters are distinct objects unless stated",
    "A7": "A7 library calls behave as the registry of assumed contracts says",
    "A8": "A8 joblib.Parallel(...)(delayed(f)(a) for ...) = [f(a) for ...] in order",
    "A9": "A9 partial correctness except where a decreases clause is given",
}


_CNT = "lemmas/Counting.lean"
_SUM = "lemmas/Sums.lean"
# lemma schema (text before the first ':' of the name recorded by the engine) -> (Lean file, theorem of namespace Pyvc)
LEAN_NAMES = {"cnt_store": (_CNT, "cnt_store"), "cnt_const": (_CNT, "cnt_const"), "cnt_range": (_CNT, "cnt_range"), "cnt_pos": (_CNT, "cnt_pos"),
              "cnt_all": (_CNT, "cnt_all / cnt_none"), "cnt_congr": (_CNT, "cnt_congr"), "sum_store": (_CNT, "sum_store"),
              "sum_const": (_CNT, "sum_const'"), "sum_le_quota": (_CNT, "sum_le_quota"), "sum_ge_quota": (_CNT, "sum_ge_quota"),
              "sum_eq_quota": (_CNT, "sum_eq_quota"), "inj_surj": (_CNT, "inj_surj"), "psum_empty": (_CNT, "psum_empty"),
              "psum_step": (_CNT, "psum_step"), "psum_split": (_CNT, "psum_split"), "psum_congr": (_CNT, "psum_congr"),
              "weighted_variance": (_CNT, "weighted_variance"), "row_mean_bounds": (_CNT, "mean_bounds"),
              "sum_empty": (_SUM, "sum_empty"), "sum_nonneg": (_SUM, "sum_nonneg"), "sum_nonpos": (_SUM, "sum_nonpos"),
              "sum_congr": (_SUM, "sum_congr"), "sum_scale": (_SUM, "sum_scale"), "sum_le": (_SUM, "sum_le"), "sum_bounds": (_SUM, "sum_bounds"),
              "exp_log_inverse": (_SUM, "exp_log_inverse"), "sqrt maps [0,1] into [0,1]": (_SUM, "sqrt_unit"), "mask_rank": (_SUM, "mask_rank"), "first_occurrence": (_SUM, "first_occurrence"),
              "cnt_step": (_CNT, "cnt_step"), "mul_steps": (_CNT, "mul_steps"), "sum_one_out": (_CNT, "sum_one_out"), "sum_zero_terms": (_SUM, "sum_zero_terms")}


def lean_note(lemma, lean_results):
    """suffix of a 'lemma schema' line of the trusted base: which Lean theorem states it, if its file was accepted in this run"""
    ent = LEAN_NAMES.get(lemma.split(":")[0].strip())
    if ent is None:
        return ""
    ok = [r for r in lean_results if r["file"] == ent[0] and r["accepted"]]
    if not ok:
        return ""
    return " (statement machine-checked: Pyvc.%s in %s, Lean 4 + Mathlib; the instantiation of the schema by pyvc is trusted)" % (ent[1], ent[0])


def load_known():
    p = os.path.join(HERE, "KNOWN_FINDINGS.json")
    if not os.path.exists(p):
        return []
    with open(p) as f:
        return json.load(f)["findings"]


def main(argv=None):
    argv = list(argv or sys.argv[1:])
    prop = argv[0]
    tier = os.environ.get("VERIF_TIER", "quick")
    if "--tier" in argv:
        tier = argv[argv.index("--tier") + 1]
    seed = int(os.environ.get("VERIF_SEED", "0") or 0)
    repo_root = argv[argv.index("--repo") + 1] if "--repo" in argv else os.environ.get("VERIF_REPO", "/repo")
    if "--replay" in argv:
        return replay(prop, argv[argv.index("--replay") + 1], repo_root)
    write_ledger = "--write-ledger" in argv
    t0 = time.time()
    os.chdir(HERE)
    sys.path.insert(0, HERE)
    try:
        return run_check(prop, tier, seed, repo_root, write_ledger, t0)
    except Exception:
        traceback.print_exc()
        print("CHECKER-ERROR property=%s (crash of the checker, not a verdict)" % prop)
        return 3


def run_check(prop, tier, seed, repo_root, write_ledger, t0):
    from . import run as prun
    from .solve import discharge
    timeout = 20 if tier == "quick" else 120
    known = [k for k in load_known() if k["property"] == prop]
    violations = []      # (what, replay_path, has_input)
    known_hits = []
    undecided = []
    broken = []

    # ---------------------------------------------------------------- lemma schemas: Lean + Mathlib, in parallel with the proof part
    meta0 = prun.property_meta(prop)
    lean_jobs = []
    for lf in meta0.get("lean_files", []):
        lean_jobs.append((lf, time.time(), subprocess.Popen(["lean", os.path.join(HERE, lf)], stdout=subprocess.PIPE, stderr=subprocess.STDOUT, text=True)))

    # ---------------------------------------------------------------- proof part
    reports, allob, res, solver_wall = prun.run_property(prop, repo_root=repo_root, timeout=timeout)
    # retry non-canary unknown/timeout once with a larger budget (verdicts must not flip under load)
    sat_ids = {ob.oid for ob, r in zip(allob, res) if r["status"] == "sat"}
    retry = [i for i, (ob, r) in enumerate(zip(allob, res))
             if not ob.canary and r["status"] not in ("unsat", "sat") and ob.oid not in sat_ids]
    if retry:
        r2 = discharge([allob[i] for i in retry], timeout=timeout * 4, jobs=8)
        for i, r in zip(retry, r2):
            r["log"] = res[i]["log"] + r["log"]
            res[i] = r
    agg = prun.aggregate(allob, res)
    ledger_path = os.path.join(HERE, "contracts", prop + ".ledger.json")
    funcs = []
    for rep in reports:
        funcs.append(dict(function=rep.key, source_sha=rep.sha, paths=rep.paths, path_ends=rep.path_ends,
                          obligations=len(rep.obligations), loops=rep.loops, seconds=round(rep.seconds, 2),
                          unsupported=rep.unsupported))
        if rep.unsupported:
            undecided.append("%s: %s" % (rep.key, rep.unsupported.splitlines()[0]))
        elif not rep.obligations:
            broken.append("zero obligations for %s" % rep.key)
    ids = {}
    for oid, e in agg.items():
        ok = e["unsat"] == e["n"]
        ids[oid] = dict(kind=e["kind"], canary=e["canary"], instances=e["n"], discharged=e["unsat"],
                        by=sorted(x for x in e["by"] if x), ms=e["ms"], where=sorted(e["where"]))
    loop_sigs = {rep.key: rep.loop_signature for rep in reports if getattr(rep, "loop_signature", None) is not None}
    if write_ledger and undecided:
        print("ledger NOT written: %d function(s) undecided (a ledger is the record of a fully explored tree)" % len(undecided))
    elif write_ledger:
        led = {oid: dict(kind=v["kind"], by=v["by"]) for oid, v in sorted(ids.items())
               if not v["canary"] and v["discharged"] == v["instances"]}
        with open(ledger_path, "w") as f:
            json.dump(dict(property=prop, note="ids of obligations discharged on the validated tree; never written by a check run",
                           obligations=led, loops=loop_sigs), f, indent=1, sort_keys=True)
        print("ledger written: %d ids" % len(led))
    ledger, ledger_loops = {}, {}
    if os.path.exists(ledger_path):
        with open(ledger_path) as f:
            lj = json.load(f)
        ledger, ledger_loops = lj["obligations"], lj.get("loops", {})
    elif reports:
        broken.append("no ledger file %s" % ledger_path)
    # loop invariants are attached to loops by position: when the loops of a function are not the ones the contracts were validated
    # against (one removed, added, or bound to other names), its invariants no longer talk about the same loops.  The function is then
    # UNDECIDED - its proof obligations are neither counted as discharged nor reported as violations; the bounded stand-in still runs.
    restructured = {}
    for key, sig in loop_sigs.items():
        was = ledger_loops.get(key)
        kinds = lambda sg: [x.split()[0] for x in sg]       # "for (i, x)" -> "for": the names of the loop variables are not part of the structure
        if was is not None and kinds(was) != kinds(sig):
            restructured[key] = (was, sig)
            undecided.append("%s: the loops of this function changed (validated against %s, now %s): its invariants are numbered by position and "
                             "need review" % (key, was, sig))

    # canaries must fail
    canaries = {oid: v for oid, v in ids.items() if v["canary"]}
    for oid, v in canaries.items():
        if v["discharged"] == v["instances"]:
            broken.append("canary %s verified: the encoding is vacuous" % oid)
    declared_canaries = prun.declared_canaries(prop)
    seen_canaries = {oid.split(".canary.")[-1] for oid in canaries}
    for name in declared_canaries:
        if name not in seen_canaries and not undecided:
            broken.append("canary %s generated no obligation" % name)

    os.makedirs(os.path.join(HERE, "replays", prop), exist_ok=True)
    def _of_restructured(oid):
        for key in restructured:
            q = "%s.%s" % (prop, key.split("::")[1])
            if oid == q or oid.startswith(q + ".") or oid.startswith(q + "#"):
                return True
        return False
    failed_ids = [oid for oid, v in ids.items() if not v["canary"] and v["discharged"] != v["instances"] and not _of_restructured(oid)]
    missing_ids = [oid for oid in ledger if oid not in ids] if not undecided else []
    proof_failures = []
    for oid in failed_ids:
        e = agg[oid]
        models = [r["model"] for ob, r in e["fails"] if r.get("model")]
        statuses = [(ob.where, r["status"], r["log"]) for ob, r in e["fails"]]
        proof_failures.append(dict(obligation=oid, kind=e["kind"], where=sorted(e["where"]), statuses=statuses[:6],
                                   model=(models[0][:4000] if models else None),
                                   in_ledger=oid in ledger))
    # obligations of the validated tree that the current source no longer generates (a statement that could raise is gone, a branch was removed):
    # the code has changed shape under the contract - that is a reason to review the contract (UNDECIDED), not evidence of a wrong result
    for oid in missing_ids[:8]:
        undecided.append("obligation %s of the validated tree is no longer generated by the current source: the contract needs review" % oid)
    if len(missing_ids) > 8:
        undecided.append("... and %d more obligations are no longer generated" % (len(missing_ids) - 8))

    # ---------------------------------------------------------------- bounded stand-in
    bounded = run_bounded(prop, tier, seed, repo_root)
    if bounded is not None and bounded.get("error"):
        broken.append("bounded stand-in crashed: %s" % bounded["error"][-600:])

    # ---------------------------------------------------------------- classify failures
    def known_for(kind, key):
        for k in known:
            if k.get("status") != "known":
                continue
            if kind == "obligation" and k.get("obligation") == key:
                return k
            if kind == "bounded" and k.get("bounded_class") == key:
                return k
        return None

    native_fail = (bounded or {}).get("failures", [])
    # A function under contract that is no longer where the contract set expects it (moved to module level, renamed, inlined) breaks the modular
    # argument: its callers were verified against its contract, now they execute something else at that call site.  What fails in OTHER functions
    # then may be a consequence of the reorganisation, not of a wrong result: such a failure is a violation only with a failing input on the real code
    # (finite-scope counterexample replayed, or a native failure of the bounded stand-in); otherwise the functions concerned are undecided.
    unfound = [u for u in undecided if "function not found" in u]
    for pf in proof_failures:
        k = known_for("obligation", pf["obligation"])
        if k is not None:
            known_hits.append(k)
            continue
        # counterexample: finite-scope pass, then the bounded run's native failures for this property
        cex = None
        if pf["kind"] != "missing":
            cex = finite_scope_cex(prop, pf["obligation"], repo_root)
        replayed = None
        if cex is not None:
            replayed = run_replay_inputs(prop, cex, repo_root)
        unk = [f for f in native_fail if known_for("bounded", f.get("class")) is None]
        path = os.path.join("replays", prop, safe(pf["obligation"]) + ".json")
        has_input = bool(replayed and replayed.get("fails")) or bool(unk)
        if unfound and not has_input:
            undecided.append("%s failed to discharge, but a function under contract was not found (%s): callers are no longer checked against its "
                             "contract and no failing input was found on the real code - not reported as a violation" % (pf["obligation"], unfound[0].split(":")[0]))
            continue
        with open(os.path.join(HERE, path), "w") as f:
            json.dump(dict(property=prop, failed_obligation=pf, counterexample=cex, replay_on_real_code=replayed,
                           native_failures_from_bounded_run=unk[:5],
                           note="obligation generated from /repo's current source failed to discharge"), f, indent=1, default=str)
        violations.append((pf["obligation"], path, has_input))
    seen_classes = set()
    for fcase in native_fail:
        k = known_for("bounded", fcase.get("class"))
        if k is not None:
            if k not in known_hits:
                known_hits.append(k)
            continue
        if fcase.get("class") in seen_classes:
            continue
        seen_classes.add(fcase.get("class"))
        path = os.path.join("replays", prop, "bounded_" + safe(str(fcase.get("class"))) + ".json")
        with open(os.path.join(HERE, path), "w") as f:
            json.dump(dict(property=prop, bounded_failure=fcase,
                           replay_cmd="./check %s --replay %s" % (prop, path)), f, indent=1, default=str)
        if not any(v[1] == path for v in violations):
            violations.append(("bounded:" + str(fcase.get("class")), path, True))
    # pinned witnesses of known findings are re-run by the bounded stand-in (bounded['known_witnesses'])
    for kw in (bounded or {}).get("known_witnesses", []):
        k = known_for("bounded", kw.get("class"))
        if k is not None and kw.get("still_fails") and k not in known_hits:
            known_hits.append(k)

    # ---------------------------------------------------------------- lemma files
    lean_results = []
    for lf, t_l, pr in lean_jobs:
        try:
            out, _ = pr.communicate(timeout=1800)
        except subprocess.TimeoutExpired:
            pr.kill()
            out = "timeout"
        with open(os.path.join(HERE, lf)) as f:
            src = f.read()
        import re as _re
        code = _re.sub(r"/-.*?-/", "", src, flags=_re.S)
        code = "\n".join(l.split("--")[0] for l in code.splitlines())
        admits = [w for w in ("sorry", "admit", "axiom ", "native_decide") if w in code]
        ok = pr.returncode == 0 and "error" not in (out or "") and not admits
        lean_results.append(dict(file=lf, accepted=ok, seconds=round(time.time() - t_l, 1), theorems=len(_re.findall(r"^theorem ", src, flags=_re.M)),
                                 admits=admits, output=(out or "")[-600:]))
        if not ok:
            broken.append("lemma file %s not accepted by Lean: %s" % (lf, (out or "")[-300:]))

    # ---------------------------------------------------------------- evidence
    n_ob = sum(v["instances"] for oid, v in ids.items() if not v["canary"] and known_for("obligation", oid) is None)
    n_dis = sum(v["discharged"] for oid, v in ids.items() if not v["canary"] and known_for("obligation", oid) is None)
    lemmas = sorted(set().union(*[r.lemmas for r in reports])) if reports else []
    externs = sorted(set().union(*[r.externs for r in reports])) if reports else []
    extra_ass = sorted(set().union(*[r.assumptions for r in reports])) if reports else []
    meta = prun.property_meta(prop)
    samples = []
    for oid, v in list(sorted(ids.items()))[:6]:
        samples.append(dict(obligation=oid, kind=v["kind"], instances=v["instances"], discharged_by=v["by"], where=v["where"][:2]))
    level = meta.get("level", "proof")
    cov = dict(
        obligations=n_ob, discharged=n_dis,
        checker_cmd="python3-vt -m pyvc.check %s --tier %s  (VC generator pyvc over %s; back ends: %s)" % (
            prop, tier, repo_root, "z3 5.1 CLI per obligation, cvc5 1.0.3 for string queries left unknown"),
        trusted_base=["pyvc engine (this repository, differential self-test in setup_cmd)", "z3 5.1.0", "cvc5 1.0.3"]
        + ["assumed contract: " + e for e in externs]
        + ["lemma schema: " + l + lean_note(l, lean_results)
           for l in lemmas]
        + meta.get("trusted", []),
        obligation_ids=len([1 for v in ids.values() if not v["canary"]]),
        functions_under_contract=funcs,
        obligations_by_id=ids,
        canaries={oid: "fails as required" if v["discharged"] != v["instances"] else "VERIFIED (vacuous)" for oid, v in canaries.items()},
        ledger=dict(file="contracts/%s.ledger.json" % prop, ids=len(ledger), missing=missing_ids),
        solver_wall_s=round(solver_wall, 2),
        solver_ms_total=sum(v["ms"] for v in ids.values()),
        samples=samples,
        bounded=bounded if bounded is not None else dict(note="no bounded stand-in for this property"),
        known_findings_observed=[k["what"] for k in known_hits],
        undecided=undecided,
        not_applicable_clauses=meta.get("not_applicable", []),
    )
    if lean_results:
        cov["lemma_files"] = lean_results
    pyx_files = sorted({rep.key.split("::")[0] for rep in reports if rep.key.split("::")[0].endswith(".pyx")}
                       | {f for c in prun.load_contracts(prop).values() for f in getattr(c, "pyx_source", ())})
    if pyx_files:
        from .pyxstrip import strip
        cov["extraction"] = dict(tool="pyvc/pyxstrip.py (mechanical, re-run on every check from the current .pyx text; rules D1-D10 in its docstring)", files={})
        for rel in pyx_files:
            with open(os.path.join(repo_root, rel)) as f:
                st = strip(f.read())
            cov["extraction"]["files"][rel] = dict(dropped_or_rewritten=st.dropped, c_attributes=st.c_attrs,
                                                   extracted_sha=hashlib.sha256(st.text.encode()).hexdigest()[:16])
    if bounded:
        cov["evaluations"] = bounded.get("evaluations", 0)
        cov["distinct_nontrivial"] = bounded.get("distinct_nontrivial", 0)
        cov["rule"] = bounded.get("rule", "")
    if level == "other":
        cov["explanation"] = meta.get("explanation", "")
    ev = dict(property_id=prop, tier=tier, seed=seed, level=level, coverage=cov,
              assumptions=[ASSUMPTIONS[a] for a in meta.get("assumptions", ["A1", "A2", "A6", "A7", "A9"])] + extra_ass
              + meta.get("extra_assumptions", []),
              wall_s=round(time.time() - t0, 2), violations=len(violations))
    os.makedirs(os.path.join(HERE, "evidence"), exist_ok=True)
    with open(os.path.join(HERE, "evidence", prop + ".json"), "w") as f:
        json.dump(ev, f, indent=1, default=str)

    # ---------------------------------------------------------------- verdict
    print("property %s tier %s: %d functions under contract, %d obligations (%d ids), %d discharged, %d canaries fail as required; "
          "bounded: %s; %.1fs" % (prop, tier, len(reports), n_ob, cov["obligation_ids"], n_dis, len(canaries),
                                  ("%d evaluations" % bounded.get("evaluations", 0)) if bounded else "none", time.time() - t0))
    for k in known_hits:
        print("KNOWN-FINDING: property=%s %s" % (prop, k["what"]))
    for b in broken:
        print("BROKEN: %s" % b)
    for u in undecided:
        print("UNDECIDED: %s" % u)
    for what, path, has_input in violations:
        print("VIOLATION property=%s replay=%s%s" % (prop, path, "" if has_input else " no-failing-input-found"))
        print("  failed: %s" % what)
    if violations:
        return 1
    if broken:
        return 3
    if undecided:
        return 2
    return 0


def safe(s):
    return "".join(c if c.isalnum() or c in "._-" else "_" for c in s)[:150]


def run_bounded(prop, tier, seed, repo_root, extra=None):
    script = os.path.join(HERE, "bounded", prop + ".py")
    if not os.path.exists(script):
        return None
    from . import overlay
    with open(script) as f:
        head = f.read(2000)
    cy = "NEEDS_CYTHON = True" in head
    out = None
    d = overlay.build(repo_root, cython=cy)
    try:
        outp = os.path.join(d, "_bounded_out.json")
        args = [script, "--tier", tier, "--seed", str(seed), "--out", outp] + list(extra or [])
        p = overlay.run(d, args, timeout=7200)
        if os.path.exists(outp):
            with open(outp) as f:
                out = json.load(f)
        else:
            out = dict(error="no output; rc=%s\n%s\n%s" % (p.returncode, p.stdout[-1500:], p.stderr[-2500:]))
    except subprocess.TimeoutExpired:
        out = dict(error="timeout")
    finally:
        overlay.remove(d)
    return out


def finite_scope_cex(prop, oid, repo_root):
    """re-run the same executor with concrete small sizes; return the first counter-model as inputs"""
    try:
        from . import run as prun
        return prun.finite_scope_search(prop, oid, repo_root)
    except Exception as e:
        return dict(error="finite-scope pass failed: %r" % (e,))


def run_replay_inputs(prop, cex, repo_root):
    if not cex or cex.get("inputs") is None:
        return None
    import tempfile
    fd, tmp = tempfile.mkstemp(suffix=".json")
    with os.fdopen(fd, "w") as f:
        json.dump(cex, f, default=str)
    try:
        r = run_bounded(prop, "quick", 0, repo_root, extra=["--replay", tmp])
    finally:
        os.unlink(tmp)
    return r


def replay(prop, path, repo_root):
    with open(os.path.join(HERE, path) if not os.path.isabs(path) else path) as f:
        data = json.load(f)
    case = data.get("bounded_failure") or data.get("counterexample") or {}
    import tempfile
    fd, tmp = tempfile.mkstemp(suffix=".json")
    with os.fdopen(fd, "w") as f:
        json.dump(case, f, default=str)
    try:
        r = run_bounded(prop, "quick", 0, repo_root, extra=["--replay", tmp])
    finally:
        os.unlink(tmp)
    print(json.dumps(r, indent=1, default=str)[:3000])
    if r and r.get("fails"):
        print("VIOLATION property=%s replay=%s" % (prop, path))
        return 1
    return 0


if __name__ == "__main__":
    sys.exit(main())
