"""Sidecar contract language and the per-function verification driver."""
import time
import traceback

import z3

from .values import NdArr, Obj, Opaque, SList, NaN, Unsupported, is_sym, z, zbool, znum, fresh_name
from .engine import Exec, Raised, PathEnd, Closure, Args, named, Frame
from .frontend import Repo, RepoFunc, RepoClass

ALL_CONTRACTS = {}       # prop -> [Contract classes]


class Contract:
    key = None               # "relpath::qualname"
    prop = None
    variants = [None]        # each variant is verified separately (union-typed parameters)
    free = []                # free (closure) variables the contract talks about
    loops = {}               # loop ordinal -> fn(E, L) -> {name: bool}
    loop_modifies = {}
    loop_kinds = {}
    loop_decreases = {}
    decreases = None
    canaries = {}            # clause name -> fn(E, a, res, old) -> bool that MUST NOT verify
    inline_at_calls = False  # True: callers execute the body (small helper), the contract is still verified on its own
    assumed = False          # True: contract of a dependency / external (never verified here)
    ext_may_raise = False
    max_paths = 4000
    symbolic_sets = {}       # local name -> element kind ("int" | "key" | callable(E) -> kind): `name = set()` creates an unbounded symbolic set
    symbolic_dicts = {}      # local name -> key kind ("int"): `name = {}` in the function under contract creates an unbounded symbolic map
    pyx_source = ()          # .pyx files whose extracted text is executed when Python code under this contract imports from them
    allow_unconstrained_exit = False   # True: a variant may return normally without any postcondition / frame clause (otherwise: vacuity error)
    sequential = False       # True: the clauses of ensures / of an invariant are proved in order, each a hypothesis of the later ones

    # -- to be overridden
    def setup(self, E, variant):
        raise NotImplementedError

    def requires(self, E, a):
        return {}

    def old(self, E, a):
        return None

    def ensures(self, E, a, res, old):
        return {}

    def result(self, E, a, old):
        raise NotImplementedError("result() needed to use %s at a call site" % self.key)

    def has_result(self):
        """contracts without a call-site role (no result()) are inlined at call sites"""
        return type(self).result is not Contract.result

    def signals(self, E, a, exc, old):
        """exceptional postcondition: return None if `exc` (class name) must not be raised, else
        a dict of named conditions that must hold when it is"""
        return None

    def at_exit(self, E, a, old, exc):
        """extra obligations on every exit, normal (exc None) or exceptional: frame conditions"""
        return {}

    def at_cut(self, E, a, old):
        """obligations where a path of the function under contract ENDS at a loop cut (after the peeled first iteration, after the inv-step of
        the arbitrary iteration): facts that cannot be undone later - "the caller's array has not been written" - so that a write made inside a
        loop, possibly through a loop-carried alias of the caller's array that the havoc of the cut forgets, is not lost"""
        return {}

    def closure_env(self, E, a):
        """for nested functions: dict of closure variables (defaults to the `free` entries of a)"""
        return {n: a[n] for n in self.free}


def contract(key, prop, **kw):
    def deco(cls):
        cls.key = key
        cls.prop = prop
        for k, v in kw.items():
            setattr(cls, k, v)
        ALL_CONTRACTS.setdefault(prop, []).append(cls)
        return cls
    return deco


class FuncReport:
    def __init__(self, key):
        self.key = key
        self.sha = None
        self.paths = 0
        self.path_ends = {}
        self.obligations = []
        self.unsupported = None
        self.loops = {}
        self.seconds = 0.0
        self.variants = 0
        self.lemmas = set()
        self.externs = set()
        self.assumptions = set()


def make_registry():
    from .registry import Registry
    from . import ghost
    R = Registry()
    ghost.install(R)
    from . import models
    models.install(R)
    from . import pdmodel
    pdmodel.install(R)
    from . import permmodel
    permmodel.install(R)
    permmodel.install_sklearn_utils(R)
    permmodel.install_isclose(R)
    permmodel.install_set_of_array(R)
    permmodel.install_contiguous(R)
    permmodel.install_where_median(R)
    permmodel.install_bincount(R)
    permmodel.install_kmeanspp_helpers(R)
    from . import sparsemodel
    sparsemodel.install(R, models)
    sparsemodel.install_argmax(R)
    from . import pyxmodel
    pyxmodel.install(R)
    return R


def verify_function(repo, contracts, c, registry=None, scope=None, opts=None):
    """generate all obligations of contract c's function from the real source"""
    R = registry or make_registry()
    rep = FuncReport(c.key)
    t0 = time.time()
    try:
        func = repo.lookup(c.key)
    except (KeyError, FileNotFoundError) as e:
        rep.unsupported = "function not found: %s (%r)" % (c.key, e)
        return rep
    rep.sha = func.sha()
    rep.loop_signature = func.loop_signature() if getattr(c, "loops", None) else None
    E = Exec(repo, contracts, R, prop=c.prop, opts=dict(opts or {}, max_paths=c.max_paths))
    E.scope = scope
    E.top = c
    E.ext_may_raise = c.ext_may_raise
    qn = func.qualname
    for variant in c.variants:
        rep.variants += 1

        def run_one(E, variant=variant):
            E.cur_func = func
            a = Args(c.setup(E, variant))
            E.ps["inputs"] = dict(a)
            E.ps["variant"] = variant
            for name, g in named(c.requires(E, a)).items():
                E.assume(g)
            if not E.feasible(z3.BoolVal(True)) and False:
                pass
            old = c.old(E, a)

            def cut_hook(E_, why, a=a, old=old):
                if E_.cur_func is not func:
                    return                      # a cut inside an inlined callee: its caller goes on, the exit of the top function will be reached
                for name, g in named(c.at_cut(E_, a, old)).items():
                    E_.oblige("%s.%s.exit.%s" % (c.prop, qn, name), g, "frame")
            E.cut_hook = cut_hook
            E._top_measure = c.decreases(E, a) if c.decreases is not None else None
            params = {k: v for k, v in a.items() if k not in c.free and not k.startswith("_")}
            env = None
            if c.free or func.parent is not None:
                env = Frame(func.parent, func.module)
                env.locals.update(c.closure_env(E, a))
                if func.parent is not None:
                    from .engine import Closure
                    env.locals.setdefault(func.name, Closure(func, env, None))     # a nested function may call itself
            self_obj = params.pop("self", None)
            kwname = func.node.args.kwarg.arg if func.node.args.kwarg is not None else None
            if kwname is not None and kwname in params:
                kwd = params.pop(kwname)
                params.update(kwd)
            exc = None
            star = []
            vname = func.node.args.vararg.arg if func.node.args.vararg is not None else None
            if vname is not None and vname in params:
                # *args of the function under contract: the positional parameters are passed by position, then the extra ones
                star = [params.pop(x.arg) for x in func.node.args.args if x.arg in params and x.arg != "self"] + list(params.pop(vname))
            try:
                res = E.call_repo_function(func, star, params, closure_env=env, self_obj=self_obj)
            except Raised as r:
                exc = r
            vtag = "" if variant is None else "[%s]" % (variant,)
            if exc is None:
                try:
                    post = named(c.ensures(E, a, res, old))
                except Raised as r2:
                    # the postcondition itself runs real code (e.g. get_params after set_params): an exception there
                    # is a failed clause, not an engine error
                    E.cur_func = func
                    post = {"postcondition_code_raises_" + r2.cls: z3.BoolVal(False)}
                n_pc = len(E.pc)
                for name, g in post.items():
                    for gg in (g if isinstance(g, list) else [g]):     # a clause may be split into several queries
                        E.oblige("%s.%s.post.%s" % (c.prop, qn, name), gg, "post")
                        if c.sequential:
                            E.assume(gg)     # clauses are proved in order: an earlier clause is a hypothesis of the later ones
                del E.pc[n_pc:]
                for name, fn in c.canaries.items():
                    E.oblige("%s.%s.canary.%s" % (c.prop, qn, name), fn(E, a, res, old), "canary", canary=True)
            else:
                E.cur_func = func
                sig = c.signals(E, a, exc.cls, old)
                if sig is None:
                    E.oblige("%s.%s.no-raise.%s" % (c.prop, qn, exc.cls), z3.BoolVal(False), "signals", exc.node)
                else:
                    for name, g in named(sig).items():
                        E.oblige("%s.%s.signals.%s.%s" % (c.prop, qn, exc.cls, name), g, "signals", exc.node)
            n_exit = 0
            for name, g in named(c.at_exit(E, a, old, exc.cls if exc else None)).items():
                E.oblige("%s.%s.exit.%s" % (c.prop, qn, name), g, "frame")
                n_exit += 1
            if exc is None:
                normal_exits[0] += 1
                if post or n_exit:
                    constrained_exits[0] += 1
        normal_exits, constrained_exits = [0], [0]
        try:
            E.explore(run_one)
            if normal_exits[0] and not constrained_exits[0] and not getattr(c, "allow_unconstrained_exit", False):
                # vacuity guard per variant: the function returns normally on some path and the contract says nothing there
                raise Unsupported("variant %r of the contract states no postcondition and no frame on any normal exit (vacuous: e.g. a "
                                  "postcondition skipped by mistake)" % (variant,))
        except Unsupported as u:
            rep.unsupported = "%s" % u
            break
        except Exception as e:      # engine crash: reported as such, never as a verdict
            rep.unsupported = "ENGINE-ERROR %s: %s\n%s" % (type(e).__name__, e, traceback.format_exc()[-1500:])
            break
    rep.paths = E.paths
    for tag, _ in E.path_log:
        rep.path_ends[tag.split(":")[0] + (":" + tag.split(":")[1] if ":" in tag else "")] = \
            rep.path_ends.get(tag.split(":")[0] + (":" + tag.split(":")[1] if ":" in tag else ""), 0) + 1
    rep.obligations = E.obligations
    rep.loops = E.loop_rules
    rep.seconds = time.time() - t0
    rep.lemmas = E.used_lemmas
    rep.externs = E.used_externs
    rep.assumptions = E.assumptions_used
    return rep
