"""pyvc: verification-condition generator over the real Python source of /repo."""
