"""Python dicts whose keys may be symbolic (z3 terms): the dict stays a real Python dict (identity,
insertion order); a symbolic key is stored as SymKey(term).  Every lookup decides key equality
by forking, so the semantics is exact for dicts with a program-constant number of entries."""
import z3

from .values import is_sym, z, zbool, Unsupported


class SymKey:
    def __init__(self, term):
        self.term = term

    def __hash__(self):
        return hash(("symkey", self.term.get_id()))

    def __eq__(self, other):
        return isinstance(other, SymKey) and z3.eq(self.term, other.term)

    def __repr__(self):
        return "SymKey(%s)" % self.term


def kterm(k):
    return k.term if isinstance(k, SymKey) else k


def mk(k):
    return SymKey(k) if is_sym(k) else k


def find(R, E, d, x, node=None):
    """the stored key object equal to x on this path, or None (forks on symbolic equalities)"""
    from .pymodel import equal
    if not is_sym(x):
        try:
            if x in d:
                return x
        except TypeError:
            E.raise_("TypeError", node, "safety")
        # x concrete: only symbolic keys can still be equal
        for k in list(d.keys()):
            if isinstance(k, SymKey):
                if E.branch(equal(R, E, x, k.term, node)):
                    return k
        return None
    for k in list(d.keys()):
        r = equal(R, E, x, kterm(k), node)
        if E.branch(r):
            return k
    return None


def keys(d):
    return [kterm(k) for k in d.keys()]


def items(d):
    return [(kterm(k), v) for k, v in d.items()]


from .engine import SymDict as _SymDictBase


class SymStrMap(_SymDictBase):
    """dict with string keys and an UNBOUNDED, symbolic key set: membership is a z3 array String -> Bool.
    Supports `k in d`, `d[k] = v`, and `d[k]` for keys stored on this path (found by forking on key equality)."""

    def __init__(self, member, name="map"):
        self.member = member
        self.name = name
        self.stored = []          # (key, value) in program order

    @staticmethod
    def fresh(name="map"):
        from .values import fresh_name
        return SymStrMap(z3.Const(fresh_name(name), z3.ArraySort(z3.StringSort(), z3.BoolSort())), name)

    def _key(self, E, k, node):
        from .values import is_str_like
        if not is_str_like(k):
            raise Unsupported("non-string key %r for a string-keyed symbolic map" % (k,))
        return z(k)

    def has(self, E, k):
        return z3.Select(self.member, self._key(E, k, None))

    def setitem(self, E, k, v, node):
        self.member = z3.Store(self.member, self._key(E, k, node), z3.BoolVal(True))
        self.stored.append((k, v))

    def getitem(self, E, k, node):
        kk = self._key(E, k, node)
        for k2, v in reversed(self.stored):
            if E.branch(kk == z(k2)):
                return v
        if E.branch(z3.Not(z3.Select(self.member, kk))):
            E.raise_("KeyError", node, "safety")
        raise Unsupported("value of a key of a symbolic map that was not stored on this path")

    def method(self, E, name, args, kwargs, node):
        raise Unsupported("method %s of a symbolic string map" % name)

    def iterspec(self, E):
        raise Unsupported("iteration over a symbolic string map")

    def size(self):
        raise Unsupported("len of a symbolic string map")

    def snapshot(self):
        c = SymStrMap(self.member, self.name)
        c.stored = list(self.stored)
        return c


class SymMap(_SymDictBase):
    """dict with an UNBOUNDED symbolic key set over one z3 key sort and integer values: member: K -> Bool, value: K -> Int.
    Keys are ints (sort Int) or opaque keys (Opaque terms of an uninterpreted sort, e.g. tuples of a symbolic-length row)."""

    def __init__(self, member, value, name="map", count=None):
        self.member, self.value, self.name = member, value, name
        self.count = count          # number of keys (ghost-free: maintained by setitem), None when unknown

    @staticmethod
    def empty(name, key_sort):
        return SymMap(z3.K(key_sort, z3.BoolVal(False)), z3.K(key_sort, z3.IntVal(0)), name, count=z3.IntVal(0))

    @staticmethod
    def fresh(name, key_sort):
        from .values import fresh_name
        return SymMap(z3.Const(fresh_name(name + "_in"), z3.ArraySort(key_sort, z3.BoolSort())),
                      z3.Const(fresh_name(name + "_val"), z3.ArraySort(key_sort, z3.IntSort())), name)

    def key_sort(self):
        return self.member.sort().domain()

    def _key(self, k):
        from .values import Opaque
        t = k.term if isinstance(k, Opaque) else (z(k) if not isinstance(k, (list, tuple, dict)) else None)
        if t is None or t.sort() != self.key_sort():
            raise Unsupported("key %r for a symbolic map over %s" % (k, self.key_sort()))
        return t

    def lookup(self, k, default):
        kk = self._key(k)
        return z3.If(z3.Select(self.member, kk), z3.Select(self.value, kk), z(default))

    def has(self, E, k):
        return z3.Select(self.member, self._key(k))

    def getitem(self, E, k, node):
        kk = self._key(k)
        E.safety("key-present", z3.Select(self.member, kk), node, "KeyError")
        return z3.Select(self.value, kk)

    def setitem(self, E, k, v, node):
        kk = self._key(k)
        from .values import is_int_like
        if not is_int_like(v):
            raise Unsupported("non-integer value %r in a symbolic map" % (v,))
        if self.count is not None:
            self.count = z3.simplify(self.count + z3.If(z3.Select(self.member, kk), 0, 1))
        self.member = z3.Store(self.member, kk, z3.BoolVal(True))
        self.value = z3.Store(self.value, kk, z(v))

    def method(self, E, name, args, kwargs, node):
        if name == "get":
            default = args[1] if len(args) > 1 else kwargs.get("default")
            if default is None:
                raise Unsupported("symbolic map .get without an integer default")
            return self.lookup(args[0], default)
        raise Unsupported("method %s of a symbolic map" % name)

    def iterspec(self, E):
        raise Unsupported("iteration over a symbolic map")

    def size(self):
        if self.count is None:
            raise Unsupported("len of a symbolic map of unknown size")
        return self.count

    def snapshot(self):
        return SymMap(self.member, self.value, self.name, self.count)


class SymCountSet(_SymDictBase):
    """set(array) of a symbolic-length array: only its size is modelled (between 1 and the length; 0 for an empty array)"""

    def __init__(self, count, src=None):
        self.count = count
        self.src = src

    def size(self):
        return self.count

    def has(self, E, k):
        raise Unsupported("membership in a set of a symbolic-length array")

    def method(self, E, name, args, kwargs, node):
        raise Unsupported("method %s of a set of a symbolic-length array" % name)

    def iterspec(self, E):
        # iteration: what set() of the source gave before only its size was asked for (label sets declared by a contract, ...)
        from .engine import PySet
        return E.registry.iterspec(E, PySet(E.iterate_concrete(self.src)), None)

    getitem = setitem = has



class SymSet(_SymDictBase):
    """set() filled in a loop of symbolic length with keys of one z3 sort (ints, or opaque keys such as tuples of a symbolic-length row):
    member: K -> Bool, plus the number of elements.  `s.add(k)`, `k in s`, `len(s)`, `sorted(s)` (see sorted_of)."""

    def __init__(self, member, count, name="set"):
        self.member, self.count, self.name = member, count, name

    @staticmethod
    def empty(name, key_sort):
        return SymSet(z3.K(key_sort, z3.BoolVal(False)), z3.IntVal(0), name)

    def key_sort(self):
        return self.member.sort().domain()

    def _key(self, k):
        from .values import Opaque
        t = k.term if isinstance(k, Opaque) else (z(k) if not isinstance(k, (list, tuple, dict)) else None)
        if t is None or t.sort() != self.key_sort():
            raise Unsupported("element %r for a symbolic set over %s" % (k, self.key_sort()))
        return t

    def has(self, E, k):
        return z3.Select(self.member, self._key(k))

    def method(self, E, name, args, kwargs, node):
        if name == "add":
            kk = self._key(args[0])
            self.count = z3.simplify(self.count + z3.If(z3.Select(self.member, kk), 0, 1))
            self.member = z3.Store(self.member, kk, z3.BoolVal(True))
            return None
        raise Unsupported("method %s of a symbolic set" % name)

    def getitem(self, E, k, node):
        E.raise_("TypeError", node, "safety")

    setitem = getitem

    def iterspec(self, E):
        raise Unsupported("iteration over a symbolic set (sort it first)")

    def size(self):
        return self.count

    def snapshot(self):
        return SymSet(self.member, self.count, self.name)

    def sorted_of(self, E):
        """sorted(s): a sequence without repetition of exactly the elements, as long as the set (the ORDER is the order of the keys,
        which nothing here depends on): ghost functions item: position -> element, pos: element -> position, inverse of each other"""
        from .values import Opaque, fresh_name
        from .engine import SymSeq
        ks = self.key_sort()
        item = z3.Function(fresh_name("sorted_item"), z3.IntSort(), ks)
        pos = z3.Function(fresh_name("sorted_pos"), ks, z3.IntSort())
        n = self.count
        key, j = z3.Const(fresh_name("sk"), ks), z3.Int(fresh_name("sj"))
        mem = self.member
        E.assume(n >= 0)
        E.assume(z3.ForAll([key], z3.Implies(z3.Select(mem, key), z3.And(pos(key) >= 0, pos(key) < n, item(pos(key)) == key)), patterns=[pos(key)]))
        E.assume(z3.ForAll([j], z3.Implies(z3.And(j >= 0, j < n), z3.And(z3.Select(mem, item(j)), pos(item(j)) == j)), patterns=[item(j)]))
        seq = SymSeq(n, lambda k_: Opaque(item(k_), "key") if ks.kind() == z3.Z3_UNINTERPRETED_SORT else item(k_), "sorted")
        seq.sorted_of = (self.snapshot(), item, pos)
        return seq


_I, _B, _R = z3.IntSort(), z3.BoolSort(), z3.RealSort()
_A1 = z3.ArraySort(_I, _B)
_A2 = z3.ArraySort(_I, _A1)
_A3 = z3.ArraySort(_I, _A2)
_H2 = z3.ArraySort(_I, _A1)
# length, head and first component of the head of the list stored under (a, b) in the concrete state number `version`: a concrete state has
# ONE list per key, so these are functions of the state; every mutation of the dictionary makes a new, unrelated version
ld_len = z3.Function("listdict_len", _I, _I, _I, _I)
ld_head = z3.Function("listdict_head", _I, _I, _I, _I)
ld_first = z3.Function("listdict_head_first", _I, _I, _I, _R)


class SymListDict(_SymDictBase):
    """dict filled in a loop of symbolic length, keys: pairs of integers, values: lists of pairs (number, integer) that are only read at
    position 0, shortened by `del l[0]` and extended by bisect.insort (the transfer lists of the 'gain' association).

    ABSTRACTION (an over-approximation of the concrete states, sound for safety properties): for every key the SET of the second components
    of its list - member[a][b][p] - and the set of keys present - haskey[a][b].  The order inside a list and the first components are not
    modelled: the head of a non-empty list is SOME member (the same one until the dictionary is next mutated), its first component is an
    unconstrained number; `del l[0]` may or may not remove the head from the set (a list could hold the same pair twice)."""

    def __init__(self, name):
        self.name = name
        self.member = z3.K(_I, z3.K(_I, z3.K(_I, z3.BoolVal(False))))
        self.haskey = z3.K(_I, z3.K(_I, z3.BoolVal(False)))
        self.version = z3.IntVal(0)
        self.bumps = 0

    def bump(self):
        from .values import fresh_name
        self.version = z3.Int(fresh_name(self.name + "_version"))

    def mem(self, a, b, p):
        return self.member[z(a)][z(b)][z(p)]

    def key(self, a, b):
        return self.haskey[z(a)][z(b)]

    def _pair(self, k):
        from .values import is_int_like
        if not (isinstance(k, tuple) and len(k) == 2 and all(is_int_like(x) for x in k)):
            raise Unsupported("key %r of a symbolic dictionary of lists (pairs of integers only)" % (k,))
        return z(k[0]), z(k[1])

    def has(self, E, k):
        a, b = self._pair(k)
        return self.key(a, b)

    def getitem(self, E, k, node):
        a, b = self._pair(k)
        E.safety("key-present", self.key(a, b), node, "KeyError")
        return ListView(self, a, b)

    def setitem(self, E, k, v, node):
        a, b = self._pair(k)
        if not (isinstance(v, list) and not v):
            raise Unsupported("only an empty list can be stored in a symbolic dictionary of lists, not %r" % (v,))
        row = self.member[a]
        self.member = z3.Store(self.member, a, z3.Store(row, b, z3.K(_I, z3.BoolVal(False))))
        self.haskey = z3.Store(self.haskey, a, z3.Store(self.haskey[a], b, z3.BoolVal(True)))
        self.bump()
        E.assume(ld_len(self.version, a, b) == 0)

    def method(self, E, name, args, kwargs, node):
        if name == "get" and len(args) == 2 and isinstance(args[1], list) and not args[1]:
            a, b = self._pair(args[0])
            if E.branch(self.key(a, b)):
                return ListView(self, a, b)
            return ListView(self, a, b, detached=True)      # the (empty) default: not stored in the dictionary
        if name == "setdefault" and len(args) == 2 and isinstance(args[1], list) and not args[1]:
            # d.setdefault(key, []): the list stored under the key, an empty one being stored first when the key is absent
            a, b = self._pair(args[0])
            if not E.branch(self.key(a, b)):
                self.setitem(E, args[0], args[1], node)
            return ListView(self, a, b)
        raise Unsupported("method %s%r of a symbolic dictionary of lists" % (name, tuple(args)))

    def iterspec(self, E):
        raise Unsupported("iteration over a symbolic dictionary of lists")

    def size(self):
        raise Unsupported("len of a symbolic dictionary of lists")

    def snapshot(self):
        s = SymListDict(self.name)
        s.member, s.haskey, s.version = self.member, self.haskey, self.version
        return s

    def restore(self, s):
        self.member, self.haskey, self.version = s.member, s.haskey, s.version

    def havoc(self, E):
        from .values import fresh_name
        self.member = z3.Const(fresh_name(self.name + "_members"), _A3)
        self.haskey = z3.Const(fresh_name(self.name + "_keys"), _H2)
        self.bump()


class ListView(_SymDictBase):
    """the list stored under one key of a SymListDict (an alias: it reads and writes the dictionary's current state)"""

    def __init__(self, d, a, b, detached=False):
        self.d, self.a, self.b, self.detached = d, a, b, detached      # detached: the empty default list of d.get(key, []) for an absent key

    def _facts(self, E):
        if self.detached:
            return z3.IntVal(0), z3.IntVal(0)
        """what every concrete list satisfies: a non-empty list has its head among its members, an empty list has no member"""
        d, a, b = self.d, self.a, self.b
        n, h = ld_len(d.version, a, b), ld_head(d.version, a, b)
        from .values import fresh_name
        p = z3.Int(fresh_name("lp"))
        E.assume(z3.And(n >= 0, z3.Implies(n > 0, d.mem(a, b, h)), z3.Implies(n == 0, z3.ForAll([p], z3.Not(d.mem(a, b, p))))))
        return n, h

    def size(self, E=None):
        if self.detached:
            return z3.IntVal(0)
        if E is None:
            return ld_len(self.d.version, self.a, self.b)
        return self._facts(E)[0]

    def has(self, E, k):
        raise Unsupported("membership in a list of a symbolic dictionary of lists")

    def getitem(self, E, k, node):
        if not (isinstance(k, int) and not isinstance(k, bool) and k == 0):
            raise Unsupported("only position 0 of a list of a symbolic dictionary of lists is modelled, not %r" % (k,))
        n, h = self._facts(E)
        E.safety("list-not-empty", n > 0, node, "IndexError")
        return (ld_first(self.d.version, self.a, self.b), h)

    def setitem(self, E, k, v, node):
        raise Unsupported("store into a list of a symbolic dictionary of lists")

    def delitem(self, E, k, node):
        if not (isinstance(k, int) and not isinstance(k, bool) and k == 0):
            raise Unsupported("only `del l[0]` is modelled for a list of a symbolic dictionary of lists")
        n, h = self._facts(E)
        E.safety("list-not-empty", n > 0, node, "IndexError")
        d, a, b = self.d, self.a, self.b
        keep = E.bool("head_also_further_down")       # a list may hold the same pair twice: the head may stay a member
        d.member = z3.Store(d.member, a, z3.Store(d.member[a], b, z3.Store(d.member[a][b], h, keep)))
        d.bump()

    def insort(self, E, item, node):
        from .values import is_int_like
        if not (isinstance(item, tuple) and len(item) == 2 and is_int_like(item[1])):
            raise Unsupported("bisect.insort of %r into a list of a symbolic dictionary of lists" % (item,))
        if self.detached:
            raise Unsupported("bisect.insort into the default list of dict.get")
        d, a, b = self.d, self.a, self.b
        d.member = z3.Store(d.member, a, z3.Store(d.member[a], b, z3.Store(d.member[a][b], z(item[1]), z3.BoolVal(True))))
        d.bump()
        E.assume(ld_len(d.version, a, b) > 0)

    def method(self, E, name, args, kwargs, node):
        raise Unsupported("method %s of a list of a symbolic dictionary of lists" % name)

    def iterspec(self, E):
        raise Unsupported("iteration over a list of a symbolic dictionary of lists")

    def snapshot(self):
        return ListView(self.d.snapshot(), self.a, self.b, self.detached)
