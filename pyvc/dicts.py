"""Python dicts whose keys may be symbolic (z3 terms): the dict stays a real Python dict (identity,
insertion order); a symbolic key is stored as SymKey(term).  Every lookup decides key equality
by forking, so the semantics is exact for dicts with a program-constant number of entries."""
import z3

from .values import is_sym, z, zbool, Unsupported


class SymKey:
    def __init__(self, term):
        self.term = term

    def __hash__(self):
        return hash(("symkey", self.term.get_id()))

    def __eq__(self, other):
        return isinstance(other, SymKey) and z3.eq(self.term, other.term)

    def __repr__(self):
        return "SymKey(%s)" % self.term


def kterm(k):
    return k.term if isinstance(k, SymKey) else k


def mk(k):
    return SymKey(k) if is_sym(k) else k


def find(R, E, d, x, node=None):
    """the stored key object equal to x on this path, or None (forks on symbolic equalities)"""
    from .pymodel import equal
    if not is_sym(x):
        try:
            if x in d:
                return x
        except TypeError:
            E.raise_("TypeError", node, "safety")
        # x concrete: only symbolic keys can still be equal
        for k in list(d.keys()):
            if isinstance(k, SymKey):
                if E.branch(equal(R, E, x, k.term, node)):
                    return k
        return None
    for k in list(d.keys()):
        r = equal(R, E, x, kterm(k), node)
        if E.branch(r):
            return k
    return None


def keys(d):
    return [kterm(k) for k in d.keys()]


def items(d):
    return [(kterm(k), v) for k, v in d.items()]
