"""Python dicts whose keys may be symbolic (z3 terms): the dict stays a real Python dict (identity,
insertion order); a symbolic key is stored as SymKey(term).  Every lookup decides key equality
by forking, so the semantics is exact for dicts with a program-constant number of entries."""
import z3

from .values import is_sym, z, zbool, Unsupported


class SymKey:
    def __init__(self, term):
        self.term = term

    def __hash__(self):
        return hash(("symkey", self.term.get_id()))

    def __eq__(self, other):
        return isinstance(other, SymKey) and z3.eq(self.term, other.term)

    def __repr__(self):
        return "SymKey(%s)" % self.term


def kterm(k):
    return k.term if isinstance(k, SymKey) else k


def mk(k):
    return SymKey(k) if is_sym(k) else k


def find(R, E, d, x, node=None):
    """the stored key object equal to x on this path, or None (forks on symbolic equalities)"""
    from .pymodel import equal
    if not is_sym(x):
        try:
            if x in d:
                return x
        except TypeError:
            E.raise_("TypeError", node, "safety")
        # x concrete: only symbolic keys can still be equal
        for k in list(d.keys()):
            if isinstance(k, SymKey):
                if E.branch(equal(R, E, x, k.term, node)):
                    return k
        return None
    for k in list(d.keys()):
        r = equal(R, E, x, kterm(k), node)
        if E.branch(r):
            return k
    return None


def keys(d):
    return [kterm(k) for k in d.keys()]


def items(d):
    return [(kterm(k), v) for k, v in d.items()]


from .engine import SymDict as _SymDictBase


class SymStrMap(_SymDictBase):
    """dict with string keys and an UNBOUNDED, symbolic key set: membership is a z3 array String -> Bool.
    Supports `k in d`, `d[k] = v`, and `d[k]` for keys stored on this path (found by forking on key equality)."""

    def __init__(self, member, name="map"):
        self.member = member
        self.name = name
        self.stored = []          # (key, value) in program order

    @staticmethod
    def fresh(name="map"):
        from .values import fresh_name
        return SymStrMap(z3.Const(fresh_name(name), z3.ArraySort(z3.StringSort(), z3.BoolSort())), name)

    def _key(self, E, k, node):
        from .values import is_str_like
        if not is_str_like(k):
            raise Unsupported("non-string key %r for a string-keyed symbolic map" % (k,))
        return z(k)

    def has(self, E, k):
        return z3.Select(self.member, self._key(E, k, None))

    def setitem(self, E, k, v, node):
        self.member = z3.Store(self.member, self._key(E, k, node), z3.BoolVal(True))
        self.stored.append((k, v))

    def getitem(self, E, k, node):
        kk = self._key(E, k, node)
        for k2, v in reversed(self.stored):
            if E.branch(kk == z(k2)):
                return v
        if E.branch(z3.Not(z3.Select(self.member, kk))):
            E.raise_("KeyError", node, "safety")
        raise Unsupported("value of a key of a symbolic map that was not stored on this path")

    def method(self, E, name, args, kwargs, node):
        raise Unsupported("method %s of a symbolic string map" % name)

    def iterspec(self, E):
        raise Unsupported("iteration over a symbolic string map")

    def size(self):
        raise Unsupported("len of a symbolic string map")

    def snapshot(self):
        c = SymStrMap(self.member, self.name)
        c.stored = list(self.stored)
        return c
