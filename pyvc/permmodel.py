"""Assumed models of numpy functions about order and permutations (argsort, min/max, random permutation, rand, paired integer
indexing) and of sklearn's euclidean_distances.  Each states only what the contracts use; everything else about the result
is left unconstrained (an over-approximation, sound for proofs)."""
import z3

from .values import NdArr, Unsupported, z, fresh_name, is_sym
from . import counting

posF1 = z3.Function("perm_pos", z3.ArraySort(z3.IntSort(), z3.IntSort()), z3.IntSort(), z3.IntSort())


def conc(v):
    return isinstance(v, int) and not isinstance(v, bool)


def is_perm_facts(arr, n=None):
    """range and injectivity of a 1-d integer array over [0,n)"""
    n = z(n if n is not None else arr.shape[0])
    i, j = z3.Int("pi!perm"), z3.Int("pj!perm")        # fixed names: two statements of the same fact are the same formula
    rng = z3.ForAll([i], z3.Implies(z3.And(i >= 0, i < n), z3.And(arr.get(i) >= 0, arr.get(i) < n)))
    inj = z3.ForAll([i, j], z3.Implies(z3.And(i >= 0, i < n, j >= 0, j < n, i != j), arr.get(i) != arr.get(j)))
    return rng, inj


def inj_surj(E, arr, n=None):
    """lemma instance (finite pigeonhole): an injective map of [0,n) into [0,n) is onto; Skolem function perm_pos"""
    n = z(n if n is not None else arr.shape[0])
    rng, inj = is_perm_facts(arr, n)
    t = arr.cell.term
    p = z3.Int(fresh_name("pp"))
    E.axiom(z3.Implies(z3.And(rng, inj), z3.ForAll([p], z3.Implies(z3.And(p >= 0, p < n),
            z3.And(posF1(t, p) >= 0, posF1(t, p) < n, t[posF1(t, p)] == p)), patterns=[posF1(t, p)])))
    E.used_lemmas.add("inj_surj")
    return lambda q: posF1(t, z(q))


def install(R):
    reg = R.register

    def fresh_perm(E, name, n):
        out = NdArr.fresh(name, (n,), "int")
        rng, inj = is_perm_facts(out)
        E.assume(rng)
        E.assume(inj)
        return out

    def np_extreme(which):
        def f(E, arr, axis=None, **kw):
            if not isinstance(arr, NdArr):
                raise Unsupported("%s of %r" % (which, arr))
            if arr.cell.nan is not None:
                raise Unsupported("%s of an array that may hold NaN" % which)
            le = (lambda a, b: a <= b) if which == "max" else (lambda a, b: a >= b)
            mk = E.real if arr.kind == "real" else E.int
            if axis is None:
                for s in arr.shape:
                    E.safety("%s-of-empty" % which, z(s) >= 1, None, "ValueError")
                v = mk(which)
                idx = [z3.Int(fresh_name("mi")) for _ in arr.shape]
                inb = z3.And(*[z3.And(i >= 0, i < z(s)) for i, s in zip(idx, arr.shape)])
                E.assume(z3.ForAll(idx, z3.Implies(inb, le(arr.get(*idx), v))))
                wit = [E.int("arg" + which) for _ in arr.shape]
                E.assume(z3.And(*[z3.And(w >= 0, w < z(s)) for w, s in zip(wit, arr.shape)]))
                E.assume(arr.get(*wit) == v)
                return v
            if arr.ndim == 2 and axis in (1, -1):
                E.safety("%s-of-empty" % which, z(arr.shape[1]) >= 1, None, "ValueError")
                out = NdArr.fresh(which, (arr.shape[0],), arr.kind)
                i, c = z3.Int(fresh_name("mi")), z3.Int(fresh_name("mc"))
                E.assume(z3.ForAll([i, c], z3.Implies(z3.And(i >= 0, i < z(arr.shape[0]), c >= 0, c < z(arr.shape[1])), le(arr.get(i, c), out.get(i)))))
                return out
            raise Unsupported("%s(axis=%r) of a %d-d array" % (which, axis, arr.ndim))
        return f
    R.np_max = np_extreme("max")
    R.np_min = np_extreme("min")
    for nm in ("max", "amax"):
        R.fns["numpy." + nm] = R.np_max
    for nm in ("min", "amin"):
        R.fns["numpy." + nm] = R.np_min

    @reg("numpy.argsort")
    def _argsort(E, a, axis=-1, **kw):
        """ASSUMED: numpy.argsort returns, along the axis, a permutation of the positions (order facts are not modelled)"""
        if not isinstance(a, NdArr):
            raise Unsupported("argsort of %r" % (a,))
        if a.ndim == 1:
            return fresh_perm(E, "argsort", a.shape[0])
        if a.ndim == 2 and axis in (1, -1):
            n, k = z(a.shape[0]), z(a.shape[1])
            out = NdArr.fresh("argsort", a.shape, "int")
            i, j, j2, c = (z3.Int(fresh_name(x)) for x in ("ai", "aj", "ak", "ac"))
            row = z3.And(i >= 0, i < n)
            E.assume(z3.ForAll([i, j], z3.Implies(z3.And(row, j >= 0, j < k), z3.And(out.get(i, j) >= 0, out.get(i, j) < k))))
            E.assume(z3.ForAll([i, j, j2], z3.Implies(z3.And(row, j >= 0, j < k, j2 >= 0, j2 < k, j != j2), out.get(i, j) != out.get(i, j2))))
            rp = z3.Function(fresh_name("rowpos"), z3.IntSort(), z3.IntSort(), z3.IntSort())
            E.assume(z3.ForAll([i, c], z3.Implies(z3.And(row, c >= 0, c < k), z3.And(rp(i, c) >= 0, rp(i, c) < k, out.get(i, rp(i, c)) == c)),
                               patterns=[rp(i, c)]))
            out.rowpos = rp
            return out
        raise Unsupported("argsort(axis=%r)" % (axis,))

    @reg("numpy.random.rand")
    def _rand(E, *dims):
        """ASSUMED: uniform draws in [0,1) from the global generator"""
        out = NdArr.fresh("rand", tuple(dims), "real")
        idx = [z3.Int(fresh_name("ri")) for _ in dims]
        E.assume(z3.ForAll(idx, z3.And(out.get(*idx) >= 0, out.get(*idx) < 1)))
        E.trace.append(dict(op="rand", rng="Global", result=out))
        return out

    old_perm = R.fns.get("numpy.random.permutation")

    def _permutation(E, x, *a, **kw):
        if isinstance(x, NdArr) and x.ndim == 1 and not conc(x.shape[0]):
            p = fresh_perm(E, "perm_idx", x.shape[0])
            fs, fp = x.snapshot(), p.snapshot()
            out = NdArr.from_fn("perm", (x.shape[0],), x.kind, lambda i: fs.get(fp.get(i)))
            E.trace.append(dict(op="permutation", rng="Global", result=out))
            return out
        return old_perm(E, x, *a, **kw)
    R.fns["numpy.random.permutation"] = _permutation

    @reg("sklearn.metrics.pairwise.euclidean_distances")
    def _eucl(E, X, Y=None, Y_norm_squared=None, squared=False, X_norm_squared=None):
        """ASSUMED: a (rows of X) x (rows of Y) matrix of non-negative numbers; ValueError when the dimensions differ"""
        Y = X if Y is None else Y
        if not (isinstance(X, NdArr) and isinstance(Y, NdArr) and X.ndim == 2 and Y.ndim == 2):
            raise Unsupported("euclidean_distances of %r, %r" % (X, Y))
        E.safety("euclidean-distances-dimension", z(X.shape[1]) == z(Y.shape[1]), None, "ValueError")
        out = NdArr.fresh("eucl", (X.shape[0], Y.shape[0]), "real")
        i, j = z3.Int(fresh_name("ei")), z3.Int(fresh_name("ej"))
        E.assume(z3.ForAll([i, j], out.get(i, j) >= 0))
        return out

    old_fancy = R.fancy_get

    def fancy_get(E, arr, idx, node):
        if isinstance(idx, tuple) and len(idx) == 2 and all(isinstance(t, NdArr) and t.kind == "int" and t.ndim == 1 for t in idx) and arr.ndim == 2:
            a, b = idx
            m = a.shape[0]
            E.safety("paired-index-shapes", z(a.shape[0]) == z(b.shape[0]), node, "IndexError")
            fa, fb, fs = a.snapshot(), b.snapshot(), arr.snapshot()
            i = z3.Int(fresh_name("fi"))
            # numpy also accepts negative positions; required non-negative here (conservative)
            E.safety("paired-index-bounds", z3.ForAll([i], z3.Implies(z3.And(i >= 0, i < z(m)), z3.And(
                fa.get(i) >= 0, fa.get(i) < z(arr.shape[0]), fb.get(i) >= 0, fb.get(i) < z(arr.shape[1])))), node, "IndexError")
            if fs.cell.nan is not None:
                raise Unsupported("paired index of an array that may hold NaN")
            return NdArr.from_fn("take2", (m,), arr.kind, lambda r: fs.get(fa.get(r), fb.get(r)))
        return old_fancy(E, arr, idx, node)
    R.fancy_get = fancy_get
