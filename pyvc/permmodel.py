"""Assumed models of numpy functions about order and permutations (argsort, min/max, random permutation, rand, paired integer
indexing) and of sklearn's euclidean_distances.  Each states only what the contracts use; everything else about the result
is left unconstrained (an over-approximation, sound for proofs)."""
import z3

from .values import NdArr, Unsupported, z, fresh_name, is_sym, is_int_like
from . import counting

posF1 = z3.Function("perm_pos", z3.ArraySort(z3.IntSort(), z3.IntSort()), z3.IntSort(), z3.IntSort())


def conc(v):
    return isinstance(v, int) and not isinstance(v, bool)


def is_perm_facts(arr, n=None):
    """range and injectivity of a 1-d integer array over [0,n)"""
    n = z(n if n is not None else arr.shape[0])
    i, j = z3.Int("pi!perm"), z3.Int("pj!perm")        # fixed names: two statements of the same fact are the same formula
    rng = z3.ForAll([i], z3.Implies(z3.And(i >= 0, i < n), z3.And(arr.get(i) >= 0, arr.get(i) < n)))
    inj = z3.ForAll([i, j], z3.Implies(z3.And(i >= 0, i < n, j >= 0, j < n, i != j), arr.get(i) != arr.get(j)))
    return rng, inj


def inj_surj(E, arr, n=None):
    """lemma instance (finite pigeonhole): an injective map of [0,n) into [0,n) is onto; Skolem function perm_pos"""
    n = z(n if n is not None else arr.shape[0])
    rng, inj = is_perm_facts(arr, n)
    t = arr.cell.term
    p = z3.Int(fresh_name("pp"))
    E.axiom(z3.Implies(z3.And(rng, inj), z3.ForAll([p], z3.Implies(z3.And(p >= 0, p < n),
            z3.And(posF1(t, p) >= 0, posF1(t, p) < n, t[posF1(t, p)] == p)), patterns=[posF1(t, p)])))
    E.used_lemmas.add("inj_surj")
    return lambda q: posF1(t, z(q))


def install(R):
    reg = R.register

    def fresh_perm(E, name, n):
        out = NdArr.fresh(name, (n,), "int")
        rng, inj = is_perm_facts(out)
        E.assume(rng)
        E.assume(inj)
        return out

    def np_extreme(which):
        def f(E, arr, axis=None, **kw):
            if not isinstance(arr, NdArr):
                raise Unsupported("%s of %r" % (which, arr))
            if arr.cell.nan is not None:
                raise Unsupported("%s of an array that may hold NaN" % which)
            le = (lambda a, b: a <= b) if which == "max" else (lambda a, b: a >= b)
            mk = E.real if arr.kind == "real" else E.int
            if axis is None:
                for s in arr.shape:
                    E.safety("%s-of-empty" % which, z(s) >= 1, None, "ValueError")
                v = mk(which)
                idx = [z3.Int(fresh_name("mi")) for _ in arr.shape]
                inb = z3.And(*[z3.And(i >= 0, i < z(s)) for i, s in zip(idx, arr.shape)])
                E.assume(z3.ForAll(idx, z3.Implies(inb, le(arr.get(*idx), v))))
                wit = [E.int("arg" + which) for _ in arr.shape]
                E.assume(z3.And(*[z3.And(w >= 0, w < z(s)) for w, s in zip(wit, arr.shape)]))
                E.assume(arr.get(*wit) == v)
                return v
            if arr.ndim == 2 and axis in (1, -1):
                E.safety("%s-of-empty" % which, z(arr.shape[1]) >= 1, None, "ValueError")
                out = NdArr.fresh(which, (arr.shape[0],), arr.kind)
                i, c = z3.Int(fresh_name("mi")), z3.Int(fresh_name("mc"))
                E.assume(z3.ForAll([i, c], z3.Implies(z3.And(i >= 0, i < z(arr.shape[0]), c >= 0, c < z(arr.shape[1])), le(arr.get(i, c), out.get(i)))))
                wit = z3.Function(fresh_name("arg" + which), z3.IntSort(), z3.IntSort())         # the bound is attained in every row
                E.assume(z3.ForAll([i], z3.Implies(z3.And(i >= 0, i < z(arr.shape[0])), z3.And(
                    wit(i) >= 0, wit(i) < z(arr.shape[1]), arr.get(i, wit(i)) == out.get(i))), patterns=[out.get(i)]))
                return out
            raise Unsupported("%s(axis=%r) of a %d-d array" % (which, axis, arr.ndim))
        return f
    R.np_max = np_extreme("max")
    R.np_min = np_extreme("min")
    for nm in ("max", "amax"):
        R.fns["numpy." + nm] = R.np_max
    for nm in ("min", "amin"):
        R.fns["numpy." + nm] = R.np_min

    @reg("numpy.argsort")
    def _argsort(E, a, axis=-1, **kw):
        """ASSUMED: numpy.argsort returns, along the axis, a permutation of the positions (order facts are not modelled)"""
        if not isinstance(a, NdArr):
            raise Unsupported("argsort of %r" % (a,))
        if a.ndim == 1:
            return fresh_perm(E, "argsort", a.shape[0])
        if a.ndim == 2 and axis in (1, -1):
            n, k = z(a.shape[0]), z(a.shape[1])
            out = NdArr.fresh("argsort", a.shape, "int")
            i, j, j2, c = (z3.Int(fresh_name(x)) for x in ("ai", "aj", "ak", "ac"))
            row = z3.And(i >= 0, i < n)
            E.assume(z3.ForAll([i, j], z3.Implies(z3.And(row, j >= 0, j < k), z3.And(out.get(i, j) >= 0, out.get(i, j) < k))))
            E.assume(z3.ForAll([i, j, j2], z3.Implies(z3.And(row, j >= 0, j < k, j2 >= 0, j2 < k, j != j2), out.get(i, j) != out.get(i, j2))))
            rp = z3.Function(fresh_name("rowpos"), z3.IntSort(), z3.IntSort(), z3.IntSort())
            E.assume(z3.ForAll([i, c], z3.Implies(z3.And(row, c >= 0, c < k), z3.And(rp(i, c) >= 0, rp(i, c) < k, out.get(i, rp(i, c)) == c)),
                               patterns=[rp(i, c)]))
            out.rowpos = rp
            return out
        if a.ndim == 2 and axis == 0:
            # per column a permutation of the row positions
            n, k = z(a.shape[0]), z(a.shape[1])
            out = NdArr.fresh("argsort", a.shape, "int")
            i, i2, j = (z3.Int(fresh_name(x)) for x in ("ai", "ak", "aj"))
            col = z3.And(j >= 0, j < k)
            E.assume(z3.ForAll([i, j], z3.Implies(z3.And(col, i >= 0, i < n), z3.And(out.get(i, j) >= 0, out.get(i, j) < n))))
            E.assume(z3.ForAll([i, i2, j], z3.Implies(z3.And(col, i >= 0, i < n, i2 >= 0, i2 < n, i != i2), out.get(i, j) != out.get(i2, j))))
            return out
        raise Unsupported("argsort(axis=%r)" % (axis,))

    @reg("numpy.random.rand")
    def _rand(E, *dims):
        """ASSUMED: uniform draws in [0,1) from the global generator"""
        out = NdArr.fresh("rand", tuple(dims), "real")
        idx = [z3.Int(fresh_name("ri")) for _ in dims]
        E.assume(z3.ForAll(idx, z3.And(out.get(*idx) >= 0, out.get(*idx) < 1)))
        E.trace.append(dict(op="rand", rng="Global", result=out))
        return out

    old_perm = R.fns.get("numpy.random.permutation")

    def _permutation(E, x, *a, _rng="Global", _old=None, **kw):
        if isinstance(x, NdArr) and x.ndim == 1 and not conc(x.shape[0]):
            p = fresh_perm(E, "perm_idx", x.shape[0])
            fs, fp = x.snapshot(), p.snapshot()
            out = NdArr.from_fn("perm", (x.shape[0],), x.kind, lambda i: fs.get(fp.get(i)))
            E.trace.append(dict(op="permutation", rng=_rng, result=out))
            return out
        if is_int_like(x) and not isinstance(x, bool) and not conc(x):
            # permutation(n) for a symbolic n: a permutation of 0 .. n-1
            E.safety("permutation-size", z(x) >= 0, None, "ValueError")
            out = fresh_perm(E, "perm_idx", x)
            E.trace.append(dict(op="permutation", rng=_rng, result=out))
            return out
        return (_old or old_perm)(E, x, *a, **kw)
    R.fns["numpy.random.permutation"] = _permutation
    old_rs_perm = R.methods.get(("RandomState", "permutation"))
    R.methods[("RandomState", "permutation")] = lambda E, recv, args, kwargs, node: _permutation(
        E, *args, _rng=recv.fields["$rng"], _old=lambda E_, *a_, **k_: old_rs_perm(E_, recv, a_, k_, node), **kwargs)

    @reg("numpy.argmin")
    def _argmin(E, a, axis=None, **kw):
        """ASSUMED: numpy.argmin(m, axis=1) returns one column position per row (that it is a smallest entry is not modelled)"""
        if not (isinstance(a, NdArr) and a.ndim == 2 and axis == 1 and not kw):
            raise Unsupported("argmin(%r, axis=%r)" % (a, axis))
        E.safety("argmin-of-empty", z(a.shape[1]) >= 1, None, "ValueError")
        out = NdArr.fresh("argmin", (a.shape[0],), "int")
        i = z3.Int(fresh_name("ai"))
        E.assume(z3.ForAll([i], z3.And(out.get(i) >= 0, out.get(i) < z(a.shape[1])), patterns=[out.get(i)]))
        return out

    @reg("sklearn.metrics.pairwise.euclidean_distances")
    def _eucl(E, X, Y=None, Y_norm_squared=None, squared=False, X_norm_squared=None):
        """ASSUMED: a (rows of X) x (rows of Y) matrix of non-negative numbers; ValueError when the dimensions differ"""
        Y = X if Y is None else Y
        if not (isinstance(X, NdArr) and isinstance(Y, NdArr) and X.ndim == 2 and Y.ndim == 2):
            raise Unsupported("euclidean_distances of %r, %r" % (X, Y))
        E.safety("euclidean-distances-dimension", z(X.shape[1]) == z(Y.shape[1]), None, "ValueError")
        out = NdArr.fresh("eucl", (X.shape[0], Y.shape[0]), "real")
        i, j = z3.Int(fresh_name("ei")), z3.Int(fresh_name("ej"))
        E.assume(z3.ForAll([i, j], out.get(i, j) >= 0))
        return out

    old_fancy = R.fancy_get

    def fancy_get(E, arr, idx, node):
        if isinstance(idx, tuple) and len(idx) == 2 and all(isinstance(t, NdArr) and t.kind == "int" and t.ndim == 1 for t in idx) and arr.ndim == 2:
            a, b = idx
            m = a.shape[0]
            E.safety("paired-index-shapes", z(a.shape[0]) == z(b.shape[0]), node, "IndexError")
            fa, fb, fs = a.snapshot(), b.snapshot(), arr.snapshot()
            i = z3.Int(fresh_name("fi"))
            # numpy also accepts negative positions; required non-negative here (conservative)
            E.safety("paired-index-bounds", z3.ForAll([i], z3.Implies(z3.And(i >= 0, i < z(m)), z3.And(
                fa.get(i) >= 0, fa.get(i) < z(arr.shape[0]), fb.get(i) >= 0, fb.get(i) < z(arr.shape[1])))), node, "IndexError")
            if fs.cell.nan is not None:
                raise Unsupported("paired index of an array that may hold NaN")
            return NdArr.from_fn("take2", (m,), arr.kind, lambda r: fs.get(fa.get(r), fb.get(r)))
        return old_fancy(E, arr, idx, node)
    R.fancy_get = fancy_get


def install_sklearn_utils(R):
    """ASSUMED models of small scikit-learn / numpy helpers used by the k-means code"""
    from .values import Obj

    def _check_random_state(E, seed=None):
        if isinstance(seed, Obj) and seed.tag == "RandomState":
            return seed
        o = R.fns["numpy.random.RandomState"](E, seed)
        if seed is None:
            o.fields["$rng"] = "Global"         # check_random_state(None) is numpy's global generator
            for t in E.trace[-1:]:
                if t.get("op") == "RandomState":
                    t["rng"] = "Global"
        return o
    for nm in ("sklearn.utils.check_random_state", "sklearn.utils.validation.check_random_state"):
        R.fns[nm] = _check_random_state
    R.fns["sklearn.utils.validation._num_samples"] = lambda E, X: X.shape[0]

    def _check_sample_weight(E, sample_weight, X, dtype=None, **kw):
        """ASSUMED: the given weights (validated: one per row, else ValueError) or ones"""
        if sample_weight is None:
            return NdArr.from_fn("ones", (X.shape[0],), "real", lambda i: z3.RealVal(1))
        if isinstance(sample_weight, NdArr) and sample_weight.ndim == 1:
            E.safety("sample-weight-length", z(sample_weight.shape[0]) == z(X.shape[0]), None, "ValueError")
            return sample_weight
        raise Unsupported("_check_sample_weight(%r)" % (sample_weight,))
    for nm in ("sklearn.cluster._kmeans._check_sample_weight", "sklearn.cluster._kmeans._check_normalize_sample_weight",
               "sklearn.utils.validation._check_sample_weight"):
        R.fns[nm] = _check_sample_weight

    def _iinfo(E, dt):
        o = Obj("iinfo", tag="iinfo")
        name = getattr(dt, "name", str(dt)).split(".")[-1]
        bits = {"int8": 8, "int16": 16, "int32": 32, "int64": 64}.get(name)
        if bits is None:
            raise Unsupported("iinfo(%r)" % (dt,))
        o.fields["max"], o.fields["min"] = 2 ** (bits - 1) - 1, -(2 ** (bits - 1))
        return o
    R.fns["numpy.iinfo"] = _iinfo


def install_isclose(R):
    from fractions import Fraction
    from .values import is_num_like

    def _isclose(E, a, b, rtol=Fraction(1, 100000), atol=Fraction(1, 100000000), equal_nan=False):
        """numpy.isclose on finite scalars: |a - b| <= atol + rtol * |b|   (A1: reals)"""
        if not (is_num_like(a) and is_num_like(b)):
            raise Unsupported("isclose(%r, %r)" % (a, b))
        from .values import znum
        x, y = znum(a), znum(b)
        ab = lambda t: z3.If(t >= 0, t, -t)
        rt = z3.RealVal(str(Fraction(rtol))) if not is_sym(rtol) else rtol
        at = z3.RealVal(str(Fraction(atol))) if not is_sym(atol) else atol
        if isinstance(b, (int, float, Fraction)):
            bound = at + rt * z3.RealVal(str(abs(Fraction(b))))
        else:
            bound = at + rt * ab(y)
        return ab(x - y) <= bound
    R.fns["numpy.isclose"] = _isclose


def install_set_of_array(R):
    prev = getattr(R, "set_hook", None)

    def set_hook(E, v):
        r = prev(E, v) if prev is not None else None
        if r is not None:
            return r
        if isinstance(v, NdArr) and v.ndim == 1 and not isinstance(v.shape[0], int):
            from .dicts import SymCountSet
            c = E.int("distinct")
            n = z(v.shape[0])
            E.assume(z3.And(c >= 0, c <= n, z3.Implies(n > 0, c >= 1)))
            return SymCountSet(c, v)
        return prev(E, v) if prev is not None else None
    R.set_hook = set_hook


def install_contiguous(R):
    # ASSUMED: ascontiguousarray / asfortranarray / asarray return the array itself when nothing has to change (worst case for aliasing)
    for nm in ("numpy.ascontiguousarray", "numpy.asfortranarray"):
        R.fns[nm] = lambda E, a, dtype=None, **kw: a


def install_where_median(R):
    def _where(E, cond, *rest):
        """numpy.where(mask) for a 1-d boolean array: (array of the selected positions, in increasing order,)"""
        if rest or not (isinstance(cond, NdArr) and cond.kind == "bool" and cond.ndim == 1):
            raise Unsupported("numpy.where(%r, ...)" % (cond,))
        fm, n, K, rank, unrank = R.mask_info(E, cond)
        out = NdArr.from_fn("where", (K,), "int", lambda t: unrank(t))
        out.cell.where_of = (cond, fm, rank, unrank)
        return (out,)
    R.fns["numpy.where"] = _where
    # numpy.flatnonzero(mask) of a 1-d boolean mask: the selected positions in increasing order (what numpy.where(mask)[0] gives)
    R.fns["numpy.flatnonzero"] = lambda E, cond: _where(E, cond)[0]
    R.fns["numpy.nonzero"] = _where

    def _median(E, a, axis=None, **kw):
        """ASSUMED: numpy.median(a, axis=0) of a non-empty 2-d array lies, per column, between two entries of that column
        (witness rows as ghost functions of the column); NaN-free input"""
        if not (isinstance(a, NdArr) and a.ndim == 2 and axis == 0):
            raise Unsupported("median(%r, axis=%r)" % (a, axis))
        if a.cell.nan is not None:
            raise Unsupported("median of an array that may hold NaN")
        m = z(a.shape[0])
        out = NdArr.fresh("median", (a.shape[1],), "real")
        lo = z3.Function(fresh_name("median_lo"), z3.IntSort(), z3.IntSort())
        hi = z3.Function(fresh_name("median_hi"), z3.IntSort(), z3.IntSort())
        fs = a.snapshot()
        j = z3.Int(fresh_name("mj"))
        E.assume(z3.ForAll([j], z3.Implies(z3.And(m >= 1, j >= 0, j < z(a.shape[1])), z3.And(
            lo(j) >= 0, lo(j) < m, hi(j) >= 0, hi(j) < m, fs.get(lo(j), j) <= out.get(j), out.get(j) <= fs.get(hi(j), j))), patterns=[out.get(j)]))
        return out
    R.fns["numpy.median"] = _median


def install_bincount(R):
    def _bincount(E, x, weights=None, minlength=0):
        """numpy.bincount(x, weights): one entry per value 0 .. max(x) (at least minlength): the (weighted) number of occurrences.
        Modelled: the length, and that a value that does not occur has entry 0; negative values raise ValueError"""
        if not (isinstance(x, NdArr) and x.kind == "int" and x.ndim == 1):
            raise Unsupported("bincount(%r)" % (x,))
        n = z(x.shape[0])
        i, c = z3.Int(fresh_name("bi")), z3.Int(fresh_name("bc"))
        E.safety("bincount-non-negative", z3.ForAll([i], z3.Implies(z3.And(i >= 0, i < n), x.get(i) >= 0)), None, "ValueError")
        L = E.int("bincount_len")
        top = E.int("bincount_top")
        ml = z(minlength)
        fs = x.snapshot()
        E.assume(z3.And(L >= ml, L >= 0, z3.ForAll([i], z3.Implies(z3.And(i >= 0, i < n), fs.get(i) < L)),
                        z3.Implies(n >= 1, z3.And(top >= 0, top < n, z3.Or(L == fs.get(top) + 1, L == ml))), z3.Implies(n <= 0, L == ml)))
        out = NdArr.fresh("bincount", (L,), "real" if weights is not None else "int")
        E.assume(z3.ForAll([c], z3.Implies(z3.And(c >= 0, c < L, z3.ForAll([i], z3.Implies(z3.And(i >= 0, i < n), fs.get(i) != c))), out.get(c) == 0)))
        return out
    R.fns["numpy.bincount"] = _bincount



def install_kmeanspp_helpers(R):
    """ASSUMED models of the numpy / scikit-learn helpers of the k-means++ seeding (_k_init): only ranges and shapes"""
    from .values import Obj

    def _random_sample(E, recv, args, kwargs, node):
        """RandomState.random_sample(n): n numbers in [0, 1)"""
        size = args[0] if args else kwargs.get("size")
        E.trace.append(dict(op="random_sample", rng=recv.fields["$rng"], obj=recv))
        if size is None:
            v = E.real("rnd")
            E.assume(z3.And(v >= 0, v < 1))
            return v
        E.safety("random-sample-size", z(size) >= 0, node, "ValueError")
        out = NdArr.fresh("rnd", (size,), "real")
        i = z3.Int(fresh_name("ri"))
        E.assume(z3.ForAll([i], z3.And(out.get(i) >= 0, out.get(i) < 1), patterns=[out.get(i)]))
        return out
    R.methods[("RandomState", "random_sample")] = _random_sample

    def _stable_cumsum(E, arr, axis=None, **kw):
        """sklearn.utils.extmath.stable_cumsum(a): cumulative sums of the flattened array (values not modelled)"""
        if not isinstance(arr, NdArr) or axis is not None:
            raise Unsupported("stable_cumsum(%r, axis=%r)" % (arr, axis))
        if arr.ndim == 1:
            return NdArr.fresh("cumsum", (arr.shape[0],), "real")
        if arr.ndim == 2 and isinstance(arr.shape[0], int) and arr.shape[0] == 1:
            return NdArr.fresh("cumsum", (arr.shape[1],), "real")
        raise Unsupported("stable_cumsum of a general %d-d array" % arr.ndim)
    R.fns["sklearn.utils.extmath.stable_cumsum"] = _stable_cumsum

    def _searchsorted(E, a, v, side="left", sorter=None):
        """numpy.searchsorted(a, v): one insertion position in [0, len(a)] per element of v (which one is not modelled)"""
        if not (isinstance(a, NdArr) and a.ndim == 1 and isinstance(v, NdArr) and v.ndim == 1 and sorter is None):
            raise Unsupported("searchsorted(%r, %r)" % (a, v))
        out = NdArr.fresh("positions", (v.shape[0],), "int")
        i = z3.Int(fresh_name("si"))
        E.assume(z3.ForAll([i], z3.And(out.get(i) >= 0, out.get(i) <= z(a.shape[0])), patterns=[out.get(i)]))
        return out
    R.fns["numpy.searchsorted"] = _searchsorted

    def _clip(E, a, a_min=None, a_max=None, out=None, **kw):
        """numpy.clip on an integer / real vector, optionally in place (out=a)"""
        if not (isinstance(a, NdArr) and a.ndim == 1) or kw:
            raise Unsupported("clip(%r)" % (a,))
        fs = a.snapshot()

        def f(i):
            v = fs.get(i)
            if a_max is not None:
                hi = z(a_max)
                v = z3.If(v > hi, (z3.ToReal(hi) if z3.is_real(v) and z3.is_int(hi) else hi), v)
            if a_min is not None:
                lo = z(a_min)
                v = z3.If(v < lo, (z3.ToReal(lo) if z3.is_real(v) and z3.is_int(lo) else lo), v)
            return v
        if out is None:
            return NdArr.from_fn("clipped", a.shape, a.kind, f)
        if out is not a:
            raise Unsupported("clip with out= another array")
        E.note_write(a)
        a.assign_fn(f)
        return a
    R.fns["numpy.clip"] = _clip

    def _argmin1(old):
        def f(E, a, axis=None, **kw):
            if isinstance(a, NdArr) and a.ndim == 1 and axis is None and not kw:
                E.safety("argmin-of-empty", z(a.shape[0]) >= 1, None, "ValueError")
                v = E.int("argmin")
                E.assume(z3.And(v >= 0, v < z(a.shape[0])))      # ASSUMED: a position of the vector (that it holds a smallest entry is not modelled)
                return v
            return old(E, a, axis=axis, **kw)
        return f
    R.fns["numpy.argmin"] = _argmin1(R.fns["numpy.argmin"])

    # numpy.errstate(...) / warnings.catch_warnings(): context managers that only change how floating-point warnings are reported
    R.fns["numpy.errstate"] = lambda E, *a, **k: None
    R.fns["warnings.catch_warnings"] = lambda E, *a, **k: None
