"""numpy semantics (modelled tier): shapes, views, slices, element-wise operations, reductions
through ghost functions.  A1: floating point numbers are reals; NaN is a per-cell missing flag."""
import ast
from fractions import Fraction

import z3

from .values import (NdArr, Cell, Obj, Opaque, SList, NaN, Unsupported, is_sym, is_int_like,
                     is_bool_like, is_real_like, is_num_like, is_str_like, z, zbool, znum,
                     fresh_name, arr_sort, elem_sort)
from .engine import (ExternFn, ExternMod, PyFn, Closure, LambdaFn, GenResult, IterSpec, Raised)


def conc(v):
    return not is_sym(v)


class DType:
    def __init__(self, name):
        self.name = name

    def __eq__(self, other):
        return isinstance(other, DType) and other.name == self.name

    def __hash__(self):
        return hash(("dtype", self.name))

    def __repr__(self):
        return "<dtype %s>" % self.name


CONSTS = {
    "numpy.nan": NaN, "numpy.float64": DType("float64"), "numpy.float32": DType("float32"),
    "numpy.int32": DType("int32"), "numpy.int64": DType("int64"), "numpy.intp": DType("intp"),
    "numpy.bool_": DType("bool"), "numpy.newaxis": None, "numpy.inf": "inf+", "numpy.uint8": DType("uint8"),
    "sklearn.tree._tree.TREE_LEAF": -1, "sklearn.tree._tree.TREE_UNDEFINED": -2,
    "numpy.str_": DType("str"), "numpy.object_": DType("object"), "numpy.double": DType("float64"),
}


# names removed from the numpy 2 main namespace (the installed numpy is 2.x): AttributeError
REMOVED_IN_NUMPY2 = {"numpy." + n for n in (
    "infty", "Inf", "Infinity", "NaN", "NAN", "PINF", "NINF", "PZERO", "NZERO", "float_", "complex_", "unicode_",
    "string_", "int0", "uint0", "bool8", "object0", "product", "cumproduct", "sometrue", "alltrue", "in1d_", "round_",
    "asfarray", "find_common_type", "cast", "source", "lookfor", "who", "mat", "row_stack", "trapz_", "issubclass_",
    "issubsctype", "maximum_sctype", "obj2sctype", "sctype2char", "sctypes", "set_string_function", "asscalar",
    "safe_eval", "recfromcsv", "recfromtxt", "deprecate", "deprecate_with_doc", "disp", "byte_bounds", "compat",
    "nbytes", "DataSource", "add_docstring", "add_newdoc", "add_newdoc_ufunc", "tracemalloc_domain", "float", "int",
    "bool", "object", "str", "long", "unicode", "complex")}


def kind_of_dtype(dt, default="real"):
    if dt is None:
        return default
    if isinstance(dt, DType):
        n = dt.name
    elif isinstance(dt, ExternFn):
        n = dt.name.split(".")[-1]
    elif isinstance(dt, str):
        n = dt
    else:
        return default
    if n.startswith("int") or n in ("intp", "uint8", "int"):
        return "int"
    if n.startswith("bool"):
        return "bool"
    return "real"


def kind_of_scalar(v):
    if is_bool_like(v):
        return "bool"
    if is_int_like(v):
        return "int"
    return "real"


def join_kind(a, b):
    order = {"bool": 0, "int": 1, "real": 2}
    return a if order[a] >= order[b] else b


def cast(v, kind):
    v = z(v)
    if kind == "real":
        if z3.is_bool(v):
            return z3.If(v, z3.RealVal(1), z3.RealVal(0))
        return z3.ToReal(v) if z3.is_int(v) else v
    if kind == "int":
        if z3.is_bool(v):
            return z3.If(v, z3.IntVal(1), z3.IntVal(0))
        if z3.is_real(v):
            return z3.If(v >= 0, z3.ToInt(v), -z3.ToInt(-v))
        return v
    if kind == "bool":
        return zbool(v)
    raise Unsupported(kind)


def shapes_equal(E, a, b, node, what="shape"):
    """numpy shape agreement; raises ValueError in the verified program otherwise"""
    if len(a) != len(b):
        E.raise_("ValueError", node, "safety")
    for x, y in zip(a, b):
        if conc(x) and conc(y):
            if x != y:
                E.raise_("ValueError", node, "safety")
        else:
            E.safety(what, z(x) == z(y), node, "ValueError")


def arr_map(E, fn, arrs, kind, node=None):
    """element-wise combination of arrays of identical shape (scalars broadcast)"""
    ref = None
    for a in arrs:
        if isinstance(a, NdArr) and (ref is None or a.ndim > ref.ndim):
            ref = a
    one = lambda s_: isinstance(s_, int) and s_ == 1
    for a in arrs:
        # the reference shape is the one the others are stretched to: not an operand with an axis of extent 1 where another one has more
        if isinstance(a, NdArr) and a is not ref and a.ndim == ref.ndim and any(one(r) and not one(s_) for s_, r in zip(a.shape, ref.shape)) \
                and not any(one(s_) and not one(r) for s_, r in zip(a.shape, ref.shape)):
            ref = a
    stretched = {}       # id(array) -> axes of extent 1 (e.g. v[:, numpy.newaxis]) that numpy stretches along the reference shape
    for a in arrs:
        if isinstance(a, NdArr) and a is not ref:
            if a.ndim == ref.ndim and any(isinstance(s, int) and s == 1 and not (isinstance(r, int) and r == 1) for s, r in zip(a.shape, ref.shape)):
                ax = [k for k, (s, r) in enumerate(zip(a.shape, ref.shape)) if isinstance(s, int) and s == 1 and not (isinstance(r, int) and r == 1)]
                stretched[id(a)] = ax
                shapes_equal(E, tuple(r for k, r in enumerate(ref.shape) if k not in ax), tuple(s for k, s in enumerate(a.shape) if k not in ax), node)
            elif a.ndim == ref.ndim:
                shapes_equal(E, ref.shape, a.shape, node)
            elif a.ndim == 1 and ref.ndim == 2:
                shapes_equal(E, (ref.shape[1],), a.shape, node)      # numpy broadcasting: a vector along the rows of a matrix
            else:
                raise Unsupported("broadcast between ranks %d and %d" % (a.ndim, ref.ndim))
    frozen = [a.snapshot() if isinstance(a, NdArr) else a for a in arrs]
    axes = {id(fz): stretched.get(id(a), []) for fz, a in zip(frozen, arrs) if isinstance(a, NdArr)}

    def at(x, i):
        j = list(i[len(i) - x.ndim:])
        for k in axes.get(id(x), []):
            j[k] = 0
        return j

    def f(*i):
        return fn(*[(x.get(*at(x, i)) if isinstance(x, NdArr) else znum(x)) for x in frozen])

    nan_srcs = [x for x in frozen if isinstance(x, NdArr) and x.cell.nan is not None]
    nanfn = (lambda *i: z3.Or(*[x.isnan(*at(x, i)) for x in nan_srcs])) if nan_srcs else None
    out = NdArr.from_fn("t", ref.shape, kind, f, nanfn)
    if any(isinstance(a, NdArr) and getattr(a.cell, "masked", False) for a in arrs):
        out.cell.masked = True         # numpy.ma: the result of an operation on masked arrays is masked where an operand is
    return out


def arr_binop(R, E, op, a, b, node):
    if isinstance(op, ast.MatMult):
        return R.matmul(E, a, b, node)
    for x in (a, b):
        if not isinstance(x, NdArr) and not is_num_like(x):
            if x is NaN:
                raise Unsupported("array op with NaN scalar")
            raise Unsupported("array op with %r" % (x,))
    ka = a.kind if isinstance(a, NdArr) else kind_of_scalar(a)
    kb = b.kind if isinstance(b, NdArr) else kind_of_scalar(b)
    kind = join_kind(ka, kb)
    if kind == "bool" and isinstance(op, (ast.BitOr, ast.BitAnd)):
        f = (lambda x, y: z3.Or(x, y)) if isinstance(op, ast.BitOr) else (lambda x, y: z3.And(x, y))
        return arr_map(E, f, [a, b], "bool", node)
    if kind == "bool":
        kind = "int"
    if isinstance(op, ast.Div):
        kind = "real"

    def f(x, y):
        x, y = cast(x, kind), cast(y, kind)
        if isinstance(op, ast.Add):
            return x + y
        if isinstance(op, ast.Sub):
            return x - y
        if isinstance(op, ast.Mult):
            return x * y
        if isinstance(op, ast.Div):
            return x / y          # numpy: division by zero gives inf/nan, no exception (A1: unspecified)
        if isinstance(op, ast.Pow):
            return R.pow_(E, x, y, node)
        raise Unsupported("array operator %s" % type(op).__name__)
    return arr_map(E, f, [a, b], kind, node)


def arr_compare(R, E, op, a, b, node):
    def f(x, y):
        if z3.is_bool(x) or z3.is_bool(y):
            x, y = cast(x, "int"), cast(y, "int")
        return {ast.Lt: lambda: x < y, ast.LtE: lambda: x <= y, ast.Gt: lambda: x > y, ast.GtE: lambda: x >= y,
                ast.Eq: lambda: x == y, ast.NotEq: lambda: x != y}[type(op)]()
    return arr_map(E, f, [a, b], "bool", node)


def inplace(R, E, arr, op, rhs, node):
    """arr <op>= rhs: numpy writes in place (visible through every alias / view)"""
    from .pymodel import binop
    if isinstance(arr, MaskedView):
        base, mask = arr.base, arr.mask.snapshot()
        old = base.snapshot()
        if isinstance(rhs, NdArr):
            raise Unsupported("masked in-place update with array operand")
        kind = base.kind

        def f(*i):
            x = old.get(*i)
            y = cast(rhs, kind)
            new = {ast.Mult: lambda: x * y, ast.Add: lambda: x + y, ast.Sub: lambda: x - y}[type(op)]()
            return z3.If(mask.get(*i), new, x)
        base.assign_fn(f)
        return
    if isinstance(rhs, NdArr):
        if rhs.ndim != arr.ndim:
            raise Unsupported("in-place broadcast")
        shapes_equal(E, arr.shape, rhs.shape, node)
        rhs = rhs.snapshot()
    old = arr.snapshot()
    kind = arr.kind

    def f(*i):
        x = old.get(*i)
        y = cast(rhs.get(*i) if isinstance(rhs, NdArr) else rhs, kind)
        if isinstance(op, ast.Mult):
            return x * y
        if isinstance(op, ast.Add):
            return x + y
        if isinstance(op, ast.Sub):
            return x - y
        if isinstance(op, ast.Div):
            return x / y
        if isinstance(op, ast.BitOr):
            return z3.Or(x, y)
        if isinstance(op, ast.BitAnd):
            return z3.And(x, y)
        raise Unsupported("in-place %s" % type(op).__name__)
    nanfn = None
    if old.cell.nan is not None or (isinstance(rhs, NdArr) and rhs.cell.nan is not None):
        nanfn = lambda *i: z3.Or(old.isnan(*i), rhs.isnan(*i) if isinstance(rhs, NdArr) else False)
    arr.assign_fn(f, nanfn)


class MaskedView:
    """a[boolean mask] before it is read or written"""

    def __init__(self, base, mask):
        self.base, self.mask = base, mask


# ----------------------------------------------------------------------------- indexing
def parse_index(E, arr, idx, node):
    """-> (shape, imap) of the view, or raises Advanced for mask / integer-array indexing"""
    from .pymodel import norm_index, clamp_slice
    if not isinstance(idx, tuple):
        idx = (idx,)
    if any(x is Ellipsis for x in idx):
        raise Unsupported("ellipsis index")
    if any(isinstance(x, (NdArr, list, SList, tuple)) for x in idx):
        raise Advanced()
    if sum(1 for x in idx if x is not None) > arr.ndim:
        E.raise_("IndexError", node, "safety")
    comps = []     # per old view dim: ('fix', c) | ('dim', off, stride, length)
    d = 0
    new_axes = []
    order = []     # output dims in order: ('old', od) | ('new',)
    for x in idx:
        if x is None:
            order.append(("new",))
            continue
        order.append(("old", d))
        n = arr.shape[d]
        if isinstance(x, slice):
            r = clamp_slice(x, n)
            if isinstance(r[0], str) and r[0] == "rev":
                comps.append(("dim", z(n) - 1 if not conc(n) else n - 1, -1, n))
            else:
                comps.append(("dim", r[0], 1, r[1]))
        else:
            if not is_int_like(x):
                if isinstance(x, bool) or is_bool_like(x):
                    raise Unsupported("boolean scalar index")
                E.raise_("IndexError", node, "safety")
            comps.append(("fix", norm_index(E, x, n, node)))
        d += 1
    while d < arr.ndim:
        comps.append(("dim", 0, 1, arr.shape[d]))
        order.append(("old", d))
        d += 1
    shape, newdim = [], {}
    for o in order:
        if o[0] == "new":
            shape.append(1)            # numpy.newaxis: a dimension of length 1 that no base index depends on
            continue
        od = o[1]
        c = comps[od]
        if c[0] == "dim":
            newdim[od] = len(shape)
            shape.append(c[3])
    imap = []
    for ent in arr.imap:
        if ent[0] == "fix":
            imap.append(ent)
            continue
        _, od, off0, st0 = ent
        c = comps[od]
        if c[0] == "fix":
            imap.append(("fix", lin(off0, st0, c[1])))
        else:
            imap.append(("dim", newdim[od], lin(off0, st0, c[1]), st0 * c[2]))
    return tuple(shape), imap


def lin(off, st, v):
    if conc(off) and conc(st) and conc(v):
        return off + st * v
    if conc(st) and st == 1:
        return z3.simplify(z(off) + z(v))
    return z3.simplify(z(off) + z(st) * z(v))


class Advanced(Exception):
    pass


def getitem(R, E, arr, idx, node):
    try:
        shape, imap = parse_index(E, arr, idx, node)
    except Advanced:
        return advanced_get(R, E, arr, idx, node)
    if not shape:
        vidx = []
        v = arr.view((), imap)
        val = v.get()
        if arr.cell.nan is not None:
            flag = z3.simplify(v.isnan())
            if not z3.is_false(flag) and E.feasible(flag):
                from .values import NanReal
                return NanReal(z3.simplify(val), flag)
        return z3.simplify(val)
    return arr.view(shape, imap)


def setitem(R, E, arr, idx, val, node):
    try:
        shape, imap = parse_index(E, arr, idx, node)
    except Advanced:
        return advanced_set(R, E, arr, idx, val, node)
    dst = arr.view(shape, imap)
    dst._full = (isinstance(idx, slice) and idx == slice(None, None, None)) and arr.ndim == 1 and all(e == ("dim", 0, 0, 1) for e in arr.imap)
    E.note_write(arr, node)
    if not shape:
        if isinstance(val, NdArr):
            if all(conc(s) and s == 1 for s in val.shape):
                val = val.get(*[0] * val.ndim)
            else:
                E.raise_("ValueError", node, "safety")
        if val is NaN:
            dst.set((), z3.RealVal(0), nanval=True)
            return
        from .values import NanReal
        if isinstance(val, NanReal):
            dst.set((), cast(val.val, arr.kind), nanval=val.isnan)
            return
        if not is_num_like(val):
            raise Unsupported("store of %r in an array" % (val,))
        dst.set((), cast(val, arr.kind))
        return
    assign_view(E, dst, val, node)


def assign_view(E, dst, val, node):
    if isinstance(val, NdArr):
        src = val
        if src.ndim != dst.ndim:
            # numpy broadcasting of a lower-rank source: only (n,) into (n,1)/(1,n)-free cases here
            raise Unsupported("slice assignment between ranks %d and %d" % (src.ndim, dst.ndim))
        shapes_equal(E, dst.shape, src.shape, node, "slice-assign-shape")
        fs = src.snapshot()
        nanfn = (lambda *i: fs.isnan(*i)) if fs.cell.nan is not None else None
        dst.assign_fn(lambda *i: cast(fs.get(*i), dst.kind), nanfn)
        hook = getattr(dst.cell, "on_copy", None)
        if hook is not None:
            hook(dst.cell)          # ghost counting: the array gets a name again (lemma triggers cannot contain the lambda of the copy)
        return
    if val is NaN:
        dst.assign_fn(lambda *i: z3.RealVal(0), lambda *i: z3.BoolVal(True))
        return
    if isinstance(val, list):
        raise Unsupported("slice assignment from a list")
    if not is_num_like(val):
        raise Unsupported("slice assignment of %r" % (val,))
    dst.assign_fn(lambda *i: cast(val, dst.kind))
    hook = getattr(dst.cell, "on_fill", None)
    if hook is not None:
        if dst.ndim == 1 and all(e == ("dim", 0, 0, 1) for e in dst.imap) and getattr(dst, "_full", False):
            hook(cast(val, dst.kind), dst.cell)               # ghost counting: constant-fill lemma instance
        else:
            dst.cell.on_store = dst.cell.on_fill = None       # partial fill of a tracked array: counting facts are lost


def advanced_get(R, E, arr, idx, node):
    if isinstance(idx, NdArr) and idx.kind == "bool":
        if idx.ndim != 1 and idx.ndim != arr.ndim:
            raise Unsupported("mask rank")
        if getattr(E, "_augassign_target", False) or idx.ndim == arr.ndim and arr.ndim > 1:
            return MaskedView(arr, idx)
        return R.mask_select(E, arr, idx, node)
    return R.fancy_get(E, arr, idx, node)


def advanced_set(R, E, arr, idx, val, node):
    E.note_write(arr, node)
    if isinstance(idx, NdArr) and idx.kind == "bool" and not isinstance(val, NdArr) and idx.ndim == arr.ndim:
        shapes_equal(E, arr.shape, idx.shape, node)
        old, mask = arr.snapshot(), idx.snapshot()
        if val is NaN:
            raise Unsupported("masked NaN store")
        arr.assign_fn(lambda *i: z3.If(mask.get(*i), cast(val, arr.kind), old.get(*i)))
        return
    return R.fancy_set(E, arr, idx, val, node)


def materialize(R, E, v, node=None):
    """MaskedView -> the compressed array (ghost sel)"""
    if isinstance(v, MaskedView):
        return R.mask_select(E, v.base, v.mask, node)
    return v


# ----------------------------------------------------------------------------- attributes / methods
def arr_attr(R, E, arr, attr, node):
    if attr == "shape":
        return tuple(arr.shape)
    if attr == "dtype":
        return DType(getattr(arr.cell, "dtype_name", None) or {"real": "float64", "int": "int64", "bool": "bool"}[arr.kind])
    if attr == "ndim":
        return arr.ndim
    if attr == "T":
        if arr.ndim == 1:
            return arr
        if arr.ndim == 2:
            imap = []
            for ent in arr.imap:
                if ent[0] == "fix":
                    imap.append(ent)
                else:
                    imap.append(("dim", 1 - ent[1], ent[2], ent[3]))
            return arr.view((arr.shape[1], arr.shape[0]), imap)
    if attr == "size":
        r = 1
        for s in arr.shape:
            r = r * s if conc(r) and conc(s) else z(r) * z(s)
        return r
    if attr == "values":
        E.raise_("AttributeError", node, "safety")
    from .pymodel import MethodRef
    return MethodRef(arr, attr)


def arr_method(R, E, arr, name, args, kwargs, node):
    if name == "copy":
        return arr.copy()
    if name == "ravel" or name == "flatten":
        if arr.ndim == 1:
            return arr.copy() if name == "flatten" else arr
        if arr.ndim == 2 and conc(arr.shape[1]) and arr.shape[1] == 1:
            return getitem(R, E, arr, (slice(None, None, None), 0), node)
        if arr.ndim == 2 and conc(arr.shape[0]) and arr.shape[0] == 1:
            return getitem(R, E, arr, (0, slice(None, None, None)), node)
        if arr.ndim == 2 and not conc(arr.shape[1]) and not E.feasible(z(arr.shape[1]) != 1):
            # a single column on every path that reaches this point
            col = arr.view((arr.shape[0], 1), arr.imap)
            return getitem(R, E, col, (slice(None, None, None), 0), node)
        if arr.ndim == 2:
            # the entries in row-major order; only the length is modelled (values unconstrained: an over-approximation,
            # valid while the result is only read - writes through it would alias the source, so they are refused)
            m = E.int("ravel_len")
            a0, a1 = z(arr.shape[0]), z(arr.shape[1])
            E.assume(z3.And(m >= 0, z3.Implies(z3.And(a0 >= 1, a1 >= 1), m >= 1), z3.Implies(z3.Or(a0 == 0, a1 == 0), m == 0)))
            # the exact length is a product of two symbolic sizes: kept out of the first solver stages (non-linear), available in the last one
            E.axiom(z3.Implies(z3.And(a0 >= 0, a1 >= 0), m == a0 * a1), requested=False)
            out = NdArr.fresh("ravel", (m,), arr.kind, nan=arr.cell.nan is not None)
            out.cell.read_only_model = True
            return out
        raise Unsupported("ravel of a general 2-d array")
    if name == "astype":
        k = kind_of_dtype(args[0] if args else kwargs.get("dtype"))
        fs = arr.snapshot()
        return NdArr.from_fn(arr.cell.name, arr.shape, k, lambda *i: cast(fs.get(*i), k),
                             (lambda *i: fs.isnan(*i)) if fs.cell.nan is not None else None)
    if name == "sum":
        if arr.kind == "bool" and arr.ndim == 1 and not args and not kwargs:
            return R.mask_info(E, arr)[2]          # number of selected rows (ghost count of the mask)
        return R.np_sum(E, arr, *args, **kwargs)
    if name == "mean":
        return R.np_mean(E, arr, *args, **kwargs)
    if name == "std":
        axis = args[0] if args else kwargs.get("axis")
        if arr.ndim == 2 and axis == 0:
            return R.col_stat(E, arr, "std")
        raise Unsupported("std(axis=%r) of a %d-d array" % (axis, arr.ndim))
    if name == "reshape":
        return R.np_reshape(E, arr, *args, **kwargs)
    if name == "tolist" and all(conc(s) for s in arr.shape) and arr.ndim == 1:
        return [arr.get(i) for i in range(arr.shape[0])]
    if name == "fill":
        E.note_write(arr, node)
        v = args[0]
        if v is NaN:
            arr.assign_fn(lambda *i: z3.RealVal(0), lambda *i: z3.BoolVal(True))
        else:
            arr.assign_fn(lambda *i: cast(v, arr.kind))
        return None
    if name == "any":
        return R.np_any(E, arr)
    if name == "all":
        return R.np_all(E, arr)
    if name == "argsort":
        return R.fns["numpy.argsort"](E, arr, *args, **kwargs)
    if name == "max":
        return R.np_max(E, arr, *args, **kwargs)
    if name == "min":
        return R.np_min(E, arr, *args, **kwargs)
    if name == "prod":
        axis = args[0] if args else kwargs.get("axis")
        if arr.ndim == 2 and axis == 1 and isinstance(arr.shape[1], int):
            fs = arr.snapshot()
            w = arr.shape[1]

            def pr(r):
                v = z3.RealVal(1)
                for c in range(w):
                    v = v * fs.get(r, c)
                return v
            return NdArr.from_fn("prod", (arr.shape[0],), "real", pr)
        raise Unsupported("prod")
    if name == "todense":
        return arr
    if name == "sort":
        raise Unsupported("in-place sort")
    raise Unsupported("ndarray.%s at %s" % (name, E.where(node)))


# ----------------------------------------------------------------------------- functions
def shape_tuple(E, shape):
    if isinstance(shape, (list, tuple)):
        return tuple(shape)
    return (shape,)


def install(R):
    reg = R.register

    def check_dims(E, shape):
        for s in shape:
            if conc(s):
                if s < 0:
                    E.raise_("ValueError", None, "safety")
            else:
                E.safety("negative-dimension", z(s) >= 0, None, "ValueError")

    @reg("numpy.empty")
    def _empty(E, shape, dtype=None, **kw):
        shape = shape_tuple(E, shape)
        check_dims(E, shape)
        return NdArr.fresh("empty", shape, kind_of_dtype(dtype))

    @reg("numpy.full")
    def _full(E, shape, fill_value, dtype=None, **kw):
        shape = shape_tuple(E, shape)
        check_dims(E, shape)
        k = kind_of_dtype(dtype, "real" if fill_value is NaN else kind_of_scalar(fill_value))
        if fill_value is NaN:
            if k == "int":
                # numpy casts NaN to an integer dtype with a RuntimeWarning: the cells hold the smallest integer, not a missing value
                return NdArr.from_fn("full", shape, "int", lambda *i: z3.IntVal(-2 ** 63))
            if k == "bool":
                return NdArr.from_fn("full", shape, "bool", lambda *i: z3.BoolVal(True))
            return NdArr.from_fn("full", shape, "real", lambda *i: z3.RealVal(0), lambda *i: z3.BoolVal(True))
        return NdArr.from_fn("full", shape, k, lambda *i: cast(fill_value, k))

    def _like(name, fill):
        @reg("numpy." + name)
        def _f(E, a, *rest, dtype=None, shape=None, **kw):
            """numpy.<x>_like(a, dtype=None, shape=None): the dtype (here: kind) and shape of `a` unless overridden"""
            if not isinstance(a, NdArr):
                raise Unsupported("%s(%r)" % (name, a))
            if name == "full_like":
                fv = rest[0] if rest else kw.get("fill_value")
            k = kind_of_dtype(dtype, a.kind)
            shp = shape_tuple(E, shape) if shape is not None else tuple(a.shape)
            check_dims(E, shp)
            if name == "empty_like":
                return NdArr.fresh("empty_like", shp, k)
            if name == "full_like":
                return _full(E, shp, fv, dtype=DType("float64" if k == "real" else ("int64" if k == "int" else "bool")))
            return NdArr.from_fn(name, shp, k, lambda *i: cast(fill, k))
        return _f
    _like("empty_like", None)
    _like("zeros_like", 0)
    _like("ones_like", 1)
    _like("full_like", None)

    @reg("numpy.zeros")
    def _zeros(E, shape, dtype=None, **kw):
        shape = shape_tuple(E, shape)
        check_dims(E, shape)
        k = kind_of_dtype(dtype)
        return NdArr.from_fn("zeros", shape, k, lambda *i: cast(0, k))

    @reg("numpy.ones")
    def _ones(E, shape, dtype=None, **kw):
        shape = shape_tuple(E, shape)
        check_dims(E, shape)
        k = kind_of_dtype(dtype)
        return NdArr.from_fn("ones", shape, k, lambda *i: cast(1, k))

    @reg("numpy.arange")
    def _arange(E, *a, **kw):
        if len(a) == 1:
            lo, hi = 0, a[0]
        else:
            lo, hi = a[0], a[1]
        n = hi - lo if conc(hi) and conc(lo) else z3.If(z(hi) - z(lo) >= 0, z(hi) - z(lo), 0)
        return NdArr.from_fn("arange", (n,), "int", lambda i: z(lo) + i)

    @reg("numpy.array")
    def _array(E, v, dtype=None, **kw):
        if isinstance(v, NdArr):
            return v.copy() if kw.get("copy", True) else v
        if isinstance(v, (list, tuple)):
            items = list(v)
            if all(is_num_like(x) or x is NaN for x in items):
                k = kind_of_dtype(dtype, "real" if any(is_real_like(x) or x is NaN for x in items) else
                                  ("bool" if items and all(is_bool_like(x) for x in items) else "int"))
                arr = NdArr.fresh("array", (len(items),), k)
                for i, x in enumerate(items):
                    if x is NaN:
                        arr.set((i,), z3.RealVal(0), nanval=True)
                    else:
                        arr.set((i,), cast(x, k))
                arr.cell.writes = 0
                return arr
        if isinstance(v, SList):
            k = kind_of_dtype(dtype, "real" if v.sort == z3.RealSort() else "int")
            fs = v.snapshot()
            return NdArr.from_fn("array", (v.length,), k, lambda i: cast(z3.Select(fs.term, i), k),
                                 (lambda i: fs.isnan(i)) if fs.nan is not None else None)
        from .engine import SymSeq
        if isinstance(v, SymSeq):
            # a lazy sequence of scalars: the array of its elements (kind from one generic element)
            pk = z3.Int(fresh_name("probe"))
            probe = E.side_eval(z3.And(pk >= 0, pk < z(v.length)), lambda: v.item(pk))
            if is_num_like(probe):
                k = kind_of_dtype(dtype, "real" if is_real_like(probe) else ("bool" if is_bool_like(probe) else "int"))
                ik = z3.Int(fresh_name("ai"))
                body = E.side_eval(z3.And(ik >= 0, ik < z(v.length)), lambda: cast(v.item(ik), k))
                return NdArr((v.length,), Cell(z3.Lambda([ik], body), 1, name="array"), kind=k)
        hook = getattr(R, "np_array_hook", None)
        if hook is not None:
            r = hook(E, v, dtype, kw)
            if r is not None:
                return r
        raise Unsupported("numpy.array(%r)" % (v,))

    def _asarray(E, v, dtype=None, **kw):
        """numpy.asarray: the SAME array when no conversion is needed (an alias of the caller's data), a converted copy otherwise"""
        if isinstance(v, NdArr):
            if dtype is None or kind_of_dtype(dtype, v.kind) == v.kind:
                return v
            return arr_method(R, E, v, "astype", [dtype], {}, None)
        return _array(E, v, dtype)
    R.fns["numpy.asarray"] = _asarray

    def _into_out(E, res, kw):
        """ufunc(..., out=buffer): the result is written into the buffer, which is returned"""
        out = kw.get("out")
        if out is None:
            return res
        if not isinstance(out, NdArr) or not isinstance(res, NdArr):
            raise Unsupported("out=%r" % (out,))
        E.note_write(out, None)
        assign_view(E, out, res, None)
        return out

    def unary(name, fn, kind=None):
        @reg("numpy." + name)
        def _u(E, a, *rest, **kw):
            if isinstance(a, NdArr):
                return _into_out(E, arr_map(E, fn, [a], kind or a.kind), kw)
            if is_num_like(a):
                r = fn(znum(a))
                return z3.simplify(r)
            raise Unsupported("numpy.%s(%r)" % (name, a))
        return _u

    unary("abs", lambda x: z3.If(x >= 0, x, -x))
    unary("absolute", lambda x: z3.If(x >= 0, x, -x))
    unary("sign", lambda x: z3.If(x > 0, cast(1, "real" if z3.is_real(x) else "int"),
                                  z3.If(x < 0, cast(-1, "real" if z3.is_real(x) else "int"),
                                        cast(0, "real" if z3.is_real(x) else "int"))))
    unary("reciprocal", lambda x: 1 / cast(x, "real"), "real")
    unary("logical_not", lambda x: z3.Not(zbool(x)), "bool")

    def binary(name, fn, kind=None):
        @reg("numpy." + name)
        def _b(E, a, b, *rest, **kw):
            if isinstance(a, NdArr) or isinstance(b, NdArr):
                ka = a.kind if isinstance(a, NdArr) else kind_of_scalar(a)
                kb = b.kind if isinstance(b, NdArr) else kind_of_scalar(b)
                k = kind or join_kind(ka, kb)
                return _into_out(E, arr_map(E, lambda x, y: fn(cast(x, k if kind is None else join_kind(ka, kb)),
                                                               cast(y, k if kind is None else join_kind(ka, kb))), [a, b], k), kw)
            if kw.get("out") is not None:
                raise Unsupported("numpy.%s of scalars with out=" % name)
            return z3.simplify(fn(znum(a), znum(b)))
        return _b

    binary("maximum", lambda x, y: z3.If(x >= y, x, y))
    binary("minimum", lambda x, y: z3.If(x <= y, x, y))
    binary("logical_or", lambda x, y: z3.Or(zbool(x), zbool(y)), "bool")
    binary("logical_and", lambda x, y: z3.And(zbool(x), zbool(y)), "bool")
    binary("multiply", lambda x, y: x * y)

    @reg("numpy.isnan")
    def _isnan(E, a):
        if isinstance(a, NdArr):
            fs = a.snapshot()
            return NdArr.from_fn("isnan", a.shape, "bool", lambda *i: fs.isnan(*i))
        if a is NaN:
            return True
        from .values import NanReal
        if isinstance(a, NanReal):
            return a.isnan if not isinstance(a.isnan, bool) else a.isnan
        if is_num_like(a):
            return False
        raise Unsupported("isnan(%r)" % (a,))

    @reg("numpy.squeeze")
    def _squeeze(E, a, **kw):
        if isinstance(a, NdArr):
            if a.ndim == 1:
                if conc(a.shape[0]) and a.shape[0] == 1:
                    raise Unsupported("squeeze to 0-d")
                # a length-1 vector would become 0-d: excluded by the callers' preconditions (n >= 2)
                E.assume(z(a.shape[0]) != 1) if not conc(a.shape[0]) else None
                E.note_assumption("numpy.squeeze: 1-d input of length != 1 is returned unchanged")
                return a
            if a.ndim == 2 and conc(a.shape[1]) and a.shape[1] == 1:
                return getitem(R, E, a, (slice(None, None, None), 0), None)
        raise Unsupported("squeeze")

    @reg("numpy.ma.masked_array")
    def _masked(E, data, mask=None, **kw):
        """numpy.ma.masked_array(data, mask): an all-false mask gives the data; otherwise the masked array is the data with the mask as
        per-cell flag (cell.masked): operations propagate the flag (arr_map), numpy.sum skips flagged cells (ghost.sum1)"""
        if mask is None:
            return data
        if not isinstance(mask, NdArr) or not isinstance(data, NdArr):
            raise Unsupported("masked_array(%r, %r)" % (data, mask))
        idx = [z3.Int(fresh_name("mi")) for _ in mask.shape]
        inb = z3.And(*[z3.And(i >= 0, i < z(s)) for i, s in zip(idx, mask.shape)])
        if not E.feasible(z3.And(inb, mask.get(*idx))):
            return data
        shapes_equal(E, data.shape, mask.shape, None, "mask-shape")
        fd, fm = data.snapshot(), mask.snapshot()
        if fd.cell.nan is not None:
            # model limit stated as an obligation: a NaN of the data that the mask does not cover would flow into the sums as NaN
            E.safety("masked-array-covers-every-nan", z3.ForAll(idx, z3.Implies(z3.And(inb, fd.isnan(*idx)), fm.get(*idx))), None, "ValueError")
        out = NdArr.from_fn("masked", data.shape, data.kind, lambda *i: fd.get(*i), lambda *i: zbool(fm.get(*i)))
        out.cell.masked = True
        return out

    @reg("numpy.hstack")
    def _hstack(E, parts, **kw):
        parts = list(parts)
        if not all(isinstance(p, NdArr) for p in parts):
            raise Unsupported("hstack of non-arrays")
        if all(p.ndim == 2 for p in parts):
            rows = parts[0].shape[0]
            for p in parts[1:]:
                shapes_equal(E, (rows,), (p.shape[0],), None, "hstack-rows")
            fs = [p.snapshot() for p in parts]
            offs, tot = [], 0
            for p in parts:
                offs.append(tot)
                tot = tot + p.shape[1] if conc(tot) and conc(p.shape[1]) else z3.simplify(z(tot) + z(p.shape[1]))

            def f(r, c):
                val = fs[-1].get(r, c - z(offs[-1]))
                for p, o in reversed(list(zip(fs[:-1], offs[:-1]))):
                    val = z3.If(c < z(o) + z(p.shape[1]), p.get(r, c - z(o)), val)
                return val
            # numpy promotes: the result is real as soon as one part is
            kinds = {p.kind for p in parts}
            hk = parts[0].kind if len(kinds) == 1 else ("real" if "real" in kinds else "int")

            def f_(r, c, f=f):
                v = f(r, c)
                return cast(v, hk)
            res_ = NdArr.from_fn("hstack", (rows, tot), hk, f_ if len(kinds) > 1 else f)
            E.trace.append(dict(op="hstack", parts=parts, result=res_))
            return res_
        raise Unsupported("hstack of 1-d arrays")

    @reg("numpy.result_type")
    def _result_type(E, *dts):
        """the dtype able to hold all the given ones, at the granularity the executor tracks (bool < int < real)"""
        ks = []
        for d in dts:
            if isinstance(d, NdArr):
                ks.append(d.kind)
            elif isinstance(d, (DType, ExternFn, str)):
                ks.append(kind_of_dtype(d))
            elif is_num_like(d):
                ks.append(kind_of_scalar(d))
            else:
                raise Unsupported("result_type(%r)" % (d,))
        if "real" in ks:
            return DType("float64")
        return DType("int64") if "int" in ks else DType("bool")

    @reg("numpy.cumsum")
    def _cumsum(E, v, **kw):
        """running sums of a list of known length (numbers, possibly symbolic)"""
        if isinstance(v, (list, tuple)) and all(is_num_like(x) for x in v):
            k = "real" if any(is_real_like(x) for x in v) else "int"
            arr = NdArr.fresh("cumsum", (len(v),), k)
            tot = None
            for i, x in enumerate(v):
                tot = cast(x, k) if tot is None else z3.simplify(tot + cast(x, k))
                arr.set((i,), tot)
            arr.cell.writes = 0
            return arr
        raise Unsupported("cumsum of %r" % (v,))

    @reg("numpy.sort")
    def _sort(E, a, **kw):
        return R.np_sort(E, a, **kw)

    @reg("numpy.sum")
    def _sum(E, a, *rest, **kw):
        return R.np_sum(E, a, *rest, **kw)

    @reg("numpy.mean")
    def _mean(E, a, *rest, **kw):
        return R.np_mean(E, a, *rest, **kw)
