"""Overlay: a scratch copy of /repo/mlinsights (current working tree) in which the real code can
run under /venv/bin/python.  Created with mkdtemp outside /repo and /verif, removed by the caller.

* a sitecustomize-like shim registers sklearn.utils._joblib (removed from scikit-learn) so that
  mlinsights.mlmodel imports;
* optionally the six .pyx files are compiled with the installed Cython (needed for mltree and
  PiecewiseTreeRegressor).
No file of /repo is touched.
"""
import os
import shutil
import subprocess
import sys
import tempfile

VENV_PY = "/venv/bin/python"

SHIM = '''
import sys, types
try:
    import sklearn.utils._joblib  # noqa
except Exception:
    import joblib
    m = types.ModuleType("sklearn.utils._joblib")
    m.Parallel = joblib.Parallel
    m.delayed = joblib.delayed
    sys.modules["sklearn.utils._joblib"] = m
'''

SETUP = '''
import numpy, os
from setuptools import setup, Extension
from Cython.Build import cythonize
exts = []
for root, _, files in os.walk("mlinsights"):
    for f in files:
        if f.endswith(".pyx"):
            p = os.path.join(root, f)
            exts.append(Extension(p[:-4].replace(os.sep, "."), [p], include_dirs=[numpy.get_include()],
                                  language="c++", define_macros=[("NPY_NO_DEPRECATED_API", "NPY_1_7_API_VERSION")]))
setup(name="ovl", ext_modules=cythonize(exts, language_level=3, quiet=True), script_args=["build_ext", "--inplace", "-j", "8"])
'''


def build(repo_root="/repo", cython=False, quiet=True):
    d = tempfile.mkdtemp(prefix="mlins_ovl_")
    shutil.copytree(os.path.join(repo_root, "mlinsights"), os.path.join(d, "mlinsights"),
                    ignore=shutil.ignore_patterns("__pycache__", "*.so", "*.c", "*.cpp"))
    with open(os.path.join(d, "sitecustomize.py"), "w") as f:
        f.write(SHIM)
    if cython:
        with open(os.path.join(d, "_ovl_setup.py"), "w") as f:
            f.write(SETUP)
        p = subprocess.run([VENV_PY, "_ovl_setup.py"], cwd=d, capture_output=True, text=True)
        if p.returncode != 0:
            shutil.rmtree(d, ignore_errors=True)
            raise RuntimeError("cython overlay build failed:\n" + p.stdout[-2000:] + p.stderr[-3000:])
        shutil.rmtree(os.path.join(d, "build"), ignore_errors=True)
    return d


def env_for(d):
    env = dict(os.environ)
    env["PYTHONPATH"] = d + os.pathsep + os.path.dirname(os.path.dirname(os.path.abspath(__file__)))
    env["PYTHONDONTWRITEBYTECODE"] = "1"
    env.pop("PYTHONHOME", None)
    return env


def run(d, args, timeout=3600, **kw):
    return subprocess.run([VENV_PY] + list(args), env=env_for(d), capture_output=True, text=True,
                          timeout=timeout, **kw)


def remove(d):
    shutil.rmtree(d, ignore_errors=True)


if __name__ == "__main__":
    # python3 -m pyvc.overlay [--cython] -- cmd...   (debug helper: runs a command in a fresh overlay)
    cy = "--cython" in sys.argv
    i = sys.argv.index("--")
    d = build(cython=cy)
    try:
        p = subprocess.run([VENV_PY] + sys.argv[i + 1:], env=env_for(d))
        sys.exit(p.returncode)
    finally:
        remove(d)
