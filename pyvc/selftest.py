"""python3-vt -m pyvc.selftest : offline sanity check of the engine and the solvers (setup_cmd)."""
import subprocess
import sys


def main():
    import z3
    ok = True
    for cmd in (["z3-new", "--version"], ["/usr/bin/cvc5", "--version"]):
        try:
            out = subprocess.run(cmd, capture_output=True, text=True, timeout=20).stdout.splitlines()[0]
            print("solver:", out)
        except Exception as e:
            print("MISSING solver", cmd, e)
            ok = False
    from .selftest_cases import run_all
    ok = run_all() and ok
    print("pyvc selftest", "OK" if ok else "FAILED")
    return 0 if ok else 1


if __name__ == "__main__":
    sys.exit(main())
