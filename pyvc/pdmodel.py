"""pandas.DataFrame / Series model (assumed contracts): a frame is a list of named columns, each a Python list of cells
(program-constant number of rows); a cell is a symbolic string / number, None or NaN (missing)."""
import z3

from .values import NdArr, Obj, Opaque, NaN, Unsupported, is_sym, z, is_num_like
from .engine import ExternFn, PySet


def new_frame(cols, data, index=None):
    o = Obj("DataFrame", tag="DataFrame")
    o.fields["$cols"] = list(cols)
    o.fields["$data"] = {c: list(data[c]) for c in cols}
    o.fields["$index"] = index if index is not None else Opaque(z3.Const("index", z3.DeclareSort("Index")), "index")
    o.fields["$bases"] = ["DataFrame"]
    return o


def new_series(name, cells, index=None):
    o = Obj("Series", tag="Series")
    o.fields["$name"] = name
    o.fields["$cells"] = list(cells)
    o.fields["$index"] = index
    o.fields["$bases"] = ["Series"]
    return o


def nrows(df):
    d = df.fields.get("$data")
    if d is not None:
        return len(next(iter(d.values()))) if d else df.fields.get("$nrows", 0)
    return df.fields["$matrix"].shape[0]


def is_missing(v):
    return v is None or v is NaN


def install(R):
    def attr(E, base, attr_, node):
        if isinstance(base, Obj) and base.tag == "DataFrame":
            if attr_ == "columns":
                return list(base.fields["$cols"])
            if attr_ == "dtypes":
                out = []
                for c in base.fields["$cols"]:
                    cells = base.fields["$data"][c]
                    strs = any(is_sym(v) and z3.is_string(v) or isinstance(v, str) for v in cells)
                    out.append(ExternFn("builtin.object") if strs else R_float)
                return out
            if attr_ == "shape":
                return (nrows(base), len(base.fields["$cols"]))
            if attr_ == "index":
                return base.fields["$index"]
        return NotImplemented
    from .npmodel import DType
    R_float = DType("float64")
    R.attr_hooks.append(attr)

    def getitem_hook(E, base, idx, node):
        if isinstance(base, Obj) and base.tag == "DataFrame":
            if isinstance(idx, list):
                for c in idx:
                    if c not in base.fields["$cols"]:
                        E.raise_("KeyError", node, "safety")
                return new_frame(idx, base.fields["$data"], base.fields["$index"]) if idx else _empty_like(base)
            if isinstance(idx, str):
                if idx not in base.fields["$cols"]:
                    E.raise_("KeyError", node, "safety")
                return new_series(idx, base.fields["$data"][idx], base.fields["$index"])
            raise Unsupported("DataFrame[%r]" % (idx,))
        return NotImplemented
    R.getitem_hook = getitem_hook

    def _empty_like(base):
        o = new_frame([], {}, base.fields["$index"])
        o.fields["$nrows"] = nrows(base)
        return o

    def setitem_hook(E, base, idx, v, node):
        if isinstance(base, Obj) and base.tag == "DataFrame" and isinstance(idx, str) and isinstance(v, Obj) and v.tag == "Series":
            if idx not in base.fields["$cols"]:
                base.fields["$cols"].append(idx)
            base.fields["$data"][idx] = list(v.fields["$cells"])
            base.events.append(("set", idx))
            return None
        return NotImplemented
    R.setitem_hook = setitem_hook

    def len_hook(E, v):
        if isinstance(v, Obj) and v.tag == "DataFrame":
            return nrows(v)
        if isinstance(v, Obj) and v.tag == "Series":
            return len(v.fields["$cells"])
        return None
    R.len_hook = len_hook

    def iter_hook(E, v, node):
        from .engine import IterSpec
        if isinstance(v, Obj) and v.tag == "Series":
            return IterSpec(concrete=list(v.fields["$cells"]))
        return None
    R.iter_hook = iter_hook

    prev_set_hook = getattr(R, "set_hook", None)

    def set_hook(E, v):
        if isinstance(v, Obj) and v.tag == "Series":
            from .pymodel import equal
            ps = PySet([])
            for cell in v.fields["$cells"]:
                if not any(E.branch(equal(R, E, cell, y, None)) for y in ps.items):
                    ps.items.append(cell)
            return ps
        return prev_set_hook(E, v) if prev_set_hook is not None else None
    R.set_hook = set_hook

    def m_copy(E, recv, args, kwargs, node):
        o = new_frame(recv.fields["$cols"], recv.fields["$data"], recv.fields["$index"])
        o.fields["$copy_of"] = recv
        return o
    R.methods[("DataFrame", "copy")] = m_copy

    def m_to_dict(E, recv, args, kwargs, node):
        if (args and args[0] != "records") or (not args and kwargs.get("orient") != "records"):
            raise Unsupported("to_dict orient")
        cols = recv.fields["$cols"]
        return [{c: recv.fields["$data"][c][i] for c in cols} for i in range(nrows(recv))]
    R.methods[("DataFrame", "to_dict")] = m_to_dict

    def m_dropna(E, recv, args, kwargs, node):
        return new_series(recv.fields["$name"], [c for c in recv.fields["$cells"] if not is_missing(c)], recv.fields["$index"])
    R.methods[("Series", "dropna")] = m_dropna

    def m_apply(E, recv, args, kwargs, node):
        fn = args[0]
        return new_series(recv.fields["$name"], [E.call(fn, [c], {}) for c in recv.fields["$cells"]], recv.fields["$index"])
    R.methods[("Series", "apply")] = m_apply

    def df_ctor(E, data=None, columns=None, index=None, **kw):
        o = Obj("DataFrame", tag="DataFrame")
        o.fields["$bases"] = ["DataFrame"]
        o.fields["$matrix"] = data
        o.fields["$cols"] = list(columns) if columns is not None else None
        o.fields["$index"] = index
        return o
    R.fns["pandas.DataFrame"] = df_ctor

    def concat(E, parts, axis=0, **kw):
        o = Obj("DataFrame", tag="DataFrame")
        o.fields["$bases"] = ["DataFrame"]
        o.fields["$parts"] = list(parts)
        o.fields["$axis"] = axis
        return o
    R.fns["pandas.concat"] = concat
