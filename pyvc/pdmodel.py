"""pandas.DataFrame / Series model (assumed contracts): a frame is a list of named columns, each a Python list of cells
(program-constant number of rows); a cell is a symbolic string / number, None or NaN (missing)."""
import z3

from .values import NdArr, Obj, Opaque, NaN, Unsupported, is_sym, z, is_num_like
from .engine import ExternFn, PySet


def new_frame(cols, data, index=None):
    o = Obj("DataFrame", tag="DataFrame")
    o.fields["$cols"] = list(cols)
    o.fields["$data"] = {c: list(data[c]) for c in cols}
    o.fields["$index"] = index if index is not None else Opaque(z3.Const("index", z3.DeclareSort("Index")), "index")
    o.fields["$bases"] = ["DataFrame"]
    return o


def new_series(name, cells, index=None):
    o = Obj("Series", tag="Series")
    o.fields["$name"] = name
    o.fields["$cells"] = list(cells)
    o.fields["$index"] = index
    o.fields["$bases"] = ["Series"]
    return o


def nrows(df):
    d = df.fields.get("$data")
    if d is not None:
        return len(next(iter(d.values()))) if d else df.fields.get("$nrows", 0)
    return df.fields["$matrix"].shape[0]


def is_missing(v):
    return v is None or v is NaN


def install(R):
    def attr(E, base, attr_, node):
        if isinstance(base, Obj) and base.tag == "DataFrame":
            if attr_ == "columns":
                return list(base.fields["$cols"])
            if attr_ == "dtypes":
                out = []
                for c in base.fields["$cols"]:
                    cells = base.fields["$data"][c]
                    strs = any(is_sym(v) and z3.is_string(v) or isinstance(v, str) for v in cells)
                    out.append(ExternFn("builtin.object") if strs else R_float)
                return out
            if attr_ == "shape":
                return (nrows(base), len(base.fields["$cols"]))
            if attr_ == "index":
                return base.fields["$index"]
        return NotImplemented
    from .npmodel import DType
    R_float = DType("float64")
    R.attr_hooks.append(attr)

    def getitem_hook(E, base, idx, node):
        if isinstance(base, Obj) and base.tag == "DataFrame":
            if isinstance(idx, list):
                for c in idx:
                    if c not in base.fields["$cols"]:
                        E.raise_("KeyError", node, "safety")
                return new_frame(idx, base.fields["$data"], base.fields["$index"]) if idx else _empty_like(base)
            if isinstance(idx, str):
                if idx not in base.fields["$cols"]:
                    E.raise_("KeyError", node, "safety")
                return new_series(idx, base.fields["$data"][idx], base.fields["$index"])
            raise Unsupported("DataFrame[%r]" % (idx,))
        return NotImplemented
    R.getitem_hook = getitem_hook

    def _empty_like(base):
        o = new_frame([], {}, base.fields["$index"])
        o.fields["$nrows"] = nrows(base)
        return o

    def setitem_hook(E, base, idx, v, node):
        if isinstance(base, Obj) and base.tag == "DataFrame" and isinstance(idx, str) and isinstance(v, Obj) and v.tag == "Series":
            if idx not in base.fields["$cols"]:
                base.fields["$cols"].append(idx)
            base.fields["$data"][idx] = list(v.fields["$cells"])
            base.events.append(("set", idx))
            return None
        return NotImplemented
    R.setitem_hook = setitem_hook

    def len_hook(E, v):
        if isinstance(v, Obj) and v.tag == "DataFrame":
            return nrows(v)
        if isinstance(v, Obj) and v.tag == "Series":
            return len(v.fields["$cells"])
        return None
    R.len_hook = len_hook

    def iter_hook(E, v, node):
        from .engine import IterSpec
        if isinstance(v, Obj) and v.tag == "Series":
            return IterSpec(concrete=list(v.fields["$cells"]))
        return None
    R.iter_hook = iter_hook

    prev_set_hook = getattr(R, "set_hook", None)

    def set_hook(E, v):
        if isinstance(v, Obj) and v.tag == "Series":
            from .pymodel import equal
            ps = PySet([])
            for cell in v.fields["$cells"]:
                if not any(E.branch(equal(R, E, cell, y, None)) for y in ps.items):
                    ps.items.append(cell)
            return ps
        return prev_set_hook(E, v) if prev_set_hook is not None else None
    R.set_hook = set_hook

    def m_copy(E, recv, args, kwargs, node):
        o = new_frame(recv.fields["$cols"], recv.fields["$data"], recv.fields["$index"])
        o.fields["$copy_of"] = recv
        return o
    R.methods[("DataFrame", "copy")] = m_copy

    def m_to_dict(E, recv, args, kwargs, node):
        if (args and args[0] != "records") or (not args and kwargs.get("orient") != "records"):
            raise Unsupported("to_dict orient")
        cols = recv.fields["$cols"]
        return [{c: recv.fields["$data"][c][i] for c in cols} for i in range(nrows(recv))]
    R.methods[("DataFrame", "to_dict")] = m_to_dict

    def m_dropna(E, recv, args, kwargs, node):
        return new_series(recv.fields["$name"], [c for c in recv.fields["$cells"] if not is_missing(c)], recv.fields["$index"])
    R.methods[("Series", "dropna")] = m_dropna

    def m_apply(E, recv, args, kwargs, node):
        fn = args[0]
        return new_series(recv.fields["$name"], [E.call(fn, [c], {}) for c in recv.fields["$cells"]], recv.fields["$index"])
    R.methods[("Series", "apply")] = m_apply

    def df_ctor(E, data=None, columns=None, index=None, **kw):
        o = Obj("DataFrame", tag="DataFrame")
        o.fields["$bases"] = ["DataFrame"]
        o.fields["$matrix"] = data
        o.fields["$cols"] = list(columns) if columns is not None else None
        o.fields["$index"] = index
        return o
    R.fns["pandas.DataFrame"] = df_ctor

    # ------------------------------------------------------------------ numeric frames: a matrix with labels ($matrix, $cols, $index)
    def numeric_frame(matrix, cols, index):
        o = Obj("DataFrame", tag="DataFrame")
        o.fields["$bases"] = ["DataFrame"]
        o.fields["$matrix"], o.fields["$cols"], o.fields["$index"] = matrix, cols, index
        return o
    R.numeric_frame = numeric_frame

    def is_numeric_frame(v):
        return isinstance(v, Obj) and v.tag == "DataFrame" and isinstance(v.fields.get("$matrix"), NdArr)

    prev_hasattr = R.opaque_hasattr

    def frame_hasattr(E, v, attr_):
        if isinstance(v, Obj) and v.tag in ("DataFrame", "Series"):
            return attr_ in ("iloc", "loc", "values", "columns", "index", "shape", "copy", "corr", "dtypes", "to_dict", "dropna", "apply")
        return prev_hasattr(E, v, attr_)
    R.opaque_hasattr = frame_hasattr

    def attr_numeric(E, base, attr_, node):
        if is_numeric_frame(base):
            if attr_ == "iloc":
                o = Obj("ILoc", tag="ILoc")
                o.fields["$frame"] = base
                return o
            if attr_ == "values":
                return base.fields["$matrix"]
            if attr_ == "shape":
                return tuple(base.fields["$matrix"].shape)
            if attr_ == "columns":
                return base.fields["$cols"]
        return NotImplemented
    R.attr_hooks.insert(0, attr_numeric)

    prev_get, prev_set = R.getitem_hook, R.setitem_hook

    def getitem_iloc(E, base, idx, node):
        if isinstance(base, Obj) and base.tag == "ILoc":
            return E.getitem(base.fields["$frame"].fields["$matrix"], idx, node)
        return prev_get(E, base, idx, node)
    R.getitem_hook = getitem_iloc

    def setitem_iloc(E, base, idx, v, node):
        if isinstance(base, Obj) and base.tag == "ILoc":
            fr = base.fields["$frame"]
            E.setitem(fr.fields["$matrix"], idx, v, node)
            fr.events.append(("set", "iloc"))
            return None
        return prev_set(E, base, idx, v, node)
    R.setitem_hook = setitem_iloc

    def m_corr(E, recv, args, kwargs, node):
        """pandas DataFrame.corr(): a square frame labelled by the columns on both sides; an entry is NaN for a constant column (0/0)"""
        if not is_numeric_frame(recv):
            raise Unsupported("corr of a non-numeric frame")
        d = recv.fields["$matrix"].shape[1]
        return numeric_frame(NdArr.fresh("corr", (d, d), "real", True), recv.fields["$cols"], recv.fields["$cols"])
    R.methods[("DataFrame", "corr")] = m_corr

    def m_copy_any(E, recv, args, kwargs, node):
        if is_numeric_frame(recv):
            o = numeric_frame(recv.fields["$matrix"].copy(), recv.fields["$cols"], recv.fields["$index"])
            o.fields["$copy_of"] = recv
            return o
        return m_copy(E, recv, args, kwargs, node)
    R.methods[("DataFrame", "copy")] = m_copy_any

    def binop_hook(E, op, a, b, node):
        """frame <op> number: the same labels around the element-wise result"""
        if is_numeric_frame(a) and is_num_like(b):
            from .npmodel import arr_binop
            return numeric_frame(arr_binop(R, E, op, a.fields["$matrix"], b, node), a.fields["$cols"], a.fields["$index"])
        return NotImplemented
    R.binop_hook = binop_hook

    prev_scale = R.fns.get("sklearn.preprocessing.scale")

    def scale(E, X, **kw):
        if is_numeric_frame(X):
            return prev_scale(E, X.fields["$matrix"], **kw)
        return prev_scale(E, X, **kw)
    if prev_scale is not None:
        R.fns["sklearn.preprocessing.scale"] = scale

    def concat(E, parts, axis=0, **kw):
        o = Obj("DataFrame", tag="DataFrame")
        o.fields["$bases"] = ["DataFrame"]
        o.fields["$parts"] = list(parts)
        o.fields["$axis"] = axis
        return o
    R.fns["pandas.concat"] = concat
