"""Differential self-test of the executor against CPython + numpy (DESIGN 2.3).

Each snippet below is a small Python function exercising one modelled piece of Python / numpy semantics (slices with
clamping and negative bounds, slice assignment through views, in-place operators through aliases, boolean masks, hstack,
newaxis, floor division, dicts, strings, sorting ...).  The snippet is executed (a) by CPython with numpy and (b) by the pyvc
executor on the same concrete inputs; the results must agree exactly (reals as fractions), including the raised exception
class.  A disagreement means the executor's model of the language is wrong: the run fails (exit 1) and nothing proved with
the engine should be believed.

    python3-vt -m pyvc.difftest
"""
import sys
from fractions import Fraction

import numpy
import z3

from .api import make_registry
from .engine import Exec, Raised, Closure, GenResult
from .frontend import Repo, RepoModule
from .values import NdArr, NaN, NanReal, SList, Unsupported, is_sym

SNIPPETS = '''
import numpy

def s_slices(a):
    return a[1:], a[:-1], a[-3:], a[2:100], a[5:2], a[::-1], a[-100:2]

def s_slice_assign(a, b):
    a[1:3] = b[:2]
    a[-1] = 7
    return a

def s_view_alias(a):
    v = a[1:4]
    v[0] = 10
    v *= 2
    w = v[::-1]
    w[0] = -1
    return a, v, w

def s_2d(a):
    a[:, 1] = a[:, 0] + 1
    r = a[1]
    r[0] = 100
    return a, a[1:, :2], a.T[0], a[:, -1]

def s_full_empty(n):
    x = numpy.zeros((n, 2))
    x[:] = 3
    y = numpy.ones(n) * 2
    z = numpy.full((n,), 5.0)
    z[1:] = y[1:] - 1
    return x, y, z, numpy.arange(2, n)

def s_elementwise(a, b):
    return a + b, a - 2, a * b, numpy.abs(a - b), numpy.maximum(a, b), numpy.minimum(a, 1), numpy.sign(a - b), (a > b), ~(a > b), (a > b) | (a < 0)

def s_inplace_alias(a, w):
    e = a
    e *= w
    e += 1
    return a, e

def s_mask(a):
    m = a > 2
    b = a.copy()
    b[m] *= 10
    c = a.copy()
    c[a < 0] = 0
    return b, c, a[m], m.sum(), numpy.any(m), numpy.all(m)

def s_mask_rows(x, lab):
    ind = lab == 1
    sub = x[ind, :]
    out = numpy.zeros((x.shape[0],))
    out[ind] = sub[:, 0] * 2
    return sub, out

def s_hstack(x):
    one = numpy.ones((x.shape[0], 1))
    h = numpy.hstack([x, one])
    return h, h[:, -1], h.shape

def s_newaxis(v):
    c = v[:, numpy.newaxis]
    return c, c.shape

def s_ravel_reshape(x):
    c = x[:, 1:2]
    return c.ravel(), x[:, 0].reshape((x.shape[0], 1)).shape

def s_intdiv(a, b):
    return a // b, a % b, -a // b, -a % b, a // -b, a % -b, int(a * 0.5 + 0.5), int(-2.5), 7 / 2

def s_loop_sum(xs):
    s = 0
    best = None
    for i, v in enumerate(xs):
        if v > 0:
            s += v
        if best is None or v > best:
            best = v
    return s, best

def s_dict(keys, vals):
    d = {}
    for k, v in zip(keys, vals):
        if k in d:
            d[k] += v
        else:
            d[k] = v
    e = {v: k for k, v in d.items()}
    return sorted(d.items()), d.get("zz", -1), len(e), list(d)

def s_strings(name, i):
    k = "models_%d__%s" % (i, name)
    d = len("models_")
    si = k[d:].split("__", 1)
    return k, si, int(si[0]), k.startswith("models_"), k[2:5], " ".join([name, "x"]), name + "=" + str(i)

def s_sorted_tuples(pairs):
    return sorted(pairs), sorted((b, a) for a, b in pairs), list(reversed(pairs)), max(pairs), min(pairs)

def s_try(a, i):
    try:
        r = a[i]
    except IndexError:
        r = -1
    finally:
        a[0] = 99
    return r, a

def s_raise_value(n):
    if n > 2:
        raise ValueError("too big")
    assert n >= 0, "negative"
    return n

def s_unbound(flag):
    if flag:
        v = 1
    return v

def s_generator(n):
    def gen(k):
        for i in range(k):
            if i % 2 == 0:
                yield i, i * i
    return list(gen(n)), [a + b for a, b in gen(n) if a > 0]

def s_closure(xs):
    acc = []
    def add(v, scale=2):
        acc.append(v * scale)
        return len(acc)
    n = [add(x) for x in xs]
    f = lambda t, k=3: t + k
    return acc, n, f(1), f(1, k=10)

def s_class_like(xs):
    total = 0
    for x in xs:
        total += x
    return total / len(xs) if len(xs) else None

def s_nan_fill(n):
    a = numpy.full((n, 2), numpy.nan)
    a[1:, 0] = 1.0
    return numpy.isnan(a), a[1, 0]

def s_sort(a):
    return numpy.sort(a)

def s_shape_errors(a, b):
    a[0:2] = b
    return a

def s_fancy(x, idx):
    return x[idx], x[idx][:, 0]

def s_bool_ops(a, b, c):
    return (a and b) or c, a or b, not a, (a if b else c), [v for v in (a, b, c) if v]

def s_invert_int(m):
    z = numpy.zeros((m.shape[0],), dtype=numpy.int64)
    return ~z, ~m, ~(m > 1)

def s_negative_fancy(x, idx):
    return x[idx]

def s_scatter(a, idx, vals):
    a[idx] = vals
    return a

def s_masked_sum(y, p):
    mask = numpy.isnan(p)
    mask2 = mask.copy()
    mask2[1:] |= numpy.isnan(p[:-1])
    ym = numpy.ma.masked_array(y, mask=mask)
    pm = numpy.ma.masked_array(p, mask=mask2)
    d1 = numpy.sum(numpy.abs(ym[:-1] - ym[1:]))
    d2 = numpy.sum(numpy.abs(pm[1:] - ym[1:]))
    return d1.sum(), d2.sum(), d1 == 0

def s_average(a, w):
    return numpy.average(a, weights=w), numpy.average(a)

def s_cumsum(a, b):
    c = numpy.cumsum([0, a, b])
    return c, c[-1]

def s_hstack_promote(xi):
    ones = numpy.ones((xi.shape[0], 1))
    h = numpy.hstack([xi, ones])
    h[0, 0] = 0.5
    return h, h[0, 0] * 2

def s_col_broadcast(m, lab):
    ar = numpy.arange(m.shape[0])
    d = m[ar, lab]
    g = m - d[:, numpy.newaxis]
    return g, g[0, 0], (g[0] < 0).sum()

def s_min_out(a, m):
    r = numpy.minimum(a, m, out=m)
    return m, r is m, m.sum()

def s_clip_out(v):
    numpy.clip(v, None, 2, out=v)
    return v, numpy.clip(v, 1, None)

def s_atleast_2d(v, m):
    a = numpy.atleast_2d(v)
    return a, a.shape, a.T, numpy.atleast_2d(m)

def s_varargs(a, b):
    def pack(first, *rest):
        return first, len(rest), rest
    return pack(a), pack(a, b), pack(a, b, a)

def s_int_of_float(a):
    return int(a[0]), int(a[1]), int(a[2])

def s_nan_compare(a):
    v = a[0]
    return v == 0, v != 0, v < 1, v >= 1

def s_where(a):
    w = numpy.where(a == 0)[0]
    return w, len(w)

def s_argmax_rows(x):
    return numpy.argmax(x, 1)

def s_isclose(a, b):
    return bool(numpy.isclose(a, b)), bool(numpy.isclose(a, 0))

def s_min_max(a, x):
    return a.max(), a.min(), numpy.min(x, axis=1)

def s_paired_index(x, i, j):
    return x[i, j]

def s_classmethod_like(n):
    class K:
        base = 3
        @classmethod
        def make(cls, k):
            return cls.base + k
    return K.make(n)

def s_loop_var_after(n):
    t = 0
    for i in range(n):
        t += i
    return (t, i) if n > 0 else (t, -1)

def s_dict_entry_loop(n):
    ctx = {"n": 0, "names": {}}
    k = 0
    while k < n:
        ctx["n"] += 2
        k += 1
    return ctx["n"]

def s_copy_whole(a):
    b = a.copy()
    b[0] = 99
    return a, b
'''


def to_py(v, model=None):
    """executor value -> plain Python structure (numbers as Fraction); symbols are read from `model`"""
    def ev(t):
        r = z3.simplify(t)
        if model is not None and not (z3.is_int_value(r) or z3.is_rational_value(r) or z3.is_true(r) or z3.is_false(r) or z3.is_string_value(r)):
            r = z3.simplify(model.eval(t, model_completion=True))
        return r
    if isinstance(v, NdArr):
        shape = [int(to_py(s, model)) if not isinstance(s, int) else s for s in v.shape]

        def cell(idx):
            if v.cell.nan is not None and z3.is_true(ev(v.isnan(*idx))):
                return "nan"
            return to_py(v.get(*idx), model)

        def build(prefix, dims):
            if not dims:
                return cell(prefix)
            return [build(prefix + [i], dims[1:]) for i in range(dims[0])]
        return ("ndarray", tuple(shape), build([], shape))
    if isinstance(v, NanReal):
        return "nan" if z3.is_true(ev(v.isnan)) else to_py(v.val, model)
    if v is NaN:
        return "nan"
    if is_sym(v):
        r = ev(v)
        if z3.is_int_value(r):
            return Fraction(r.as_long())
        if z3.is_rational_value(r):
            return Fraction(r.numerator_as_long(), r.denominator_as_long())
        if z3.is_true(r):
            return True
        if z3.is_false(r):
            return False
        if z3.is_string_value(r):
            return r.as_string()
        raise ValueError("not a concrete value: %s" % r)
    if isinstance(v, bool) or v is None or isinstance(v, str):
        return v
    if isinstance(v, (int, Fraction)):
        return Fraction(v)
    if isinstance(v, float):
        return Fraction(v)
    if isinstance(v, (list, GenResult)):
        return [to_py(x, model) for x in (v.items if isinstance(v, GenResult) else v)]
    if isinstance(v, tuple):
        return tuple(to_py(x, model) for x in v)
    if isinstance(v, dict):
        return {k: to_py(x, model) for k, x in v.items()}
    if isinstance(v, SList):
        n = to_py(v.length, model)
        return [to_py(v.get(i), model) for i in range(int(n))]
    raise ValueError("cannot convert %r" % (v,))


def from_numpy(v):
    """CPython/numpy value -> the same plain structure"""
    if isinstance(v, numpy.ndarray):
        def conv(x):
            if isinstance(x, list):
                return [conv(y) for y in x]
            if isinstance(x, (bool, numpy.bool_)):
                return bool(x)
            if x != x:
                return "nan"
            return Fraction(x)
        return ("ndarray", tuple(v.shape), conv(v.tolist()))
    if isinstance(v, (numpy.bool_, bool)):
        return bool(v)
    if isinstance(v, (numpy.integer, int)):
        return Fraction(int(v))
    if isinstance(v, (numpy.floating, float)):
        return "nan" if v != v else Fraction(float(v))
    if v is None or isinstance(v, str):
        return v
    if isinstance(v, list):
        return [from_numpy(x) for x in v]
    if isinstance(v, tuple):
        return tuple(from_numpy(x) for x in v)
    if isinstance(v, dict):
        return {k: from_numpy(x) for k, x in v.items()}
    raise ValueError("cannot convert %r" % (v,))


def to_engine(v):
    """concrete Python / numpy input -> executor value"""
    if isinstance(v, numpy.ndarray):
        kind = "bool" if v.dtype == bool else ("int" if numpy.issubdtype(v.dtype, numpy.integer) else "real")
        has_nan = kind == "real" and bool(numpy.isnan(v).any())
        arr = NdArr.fresh("in", tuple(int(s) for s in v.shape), kind, has_nan)
        for idx in numpy.ndindex(*v.shape):
            x = v[idx]
            if has_nan:
                arr.set(tuple(int(i) for i in idx), Fraction(0) if x != x else Fraction(float(x)), nanval=bool(x != x))
                continue
            arr.set(tuple(int(i) for i in idx), bool(x) if kind == "bool" else (int(x) if kind == "int" else Fraction(float(x))))
        arr.cell.writes = 0
        return arr
    if isinstance(v, float):
        return Fraction(v)
    if isinstance(v, list):
        return [to_engine(x) for x in v]
    if isinstance(v, tuple):
        return tuple(to_engine(x) for x in v)
    return v


def inputs():
    A = lambda *x, dt=float: numpy.array(x, dtype=dt)
    return {
        "s_slices": [(A(1, 2, 3, 4, 5, 6),), (A(1, 2),), (A(),)],
        "s_slice_assign": [(A(1, 2, 3, 4), A(9, 8, 7))],
        "s_view_alias": [(A(1, 2, 3, 4, 5),)],
        "s_2d": [(numpy.arange(12, dtype=float).reshape(3, 4),)],
        "s_full_empty": [(4,), (2,)],
        "s_elementwise": [(A(1, -2, 3, 0), A(2, 2, -3, 0))],
        "s_inplace_alias": [(A(1, 2, 3), A(2, 0, -1))],
        "s_mask": [(A(1, 5, -3, 2, 7),), (A(0, 1),)],
        "s_mask_rows": [(numpy.arange(8, dtype=float).reshape(4, 2), A(1, 0, 1, 1, dt=int)), (numpy.arange(4, dtype=float).reshape(2, 2), A(0, 0, dt=int))],
        "s_hstack": [(numpy.arange(6, dtype=float).reshape(3, 2),)],
        "s_newaxis": [(A(1, 2, 3),)],
        "s_ravel_reshape": [(numpy.arange(6, dtype=float).reshape(3, 2),)],
        "s_intdiv": [(7, 3), (-7, 3), (0, 5), (9, 9)],
        "s_loop_sum": [([1, -2, 5, 3],), ([],), ([-4, -1],)],
        "s_dict": [(["a", "b", "a", "c"], [1, 2, 3, 4])],
        "s_strings": [("C", 3), ("model__alpha", 12)],
        "s_sorted_tuples": [([(2, "b"), (1, "z"), (2, "a")],)],
        "s_try": [(A(1, 2, 3), 1), (A(1, 2, 3), 5), (A(1, 2, 3), -4)],
        "s_raise_value": [(1,), (5,), (-1,)],
        "s_unbound": [(True,), (False,)],
        "s_generator": [(5,), (0,)],
        "s_closure": [([1, 2, 3],)],
        "s_class_like": [([1, 2, 6],), ([],)],
        "s_nan_fill": [(3,)],
        "s_sort": [(A(3, 1, 2),)],
        "s_shape_errors": [(A(1, 2, 3), A(1, 2, 3)), (A(1, 2, 3), A(7, 8))],
        "s_fancy": [(numpy.arange(8, dtype=float).reshape(4, 2), A(3, 0, 3, dt=int))],
        "s_bool_ops": [(True, False, True), (False, False, False), (True, True, False)],
        "s_invert_int": [(A(0, 1, 5, dt=int),)],
        "s_negative_fancy": [(numpy.arange(8, dtype=float).reshape(4, 2), A(-1, 0, -4, dt=int)), (numpy.arange(4, dtype=float).reshape(2, 2), A(2, dt=int))],
        "s_scatter": [(A(1, 2, 3, 4), A(3, 0, dt=int), A(9, 8)), (A(1, 2, 3, 4), A(-1, 1, dt=int), A(7, 6))],
        "s_where": [(A(0, 3, 0, 0, 2),), (A(1, 2),)],
        "s_masked_sum": [(A(1, 3, 2, 5, 4), A(numpy.nan, 1, 3, 2, 5)), (A(1, 3, 2, 5, 4), A(0, 1, numpy.nan, 2, 5)), (A(2, 2, 2), A(1, 2, 3))],
        "s_average": [(A(1, 2, 4), A(1, 1, 2)), (A(3, -1), A(0.5, 1.5))],
        "s_cumsum": [(2, 3), (0, 5)],
        "s_hstack_promote": [(numpy.arange(6).reshape(3, 2),), (numpy.arange(6, dtype=float).reshape(3, 2),)],
        "s_nan_compare": [(A(numpy.nan, 1),), (A(0, 1),)],
        "s_col_broadcast": [(numpy.array([[1., 4., 2.], [0., 3., 5.]]), A(1, 0, dt=int)), (numpy.array([[2., 1.]]), A(1, dt=int))],
        "s_varargs": [(1, 2)],
        "s_atleast_2d": [(A(1, 2, 3), numpy.array([[1., 2.], [3., 4.]]))],
        "s_min_out": [(numpy.array([[1., 5., 2.]]), numpy.array([[3., 3., 3.], [0., 9., 1.]])), (A(1, 5, 2), numpy.array([[3., 3., 3.], [0., 9., 1.]]))],
        "s_clip_out": [(A(0, 3, 2, 7, dt=int),), (A(0.5, 3.5),)],
        "s_int_of_float": [(A(2.0, 2.7, -2.7),)],
        "s_argmax_rows": [(numpy.array([[0., 1., 0.], [2., 2., 1.], [0., 0., 0.]]),)],
        "s_isclose": [(1.0, 1.0 + 1e-9), (1e-9, 0.0), (1e-7, 0.0), (5.0, 6.0)],
        "s_min_max": [(A(3, -1, 2), numpy.array([[1., 5.], [7., 2.]]))],
        "s_paired_index": [(numpy.arange(6, dtype=float).reshape(3, 2), A(2, 0, dt=int), A(1, 1, dt=int))],
        "s_classmethod_like": [(4,)],
        "s_loop_var_after": [(3,), (0,), (1,)],
        "s_dict_entry_loop": [(3,), (0,)],
        "s_copy_whole": [(A(1, 2, 3),)],
    }


class _Repo(Repo):
    def __init__(self):
        Repo.__init__(self, "/nonexistent")
        self._mods["snippets.py"] = RepoModule(self, "snippets.py", text=SNIPPETS)


def run_engine(repo, R, name, args):
    func = repo.module("snippets.py").defs[name]
    E = Exec(repo, {}, R, prop="DIFF")
    out = {}

    def one(E):
        E.cur_func = func
        try:
            res = E.call_repo_function(func, [to_engine(_copy(a)) for a in args], {})
            out["r"] = ("ok", to_py(res, _model_of(E)))
        except Raised as r:
            out["r"] = ("raise", r.cls)
    E.explore(one)
    if E.paths != 1:
        return ("forked", E.paths)
    return out["r"]


def _model_of(E):
    """ghost-specified results (sort, mask selection) are determined by their axioms for concrete inputs: read them from a model"""
    if not E.axioms and not E.pc:
        return None
    s = z3.Solver()
    s.set("timeout", 20000)
    for c in E.axioms + E.pc:
        s.add(c)
    r = s.check()
    if r != z3.sat:
        raise ValueError("path constraints of a concrete run: %s" % r)
    return s.model()


def agree(a, b):
    """structural equality; numbers agree up to double rounding (A1: the executor computes over the rationals)"""
    if isinstance(a, Fraction) and isinstance(b, Fraction):
        return a == b or abs(a - b) <= Fraction(1, 10 ** 12) * max(1, abs(a), abs(b))
    if isinstance(a, (list, tuple)) and isinstance(b, (list, tuple)) and type(a) is type(b):
        return len(a) == len(b) and all(agree(x, y) for x, y in zip(a, b))
    if isinstance(a, dict) and isinstance(b, dict):
        return a.keys() == b.keys() and all(agree(a[k], b[k]) for k in a)
    return type(a) is type(b) and a == b


def _copy(a):
    return a.copy() if isinstance(a, numpy.ndarray) else (list(a) if isinstance(a, list) else a)


def run_cpython(ns, name, args):
    try:
        return ("ok", from_numpy(ns[name](*[_copy(a) for a in args])))
    except Exception as e:
        return ("raise", type(e).__name__)


# ----------------------------------------------------------------------------- the verified functions themselves
def repo_cases():
    """(key, kind of self, args builder) for functions of /repo that only need numpy: executed from the real source by both sides"""
    A = lambda *x, dt=float: numpy.array(x, dtype=dt)
    ts = lambda past, d2: dict(past=past, delay1=1, delay2=d2, use_all_past=False)
    X5 = numpy.arange(10, dtype=float).reshape(5, 2) + 100
    y5 = numpy.arange(5, dtype=float) * 10 + 1
    out = []
    for sr in (False, True):
        for past, d2 in ((1, 2), (2, 2), (2, 3)):
            out.append(("mlinsights/timeseries/utils.py::build_ts_X_y", None, [ts(past, d2), X5, y5, y5 * 2, sr]))
            out.append(("mlinsights/timeseries/utils.py::build_ts_X_y", None, [ts(past, d2), None, y5, None, sr]))
    out.append(("mlinsights/timeseries/metrics.py::ts_mape", None, [A(1, 3, 2, 5), A(1, 1, 3, 2), None]))
    out.append(("mlinsights/timeseries/metrics.py::ts_mape", None, [A(1, 3, 2, 5), A(2, 2, 2, 2), A(1, 2, 1, 3)]))
    out.append(("mlinsights/timeseries/metrics.py::ts_mape", None, [A(4, 4, 4), A(4, 4, 4), None]))
    for q in (0.5, 0.25):
        out.append(("mlinsights/mlmodel/quantile_regression.py::QuantileLinearRegression._epsilon", None, [A(1, 2, 3, 4), A(2, 2, 1, 6), q, None]))
        out.append(("mlinsights/mlmodel/quantile_regression.py::QuantileLinearRegression._epsilon", None, [A(1, 2, 3, 4), A(2, 2, 1, 6), q, A(1, 2, 3, 1)]))
    for rng in ((1, 1), (1, 2), (2, 3)):
        for stop in (None, ["b"]):
            out.append(("mlinsights/mlmodel/sklearn_text.py::NGramsMixin._word_ngrams", dict(ngram_range=rng), [["a", "b", "c", "a"], stop]))
            out.append(("mlinsights/mlmodel/sklearn_text.py::NGramsMixin._word_ngrams", dict(ngram_range=rng), [["a"], stop]))
    out.append(("mlinsights/mlmodel/categories_to_integers.py::CategoriesToIntegers._build_schema",
                dict(_categories={"a": {"p": 0, "q": 1}, "b": {"u": 0, "v": 1, "w": 2}}, remove=None), []))
    out.append(("mlinsights/mlmodel/categories_to_integers.py::CategoriesToIntegers._build_schema",
                dict(_categories={"a": {"p": 0, "q": 1}, "b": {"u": 0, "v": 1, "w": 2}}, remove=["a=p", "b=v"]), []))
    out.append(("mlinsights/mltree/tree_structure.py::tree_leave_index", None, [dict(node_count=5, children_left=A(1, -1, 3, -1, -1, dt=int))]))
    return out


class _NS:
    def __init__(self, d):
        self.__dict__.update(d)


def _extract(repo_root, key):
    """source text of the function, made top-level (dedented, decorators dropped)"""
    import ast as _ast
    import textwrap
    func = Repo(repo_root).lookup(key)
    src = textwrap.dedent(func.source())
    lines = src.splitlines()
    while lines and lines[0].lstrip().startswith("@"):
        lines.pop(0)
    return func, "\n".join(lines)


def run_repo_functions(repo_root="/repo"):
    from .values import Obj
    R = make_registry()
    repo = Repo(repo_root)
    bad = n = 0
    for key, selfd, args in repo_cases():
        n += 1
        func, src = _extract(repo_root, key)
        ns = {"numpy": numpy, "TREE_LEAF": -1}
        if key.endswith("tree_leave_index"):
            exec(compile(_extract(repo_root, key.split("::")[0] + "::_get_tree")[1], key, "exec"), ns)
        exec(compile(src, key, "exec"), ns)
        pyf = ns[func.name]
        cargs = [(_NS(a) if isinstance(a, dict) else _copy(a)) for a in args]
        try:
            r = pyf(_NS(selfd), *cargs) if selfd is not None else pyf(*cargs)
            want = ("ok", from_numpy(r))
        except Exception as e:
            want = ("raise", type(e).__name__)
        E = Exec(repo, {}, R, prop="DIFF")
        got = {}

        def one(E):
            E.cur_func = func
            eargs = [(Obj("ns", {k: to_engine(v) for k, v in a.items()}) if isinstance(a, dict) else to_engine(_copy(a))) for a in args]
            so = Obj("self", {k: (v if not isinstance(v, (list, numpy.ndarray)) else to_engine(v)) for k, v in selfd.items()}) if selfd is not None else None
            try:
                res = E.call_repo_function(func, eargs, {}, self_obj=so)
                got["r"] = ("ok", to_py(res, _model_of(E)))
            except Raised as rr:
                got["r"] = ("raise", rr.cls)
        try:
            E.explore(one)
            g = got.get("r") if E.paths == 1 else ("forked", E.paths)
        except Unsupported as u:
            g = ("unsupported", str(u))
        except ValueError as u:
            g = ("no-model", str(u))
        if not agree(g, want):
            bad += 1
            print("DIFFERENCE %s %r\n   cpython : %r\n   executor: %r" % (key, args, want, g))
    print("pyvc difftest (functions of %s): %d runs, %d disagreements" % (repo_root, n, bad))
    return bad


def main():
    import os
    bad_repo = run_repo_functions(os.environ.get("PYVC_REPO", "/repo"))
    ns = {}
    exec(compile(SNIPPETS, "snippets.py", "exec"), ns)
    repo, R = _Repo(), make_registry()
    bad = n = 0
    for name, cases in inputs().items():
        for args in cases:
            n += 1
            want = run_cpython(ns, name, args)
            try:
                got = run_engine(repo, R, name, args)
            except Unsupported as u:
                got = ("unsupported", str(u))
            except ValueError as u:
                got = ("no-model", str(u))
            if not agree(got, want):
                bad += 1
                print("DIFFERENCE %s%r\n   cpython : %r\n   executor: %r" % (name, args, want, got))
    print("pyvc difftest: %d snippet runs, %d disagreements" % (n, bad))
    return 1 if (bad or bad_repo) else 0


if __name__ == "__main__":
    sys.exit(main())
