"""Assumed model of scipy sparse matrices as they are used by the piecewise estimators: a sparse matrix is an opaque object
standing for a dense 2-d array (`dense`); supported: m[:, j], m == c, iteration over rows, .todense(), .shape, and
tuple(row) of a symbolic-length integer row as an opaque dictionary key.  Also: decision_path of a fitted tree binner."""
import ast

import z3

from .values import NdArr, Obj, Opaque, Unsupported, z, fresh_name, is_sym

Key = z3.DeclareSort("TupleKey")
tupkeyF = z3.Function("tuple_key", z3.ArraySort(z3.IntSort(), z3.IntSort()), z3.IntSort(), Key)


def sparse_of(dense):
    o = Obj("sparse", tag="sparse")
    o.fields["dense"] = dense
    return o


def is_sparse(v):
    return isinstance(v, Obj) and v.tag == "sparse"


def tuple_key(arr):
    """tuple(arr) for a 1-d integer array of symbolic length: an opaque key, a function of the entries in [0, len)"""
    fs = arr.snapshot()
    m = z(arr.shape[0])
    c = z3.Int("c!key")
    canon = z3.Lambda([c], z3.If(z3.And(c >= 0, c < m), fs.get(c), 0))
    return Opaque(tupkeyF(canon, m), "tuplekey")


def install(R, models):
    Est, Row = models.Est, models.Row
    pathF = z3.Function("decision_path", Est, Row, z3.IntSort(), z3.IntSort())
    nodesF = z3.Function("n_nodes", Est, z3.IntSort())
    R.pathF, R.nodesF = pathF, nodesF

    def m_decision_path(E, recv, args, kwargs, node):
        """ASSUMED: decision_path(X) is an indicator matrix (rows x nodes) whose row r is a function of the fitted tree and row r of X"""
        X = args[0] if args else kwargs["X"]
        models.maybe_raise(E, "decision_path", node)
        if not isinstance(X, NdArr) or X.ndim != 2:
            raise Unsupported("decision_path on %r" % (X,))
        st = recv.fields["$state"]
        fs = X.snapshot()
        nn = nodesF(st)
        E.assume(nn >= 1)
        E.trace.append(dict(op="decision_path", obj=recv, X=X, state=st))
        return sparse_of(NdArr.from_fn("decision_path", (X.shape[0], nn), "int", lambda r, j: pathF(st, models.row_of(E, fs, r), j)))
    R.methods[("estimator", "decision_path")] = m_decision_path

    def _dtr_decision_path(E, self_obj, X, check_input=True):
        """DecisionTreeRegressor.decision_path on an in-repo subclass instance: the fitted tree is the ghost state of tree_"""
        tree = self_obj.fields.get("tree_")
        st = tree.term if isinstance(tree, Opaque) else (tree.fields.get("$state") if isinstance(tree, Obj) else None)
        if not (isinstance(X, NdArr) and X.ndim == 2 and st is not None):
            raise Unsupported("decision_path of %r" % (self_obj,))
        fs = X.snapshot()
        nn = nodesF(st)
        E.assume(nn >= 1)
        E.trace.append(dict(op="decision_path", obj=self_obj, X=X, state=st))
        return sparse_of(NdArr.from_fn("decision_path", (X.shape[0], nn), "int", lambda r, j: pathF(st, models.row_of(E, fs, r), j)))
    R.fns["sklearn.tree.DecisionTreeRegressor.decision_path"] = _dtr_decision_path
    R.ext_methods.setdefault("sklearn.tree.DecisionTreeRegressor", {})["decision_path"] = "sklearn.tree.DecisionTreeRegressor.decision_path"

    old_transform = R.methods[("estimator", "transform")]

    def m_transform(E, recv, args, kwargs, node):
        out = old_transform(E, recv, args, kwargs, node)
        if recv.fields.get("$sparse_transform"):
            return sparse_of(out)          # e.g. KBinsDiscretizer(encode='onehot'): a sparse matrix
        return out
    R.methods[("estimator", "transform")] = m_transform

    def attr(E, base, attr_, node):
        if is_sparse(base):
            d = base.fields["dense"]
            if attr_ == "shape":
                return tuple(d.shape)
            if attr_ in ("todense", "toarray"):
                from .engine import PyFn
                return PyFn(lambda E: d, "todense")
        return NotImplemented
    R.attr_hooks.append(attr)

    R.methods[("sparse", "todense")] = lambda E, recv, args, kwargs, node: recv.fields["dense"]
    R.methods[("sparse", "toarray")] = lambda E, recv, args, kwargs, node: recv.fields["dense"]

    prev_get = getattr(R, "getitem_hook", None)

    def getitem_hook(E, base, idx, node):
        if is_sparse(base):
            d = base.fields["dense"]
            from .engine import SymSeq as _SymSeq
            if isinstance(idx, tuple) and len(idx) == 2 and idx[0] == slice(None, None, None) and not isinstance(idx[1], (slice, NdArr, list, tuple, _SymSeq)) and type(idx[1]).__name__ != 'SList':
                from .pymodel import norm_index
                j = norm_index(E, idx[1], d.shape[1], node)
                fs = d.snapshot()
                return sparse_of(NdArr.from_fn("col", (d.shape[0], 1), d.kind, lambda r, c: fs.get(r, j)))
            from .engine import SymSeq
            from .values import SList as _SList
            if isinstance(idx, tuple) and len(idx) == 2 and idx[0] == slice(None, None, None) and isinstance(idx[1], _SList):
                cols = idx[1]
                fs = d.snapshot()
                t0 = z3.Int(fresh_name("ct"))
                E.safety("column-list-in-range", z3.ForAll([t0], z3.Implies(z3.And(t0 >= 0, t0 < z(cols.length)),
                         z3.And(cols.get(t0) >= 0, cols.get(t0) < z(d.shape[1])))), node, "IndexError")
                return sparse_of(NdArr.from_fn("cols", (d.shape[0], cols.length), d.kind, lambda r, t: fs.get(r, cols.get(t))))
            if isinstance(idx, tuple) and len(idx) == 2 and idx[0] == slice(None, None, None) and isinstance(idx[1], (SymSeq, list)):
                # m[:, columns] : the listed columns, in that order
                cols = idx[1]
                fs = d.snapshot()
                if isinstance(cols, list):
                    from .pymodel import norm_index
                    cs = [norm_index(E, c, d.shape[1], node) for c in cols]

                    def pick(r, t):
                        v = fs.get(r, cs[-1]) if cs else z3.IntVal(0)
                        for q in range(len(cs) - 2, -1, -1):
                            v = z3.If(t == q, fs.get(r, cs[q]), v)
                        return v
                    return sparse_of(NdArr.from_fn("cols", (d.shape[0], len(cs)), d.kind, pick))
                t0 = z3.Int(fresh_name("ct"))
                E.safety("column-list-in-range", z3.ForAll([t0], z3.Implies(z3.And(t0 >= 0, t0 < z(cols.length)),
                         z3.And(z(cols.item(t0)) >= 0, z(cols.item(t0)) < z(d.shape[1])))), node, "IndexError")
                return sparse_of(NdArr.from_fn("cols", (d.shape[0], cols.length), d.kind, lambda r, t: fs.get(r, z(cols.item(t)))))
            raise Unsupported("sparse[%r]" % (idx,))
        return prev_get(E, base, idx, node) if prev_get is not None else NotImplemented
    R.getitem_hook = getitem_hook

    prev_iter = getattr(R, "iter_hook", None)

    def iter_hook(E, v, node):
        from .engine import IterSpec
        if is_sparse(v):
            d = v.fields["dense"]
            fs = d.snapshot()

            def row(k):
                return sparse_of(NdArr.from_fn("row", (1, d.shape[1]), d.kind, lambda r, c: fs.get(z(k), c)))
            if isinstance(d.shape[0], int):
                return IterSpec(concrete=[row(k) for k in range(d.shape[0])])
            return IterSpec(length=d.shape[0], item=row)
        return prev_iter(E, v, node) if prev_iter is not None else None
    R.iter_hook = iter_hook

    def compare_hook(E, op, a, b, node):
        if is_sparse(a) and not is_sparse(b) and isinstance(op, (ast.Eq, ast.NotEq)):
            d = a.fields["dense"]
            fs = d.snapshot()
            eq = isinstance(op, ast.Eq)
            return sparse_of(NdArr.from_fn("cmp", d.shape, "bool", lambda r, c: (fs.get(r, c) == z(b)) if eq else (fs.get(r, c) != z(b))))
        return NotImplemented
    R.compare_hook = compare_hook

    old_tuple = R.fns["builtin.tuple"]

    def _tuple(E, v=()):
        if isinstance(v, NdArr) and v.ndim == 1 and v.kind == "int" and not isinstance(v.shape[0], int):
            return tuple_key(v)
        return old_tuple(E, v)
    R.fns["builtin.tuple"] = _tuple


def install_argmax(R):
    def _argmax(E, a, axis=None, **kw):
        """numpy.argmax(m, 1): per row the FIRST position of a largest entry; for a sparse / matrix argument the result is (rows, 1)"""
        d = a.fields["dense"] if is_sparse(a) else a
        if not (isinstance(d, NdArr) and d.ndim == 2 and axis in (1, -1)):
            raise Unsupported("argmax(%r, axis=%r)" % (a, axis))
        E.safety("argmax-of-empty", z(d.shape[1]) >= 1, None, "ValueError")
        n, L = z(d.shape[0]), z(d.shape[1])
        out = NdArr.fresh("argmax", (d.shape[0], 1) if is_sparse(a) else (d.shape[0],), "int")
        at = (lambda r: out.get(r, 0)) if is_sparse(a) else (lambda r: out.get(r))
        fs = d.snapshot()
        r, c = z3.Int(fresh_name("ar")), z3.Int(fresh_name("ac"))
        E.assume(z3.ForAll([r], z3.Implies(z3.And(r >= 0, r < n), z3.And(at(r) >= 0, at(r) < L)), patterns=[at(r)]))
        E.assume(z3.ForAll([r, c], z3.Implies(z3.And(r >= 0, r < n, c >= 0, c < L), z3.And(
            fs.get(r, c) <= fs.get(r, at(r)), z3.Implies(c < at(r), fs.get(r, c) < fs.get(r, at(r)))))))
        return out
    R.fns["numpy.argmax"] = _argmax
