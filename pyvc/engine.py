"""pyvc executor: forward symbolic execution of the real function ASTs, one path at a time.

Paths are explored by re-execution under a recorded decision prefix (no state copying): every
fork point calls Exec.choose(); alternatives are pushed on a work list as decision prefixes.
Calls are replaced by the callee's sidecar contract when it has one, small in-repo helpers are
inlined, dependencies go through the registry of assumed contracts.
"""
import ast
import os
import time
import operator
from fractions import Fraction

import z3

from .values import (NdArr, Cell, Obj, Opaque, SList, NaN, Unsupported, is_sym, is_int_like,
                     is_bool_like, is_real_like, is_num_like, is_str_like, z, zbool, znum,
                     fresh_name, reset_names)
from .frontend import RepoFunc, RepoClass


# ----------------------------------------------------------------------------- control flow
class Raised(Exception):
    """an exception of the interpreted program"""

    def __init__(self, cls, args=(), node=None, origin=None):
        Exception.__init__(self, cls)
        self.cls = cls            # exception class name, e.g. 'ValueError'
        self.args_ = args
        self.node = node
        self.origin = origin      # 'raise' | 'assert' | 'registry' | 'external'


class PathEnd(Exception):
    pass


class _Return(Exception):
    def __init__(self, value):
        self.value = value


class _Break(Exception):
    pass


class _Continue(Exception):
    pass


EXC_BASES = {
    "AssertionError": ["Exception"], "ValueError": ["Exception"], "TypeError": ["Exception"],
    "KeyError": ["LookupError", "Exception"], "IndexError": ["LookupError", "Exception"],
    "AttributeError": ["Exception"], "RuntimeError": ["Exception"],
    "NotImplementedError": ["RuntimeError", "Exception"], "ZeroDivisionError": ["ArithmeticError", "Exception"],
    "UnboundLocalError": ["NameError", "Exception"], "NameError": ["Exception"],
    "StopIteration": ["Exception"], "ImportError": ["Exception"], "NotFittedError": ["ValueError", "AttributeError", "Exception"],
    "ExternalError": ["Exception"], "Exception": [], "FloatingPointError": ["ArithmeticError", "Exception"],
    "Warning": ["Exception"], "RuntimeWarning": ["Warning", "Exception"], "UserWarning": ["Warning", "Exception"],
    "DeprecationWarning": ["Warning", "Exception"], "FutureWarning": ["Warning", "Exception"],
}


def exc_matches(cls, handler):
    if handler in ("BaseException",):
        return True
    return cls == handler or handler in EXC_BASES.get(cls, ["Exception"])


# ----------------------------------------------------------------------------- callables
class Closure:
    def __init__(self, func, env, self_obj=None):
        self.func = func          # RepoFunc
        self.env = env            # enclosing Frame or None
        self.self_obj = self_obj


class LambdaFn:
    def __init__(self, node, frame):
        self.node = node
        self.frame = frame


class ExternFn:
    def __init__(self, name, self_obj=None):
        self.name = name
        self.self_obj = self_obj

    def __repr__(self):
        return "<ExternFn %s>" % self.name


class ExternMod:
    def __init__(self, name):
        self.name = name

    def __repr__(self):
        return "<ExternMod %s>" % self.name


class PyFn:
    """a Python callable of the engine / of a contract, called as f(E, *args, **kwargs)"""

    def __init__(self, fn, name="pyfn"):
        self.fn = fn
        self.name = name


class Unbound:
    """value of a local that is assigned in a loop body but not before the loop"""

    def __init__(self, name):
        self.name = name


class Frame:
    def __init__(self, func, module, parent=None):
        self.func = func
        self.module = module
        self.parent = parent      # enclosing frame (closures)
        self.locals = {}
        self.localnames = set()


class Obligation:
    def __init__(self, oid, kind, pc, goal, where, axioms, canary=False, path=None):
        self.oid, self.kind, self.pc, self.goal, self.where = oid, kind, pc, goal, where
        self.axioms = axioms
        self.canary = canary
        self.path = path


# ----------------------------------------------------------------------------- executor
class Exec:
    def __init__(self, repo, contracts, registry, prop="?", opts=None):
        self.repo = repo
        self.contracts = contracts        # key -> Contract instance
        self.registry = registry
        self.prop = prop
        self.opts = opts or {}
        self.obligations = []
        self.work = []
        self.prefix = []
        self.trail = []
        self.pc = []
        self.axioms = []
        self.top = None                   # contract being verified
        self.paths = 0
        self.path_log = []
        self.feas_solver_calls = 0
        self.unsupported = []
        self.loop_rules = {}
        self.trace = []                   # external call trace (ghost)
        self.ext_may_raise = False
        self.scope = None                 # finite-scope pass: dict of concrete sizes
        self.max_paths = self.opts.get("max_paths", 4000)
        # wall-clock budget of the symbolic execution of ONE function variant (a changed body may loop for ever on concrete
        # data, e.g. a parent walk over a cyclic table): exceeded => the function is reported undecided, never silently passed
        self.gen_budget_s = float(os.environ.get("PYVC_GEN_BUDGET_S", self.opts.get("gen_budget_s", 900)))
        self.gen_t0 = time.time()
        self.gen_ticks = 0
        self.inline_depth = 0
        self.cur_func = None
        self._only_augassigned = set()
        self._loop_kinds = {}
        self.ps = {}
        self.used_lemmas = set()
        self.used_externs = set()
        self.assumptions_used = set()

    # -- path management ----------------------------------------------------------------
    def explore(self, run_one):
        """run_one(E) executes one path from the start; explores all decision prefixes"""
        self.work = [[]]
        while self.work:
            self.prefix = self.work.pop()
            self.trail = []
            self.pc = []
            self.axioms = []
            self.trace = []
            self.ps = {}
            reset_names()
            Obj._ids = __import__("itertools").count()
            self.paths += 1
            if self.paths > self.max_paths:
                raise Unsupported("more than %d paths" % self.max_paths)
            try:
                run_one(self)
                self.path_log.append(("end", list(self.trail)))
            except PathEnd as e:
                self.path_log.append(("cut:%s" % e, list(self.trail)))

    def choose(self, conds, labels=None):
        k = len(self.trail)
        if k < len(self.prefix):
            idx = self.prefix[k]
        else:
            feas = [i for i, c in enumerate(conds) if c is None or self.feasible(c)]
            if not feas:
                raise PathEnd("infeasible")
            idx = feas[0]
            if getattr(self, "nofork", 0) and len(feas) > 1:
                raise Unsupported("a side evaluation (generic element of a lazy sequence / filter) would fork")
            for j in feas[1:]:
                self.work.append(self.trail + [j])
        self.trail.append(idx)
        if conds[idx] is not None:
            self.assume(conds[idx])
        return idx

    def side_eval(self, assumption, fn):
        """evaluate fn() under a temporary assumption, without forking (used for generic elements: kinds, filters)"""
        npc = len(self.pc)
        self.pc.append(assumption)
        self.nofork = getattr(self, "nofork", 0) + 1
        try:
            return fn()
        finally:
            self.nofork -= 1
            del self.pc[npc:]

    def feasible(self, cond):
        cond = z3.simplify(cond)
        if z3.is_true(cond):
            return True
        if z3.is_false(cond):
            return False
        s = z3.SimpleSolver()
        s.set("timeout", self.opts.get("feas_ms", 400))
        s.set("mbqi", False)     # refutation by E-matching only: a model search over quantified facts never pays off here
        for c in self.pc:
            s.add(c)
        s.add(cond)
        self.feas_solver_calls += 1
        return s.check() != z3.unsat

    def assume(self, cond):
        cond = zbool(cond)
        self.pc.append(cond)

    def axiom(self, cond, requested=True):
        """lemma instance / assumed fact available to every later obligation of the path.
        requested=False marks bulk auto-generated instances (tried last by the solver stages)."""
        self.axioms.append(cond)
        if requested:
            self.ps.setdefault("requested_axioms", set()).add(cond.get_id())

    def branch(self, cond):
        if isinstance(cond, bool):
            return cond
        cond = z3.simplify(zbool(cond))
        if z3.is_true(cond):
            return True
        if z3.is_false(cond):
            return False
        return self.choose([cond, z3.Not(cond)]) == 0

    def oblige(self, oid, goal, kind="post", node=None, canary=False):
        goal = zbool(goal)
        where = self.where(node)
        g = z3.simplify(goal)
        ob = Obligation(oid, kind, list(self.pc), g, where, list(self.axioms),
                        canary=canary, path=list(self.trail))
        req = self.ps.get("requested_axioms", set())
        ob.req_axioms = [a for a in ob.axioms if a.get_id() in req]
        ob.inputs = self.ps.get("inputs")
        ob.variant = self.ps.get("variant")
        self.obligations.append(ob)
        if not canary:
            self.pc.append(g)     # assert-then-assume

    def where(self, node):
        f = self.cur_func
        if f is None and self.top is not None and getattr(self.top, "is_lemma", False):
            return "lemma:" + self.top.key
        if node is not None and hasattr(node, "lineno") and f is not None:
            return "%s:%d" % (f.module.relpath, node.lineno)
        return f.key if f is not None else "?"

    # -- per-path ghost bookkeeping ---------------------------------------------------------
    def _sum_apps_for_path(self):
        return self.ps.setdefault("sum", [])

    def note_write(self, arr, node=None):
        if getattr(arr.cell, "read_only_model", False):
            raise Unsupported("write through a value whose aliasing is not modelled at %s" % self.where(node))
        self.ps.setdefault("writes", []).append((arr.cell, self.where(node)))

    def note_nan_read(self, view, node=None):
        # reading a cell that may hold the missing-value marker as a number: flagged as Unsupported
        # only if the cell can be NaN on this path
        if self.feasible(view.isnan()):
            raise Unsupported("arithmetic read of a possibly-NaN cell at %s" % self.where(node))

    def generic_element_check(self, seq, node=None):
        """side path: evaluate one generic element of a lazy sequence so that its safety
        obligations and raising paths exist (if any element raises, the comprehension raises)"""
        if self.choose([None, None]) == 1:
            kk = self.int("gk")
            self.assume(z3.And(kk >= 0, kk < z(seq.length)))
            seq.item(kk)
            raise PathEnd("generic-element")

    def note_assumption(self, text):
        self.assumptions_used.add(text)

    # -- fresh symbols ------------------------------------------------------------------
    def int(self, name):
        return z3.Int(fresh_name(name))

    def real(self, name):
        return z3.Real(fresh_name(name))

    def bool(self, name):
        return z3.Bool(fresh_name(name))

    def str(self, name):
        return z3.String(fresh_name(name))

    def size(self, name, lo=0):
        """a symbolic size; concrete in the finite-scope pass"""
        if self.scope is not None and name in self.scope:
            return self.scope[name]
        v = z3.Int(fresh_name(name))
        self.assume(v >= lo)
        return v

    def nd(self, name, shape, kind="real", nan=False):
        return NdArr.fresh(name, shape, kind, nan)

    def new_obj(self, key, fields):
        """instance of an in-repo class ('relpath::ClassName') with the given attributes"""
        relpath, name = key.split("::")
        cls = self.repo.module(relpath).defs[name]
        return Obj(cls, fields)

    def forall(self, nvars, fn, names=None):
        vs = [z3.Int(fresh_name((names or ["q"] * nvars)[i])) for i in range(nvars)]
        body = fn(*vs)
        return z3.ForAll(vs, body)

    def forall_range(self, bounds, fn):
        """forall i_k in [lo_k, hi_k): fn(i...)   (expanded when all bounds are concrete)"""
        if all(isinstance(lo, int) and isinstance(hi, int) for lo, hi in bounds):
            import itertools
            return z3.And(*[zbool(fn(*idx)) for idx in
                            itertools.product(*[range(lo, hi) for lo, hi in bounds])] or [z3.BoolVal(True)])
        vs = [z3.Int(fresh_name("q")) for _ in bounds]
        guard = z3.And(*[z3.And(v >= z(lo), v < z(hi)) for v, (lo, hi) in zip(vs, bounds)])
        return z3.ForAll(vs, z3.Implies(guard, zbool(fn(*vs))))

    # -- raising ------------------------------------------------------------------------
    def raise_(self, cls, node=None, origin="registry", args=()):
        raise Raised(cls, args, node, origin)

    def safety(self, name, cond, node, exc):
        """built-in safety obligation: if it can fail, Python raises `exc` there"""
        if isinstance(cond, bool):
            if cond:
                return
            self.raise_(exc, node, "safety")
        cond = z3.simplify(zbool(cond))
        if z3.is_true(cond):
            return
        if self.branch(cond):
            return
        self.raise_(exc, node, "safety")

    # -- function entry -----------------------------------------------------------------
    def call_repo_function(self, func, args, kwargs, closure_env=None, self_obj=None, node=None):
        fnode = func.node
        frame = Frame(func, func.module, parent=closure_env)
        params = fnode.args
        if params.posonlyargs:
            raise Unsupported("positional-only parameters")
        names = [a.arg for a in params.args]
        for d in func.decorators:
            # a decorator replaces the function: only the binding decorators are modelled; anything else (caching, wrapping ...)
            # is not executed as the plain body
            if d not in ("staticmethod", "classmethod", "property") and not d.endswith(".setter"):
                raise Unsupported("decorator @%s on %s is not modelled (the function is not its plain body)" % (d, func.name))
        is_static = "staticmethod" in func.decorators
        is_classm = "classmethod" in func.decorators
        pos = list(args)
        if is_classm:
            # cls is the class the method was reached through (an instance's class, the class itself, else the defining class)
            klass = self_obj.cls if isinstance(self_obj, Obj) else (self_obj if isinstance(self_obj, RepoClass) else func.cls)
            if not isinstance(klass, RepoClass):
                raise Unsupported("classmethod call on %r" % (klass,))
            pos = [klass] + pos
        elif self_obj is not None and not is_static:
            pos = [self_obj] + pos
        bound = {}
        if len(pos) > len(names):
            if params.vararg is None:
                self.raise_("TypeError", node, "call")
            bound[params.vararg.arg] = tuple(pos[len(names):])
            pos = pos[:len(names)]
        elif params.vararg is not None:
            bound[params.vararg.arg] = ()
        for n, v in zip(names, pos):
            bound[n] = v
        kw = dict(kwargs)
        kwonly = [a.arg for a in params.kwonlyargs]
        extra = {}
        for k, v in kw.items():
            if type(k).__name__ == "SymKey":
                # a keyword whose name is symbolic: decide against every parameter name
                hit = None
                for nme in names + kwonly:
                    if self.branch(k.term == z3.StringVal(nme)):
                        hit = nme
                        break
                if hit is None:
                    extra[k] = v
                    continue
                k = hit
            if k in names or k in kwonly:
                if k in bound:
                    self.raise_("TypeError", node, "call")
                bound[k] = v
            else:
                extra[k] = v
        if extra:
            if params.kwarg is None:
                self.raise_("TypeError", node, "call")
        if params.kwarg is not None:
            bound[params.kwarg.arg] = extra
        # defaults
        defaults = params.defaults
        for n, d in zip(names[len(names) - len(defaults):], defaults):
            if n not in bound:
                bound[n] = self.eval_default(d, func, closure_env)
        for a, d in zip(params.kwonlyargs, params.kw_defaults):
            if a.arg not in bound and d is not None:
                bound[a.arg] = self.eval_default(d, func, closure_env)
        for n in names + kwonly:
            if n not in bound:
                self.raise_("TypeError", node, "call")
        frame.locals.update(bound)
        frame.localnames = local_names(fnode)
        saved = self.cur_func
        self.cur_func = func
        self.inline_depth += 1
        if self.inline_depth > 40:
            raise Unsupported("inline depth (recursion without contract?) at %s" % func.key)
        try:
            if any(isinstance(n, (ast.Yield, ast.YieldFrom)) for n in walk_no_nested(fnode)):
                return self.run_generator(fnode, frame)
            try:
                self.exec_block(fnode.body, frame)
            except _Return as r:
                return r.value
            return None
        finally:
            if self.inline_depth == 1:
                self.ps["top_locals"] = frame.locals      # white-box postconditions of the function under contract may read them
            self.cur_func = saved
            self.inline_depth -= 1

    def run_generator(self, fnode, frame):
        frame.locals["$yield"] = []
        try:
            self.exec_block(fnode.body, frame)
        except _Return:
            pass
        return GenResult(frame.locals["$yield"])

    def eval_default(self, d, func, closure_env):
        fr = Frame(func, func.module, parent=closure_env)
        return self.eval(d, fr)

    # -- statements ---------------------------------------------------------------------
    def exec_block(self, body, frame):
        for st in body:
            self.exec_stmt(st, frame)

    def exec_stmt(self, st, fr):
        self.gen_ticks += 1
        if self.gen_ticks % 256 == 0 and time.time() - self.gen_t0 > self.gen_budget_s:
            raise Unsupported("generation budget of %d s exceeded after %d paths (statement %s)" % (self.gen_budget_s, self.paths, self.where(st)))
        m = getattr(self, "st_" + type(st).__name__, None)
        if m is None:
            raise Unsupported("statement %s at %s" % (type(st).__name__, self.where(st)))
        return m(st, fr)

    def st_Expr(self, st, fr):
        if isinstance(st.value, ast.Constant):
            return
        if isinstance(st.value, ast.Yield):
            v = self.eval(st.value.value, fr) if st.value.value is not None else None
            fr.locals["$yield"].append(v)
            return
        if isinstance(st.value, ast.YieldFrom):
            v = self.eval(st.value.value, fr)
            fr.locals["$yield"].extend(self.iterate_concrete(v, st))
            return
        self.eval(st.value, fr)

    def st_Pass(self, st, fr):
        pass

    def st_Assign(self, st, fr):
        v = self.eval(st.value, fr)
        if isinstance(v, list) and not v and len(st.targets) == 1 and isinstance(st.targets[0], ast.Name) and self.top is not None \
                and st.targets[0].id in getattr(self.top, "symbolic_lists", ()) and self.cur_func is not None \
                and self.cur_func.key == self.top.key:
            # a list that closures under contract append to: symbolic length (declared by the contract)
            sl = self.top.symbolic_lists
            kind = sl.get(st.targets[0].id, "real") if isinstance(sl, dict) else "real"
            v = SList.empty(z3.IntSort() if kind == "int" else z3.RealSort(), nan=(kind != "int"))
            if kind == "int":
                from .values import memF
                q_ = z3.Int(fresh_name("mq"))
                self.axiom(z3.ForAll([q_], z3.Not(memF(v.term, v.length, q_))))
            hook = getattr(self.top, "list_hook", None)
            if hook is not None:
                hook(self, st.targets[0].id, v)
        if isinstance(v, dict) and not v and len(st.targets) == 1 and isinstance(st.targets[0], ast.Name) and self.top is not None \
                and st.targets[0].id in getattr(self.top, "symbolic_dicts", {}) and self.cur_func is not None \
                and self.cur_func.key == self.top.key:
            # a dictionary filled in a loop of symbolic length: unbounded symbolic key set (declared by the contract: key sort)
            from .dicts import SymMap, SymListDict
            kind_ = self.top.symbolic_dicts[st.targets[0].id]
            if kind_ == "pairlists":
                v = SymListDict(st.targets[0].id)      # (int, int) -> list of (number, int): see pyvc/dicts.py for the abstraction
            else:
                v = SymMap.empty(st.targets[0].id, self._sym_sort(kind_))
        if type(v).__name__ == "PySet" and not v.items and len(st.targets) == 1 and isinstance(st.targets[0], ast.Name) and self.top is not None \
                and st.targets[0].id in getattr(self.top, "symbolic_sets", {}) and self.cur_func is not None and self.cur_func.key == self.top.key:
            # a set filled in a loop of symbolic length (declared by the contract: element sort)
            from .dicts import SymSet
            v = SymSet.empty(st.targets[0].id, self._sym_sort(self.top.symbolic_sets[st.targets[0].id]))
        for t in st.targets:
            self.assign(t, v, fr)

    def _sym_sort(self, kind):
        if callable(kind):
            kind = kind(self)
        if kind == "int":
            return z3.IntSort()
        if kind == "key":
            from .sparsemodel import Key
            return Key
        raise Unsupported("key kind %r" % (kind,))

    def st_AnnAssign(self, st, fr):
        if st.value is not None:
            self.assign(st.target, self.eval(st.value, fr), fr)

    def st_AugAssign(self, st, fr):
        t = st.target
        if isinstance(t, ast.Name):
            cur = self.load_name(t.id, fr, t)
            rhs = self.eval(st.value, fr)
            if isinstance(cur, NdArr):
                self.note_write(cur, st)
                self.inplace_arr(cur, st.op, rhs, st)
                return
            if isinstance(cur, list) and isinstance(st.op, ast.Add):
                cur.extend(self.iterate_concrete(rhs, st))
                return
            self.store_name(t.id, self.binop(st.op, cur, rhs, st), fr)
        elif isinstance(t, ast.Subscript):
            base = self.eval(t.value, fr)
            idx = self.eval_index(t.slice, fr)
            self._augassign_target = True       # a[mask] <op>= v updates in place: keep the masked view
            try:
                cur = self.getitem(base, idx, t)
            finally:
                self._augassign_target = False
            rhs = self.eval(st.value, fr)
            if isinstance(cur, NdArr) or type(cur).__name__ == "MaskedView":
                if isinstance(base, NdArr):
                    self.note_write(base, st)
                self.inplace_arr(cur, st.op, rhs, st)
            else:
                self.setitem(base, idx, self.binop(st.op, cur, rhs, st), t)
        elif isinstance(t, ast.Attribute):
            base = self.eval(t.value, fr)
            cur = self.getattr(base, t.attr, t)
            rhs = self.eval(st.value, fr)
            if isinstance(cur, NdArr):
                self.inplace_arr(cur, st.op, rhs, st)
            else:
                self.setattr(base, t.attr, self.binop(st.op, cur, rhs, st), t)
        else:
            raise Unsupported("augassign target")

    def st_Return(self, st, fr):
        raise _Return(self.eval(st.value, fr) if st.value is not None else None)

    def st_If(self, st, fr):
        if self.truth(self.eval(st.test, fr), st.test):
            self.exec_block(st.body, fr)
        else:
            self.exec_block(st.orelse, fr)

    def st_Raise(self, st, fr):
        if st.exc is None:
            cur = fr.locals.get("$handling")
            if cur is None:
                raise Unsupported("bare raise outside handler")
            raise cur
        cls, args = self.exc_of(st.exc, fr)
        raise Raised(cls, args, st, "raise")

    def exc_of(self, e, fr):
        if isinstance(e, ast.Call):
            nm = ast.unparse(e.func).split(".")[-1]
            return nm, ()
        if isinstance(e, ast.Name):
            v = fr.locals.get(e.id)
            if isinstance(v, Raised):
                return v.cls, v.args_
            return e.id, ()
        raise Unsupported("raise expression")

    def st_Assert(self, st, fr):
        if not self.truth(self.eval(st.test, fr), st.test):
            raise Raised("AssertionError", (), st, "assert")

    def st_Delete(self, st, fr):
        for t in st.targets:
            if isinstance(t, ast.Name):
                fr.locals.pop(t.id, None)
            elif isinstance(t, ast.Subscript):
                base = self.eval(t.value, fr)
                idx = self.eval_index(t.slice, fr)
                if isinstance(base, dict):
                    from . import dicts
                    k = dicts.find(self.registry, self, base, idx, t)
                    if k is None:
                        self.raise_("KeyError", t, "safety")
                    del base[k]
                elif type(base).__name__ == "ListView":
                    base.delitem(self, idx, t)
                else:
                    raise Unsupported("del subscript")
            elif isinstance(t, ast.Attribute):
                base = self.eval(t.value, fr)
                if isinstance(base, Obj):
                    if t.attr not in base.fields:
                        self.raise_("AttributeError", t, "safety")
                    del base.fields[t.attr]
                    base.events.append(("del", t.attr))
                else:
                    raise Unsupported("del attribute")
            else:
                raise Unsupported("del target")

    def st_Import(self, st, fr):
        for a in st.names:
            fr.locals[a.asname or a.name.split(".")[0]] = ExternMod(a.name if a.asname else a.name.split(".")[0])

    def st_ImportFrom(self, st, fr):
        from .frontend import RepoModule
        tmp = RepoModule.__new__(RepoModule)
        tmp.repo, tmp.relpath, tmp.imports = fr.module.repo, fr.module.relpath, {}
        RepoModule._import_from(tmp, st)
        for nm, ent in tmp.imports.items():
            fr.locals[nm] = self.resolve_import(ent)

    def st_FunctionDef(self, st, fr):
        f = RepoFunc(fr.module, st, (fr.func.qualname + "." if fr.func else "") + st.name, parent=fr.func)
        fr.locals[st.name] = Closure(f, fr)

    def st_ClassDef(self, st, fr):
        fr.locals[st.name] = RepoClass(fr.module, st)

    def st_Global(self, st, fr):
        raise Unsupported("global")

    def st_Break(self, st, fr):
        raise _Break()

    def st_Continue(self, st, fr):
        raise _Continue()

    def st_With(self, st, fr):
        for item in st.items:
            self.eval(item.context_expr, fr)
            if item.optional_vars is not None:
                raise Unsupported("with ... as")
        self.exec_block(st.body, fr)

    def st_Try(self, st, fr):
        try:
            try:
                self.exec_block(st.body, fr)
            except Raised as r:
                for h in st.handlers:
                    if h.type is None:
                        names = ["BaseException"]
                    elif isinstance(h.type, ast.Tuple):
                        names = [ast.unparse(e).split(".")[-1] for e in h.type.elts]
                    else:
                        names = [ast.unparse(h.type).split(".")[-1]]
                    if any(exc_matches(r.cls, n) for n in names):
                        if h.name:
                            fr.locals[h.name] = r
                        old = fr.locals.get("$handling")
                        fr.locals["$handling"] = r
                        try:
                            self.exec_block(h.body, fr)
                        finally:
                            fr.locals["$handling"] = old
                        break
                else:
                    raise
            else:
                self.exec_block(st.orelse, fr)
        finally:
            # NB: runs for Raised/_Return/_Break as in Python; PathEnd also passes through here,
            # which is harmless because a cut path generates no further obligations of interest
            if st.finalbody:
                import sys
                if not isinstance(sys.exc_info()[1], PathEnd):
                    self.exec_block(st.finalbody, fr)

    # -- loops --------------------------------------------------------------------------
    def st_While(self, st, fr):
        inv = self.loop_invariant(st)
        if inv is None:
            # concrete unrolling only
            n = 0
            while True:
                c = self.eval(st.test, fr)
                if is_sym(c) and not (z3.is_true(z3.simplify(zbool(c))) or z3.is_false(z3.simplify(zbool(c)))):
                    raise Unsupported("while loop with symbolic guard and no invariant at %s" % self.where(st))
                if not self.truth(c, st.test):
                    break
                try:
                    self.exec_block(st.body, fr)
                except _Break:
                    return
                except _Continue:
                    pass
                n += 1
                if n > 10000:
                    raise Unsupported("while loop does not terminate concretely")
            self.exec_block(st.orelse, fr)
            return
        self.cut_loop(st, fr, inv, None)

    def st_For(self, st, fr):
        it = self.eval(st.iter, fr)
        inv = self.loop_invariant(st)
        seq = self.as_iterspec(it, st)
        if seq.concrete is not None:
            self.note_loop(st, "rule1-unrolled")
            for item in seq.concrete:
                self.assign(st.target, item, fr)
                try:
                    self.exec_block(st.body, fr)
                except _Break:
                    return
                except _Continue:
                    continue
            self.exec_block(st.orelse, fr)
            return
        if inv is None:
            raise Unsupported("for loop over symbolic iteration space without invariant at %s (loop #%s)"
                              % (self.where(st), self.loop_ordinal(st)))
        self.cut_loop(st, fr, inv, seq)

    def eval_invariant(self, inv, L, k):
        """the named clauses of a loop invariant in the current state; an invariant that names a local variable the function no
        longer has (renamed, removed) cannot be evaluated: the function is undecided, not wrong"""
        try:
            return named(inv(self, L))
        except KeyError as e:
            raise Unsupported("the invariant of loop #%s of %s refers to %s, which is not a local variable here (renamed or removed?): "
                              "the contract needs review" % (k, self.cur_func.key if self.cur_func else "?", e))

    def loop_ordinal(self, st):
        f = self.cur_func
        for k, n in enumerate(f.loops()):
            if n is st:
                return k
        return None

    def loop_invariant(self, st):
        f = self.cur_func
        c = self.contracts.get(f.key)
        if c is None:
            return None
        k = self.loop_ordinal(st)
        return c.loops.get(k)

    def note_loop(self, st, rule):
        f = self.cur_func
        self.loop_rules["%s#%s" % (f.key, self.loop_ordinal(st))] = rule

    def cut_loop(self, st, fr, inv, seq):
        """rule 2: invariant cut"""
        f = self.cur_func
        k = self.loop_ordinal(st)
        lid = "%s#%d" % (f.qualname, k)
        self.note_loop(st, "rule2-invariant")
        c = self.contracts[f.key]
        pre = snapshot_env(fr)
        L = LoopCtx(self, fr, pre, seq, st)
        # inv-init
        L.k = 0
        if seq is not None:
            L.bind_index(0)
        n_pc = len(self.pc)
        for name, g in self.eval_invariant(inv, L, k).items():
            self.oblige("%s.%s.inv-init.%s" % (self.prop, lid, name), g, "inv-init", st)
            if c.sequential:
                self.assume(g)      # clauses are proved in order: an earlier clause is a hypothesis of the later ones
        del self.pc[n_pc:]
        # havoc
        mods = assigned_names(st.body) | set(c.loop_modifies.get(k, []))
        if isinstance(st, ast.For):
            mods |= target_names(st.target)
        heap_mods = (mutated_names(st.body) | set(c.loop_modifies.get(k, []))) - set(getattr(c, "loop_ignore", {}).get(k, []))
        self._only_augassigned = augassigned_only(st.body)
        self._loop_kinds = c.loop_kinds.get(k, {})
        for ex in mutated_exprs(st.body):
            # arrays reached through attribute chains (cl.tree_.value[i] = ...).  A chain that does not denote an array
            # in this state belongs to a branch that cannot run here (executing it raises Unsupported in the body).
            try:
                tgt = self.eval(ex, fr)
            except (Unsupported, Raised):
                tgt = None
            if isinstance(tgt, NdArr):
                self._havoc_cell(tgt, ast.unparse(ex))
        attr_mods = mutated_attrs(st.body)
        # entries d["const"] of a concrete dict that the body re-assigns: only those entries are havoced
        saved_entries = []
        for b, keys_ in sorted(mutated_dict_entries(st.body).items()):
            d = self.lookup_local(b, fr)
            if isinstance(d, dict) and keys_ is not None and all(k_ in d for k_ in keys_):
                heap_mods.discard(b)
                for k_ in sorted(keys_, key=repr):
                    saved_entries.append((d, k_, d[k_]))
                    d[k_] = self.havoc_value("%s[%r]" % (b, k_), d[k_], rebind=True)
        self.havoc(fr, mods, heap_mods - {b for b, _ in attr_mods if self._is_obj(b, fr)}, pre)
        for b, attr in sorted(attr_mods):
            o = self.lookup_local(b, fr)
            if isinstance(o, Obj):
                if attr in o.fields:
                    o.fields[attr] = self.havoc_value("%s.%s" % (b, attr), o.fields[attr], rebind=True)
                else:
                    kind = self._loop_kinds.get("%s.%s" % (b, attr))
                    if kind is None:
                        raise Unsupported("attribute %s.%s first assigned in a cut loop (declare loop_kinds)" % (b, attr))
                    o.fields[attr] = {"real": self.real, "int": self.int, "bool": self.bool}[kind](attr)
        kk = self.int("k") if seq is not None else None
        reshaped = dict(getattr(c, "loop_reshaped", {}).get(k, {}))
        which = self.choose([None, None, None])  # 0: arbitrary iteration, 1: exit, 2: peeled first iteration
        if reshaped and which == 1 and seq is not None and self.choose([None, None]) == 1:
            # exit after ZERO iterations: the entry state itself (the invariant cut below speaks about the representation after >= 1 iterations)
            self.restore_env(fr, pre, mods, heap_mods, attr_mods)
            for d_, k_, v_ in saved_entries:
                d_[k_] = v_
            self.assume(z(seq.length) <= 0)
            if not self.feasible(z3.BoolVal(True) if not self.pc else self.pc[-1]):
                raise PathEnd("infeasible")
            self.exec_block(st.orelse, fr)
            return
        if reshaped and which in (0, 1):
            if seq is None:
                raise Unsupported("loop_reshaped on a while loop")
            for nme, kind in sorted(reshaped.items()):
                fr.locals[nme] = self.fresh_of_kind(nme, kind)
            self.assume(kk >= 1 if which == 0 else z(seq.length) >= 1)
        if which == 2:
            # the first iteration from the real entry state (no havoc): its safety obligations, unbound
            # locals, writes through aliases of the entry state.  Ends after one body execution.
            self.restore_env(fr, pre, mods, heap_mods, attr_mods)
            for d_, k_, v_ in saved_entries:
                d_[k_] = v_
            if seq is not None:
                self.assume(z(seq.length) > 0)
                L.k = 0
                self.assign(st.target, seq.item(z3.IntVal(0)), fr)
            else:
                if not self.truth(self.eval(st.test, fr), st.test):
                    raise PathEnd("guard-false")
            brk0 = False
            try:
                self.exec_block(st.body, fr)
            except _Break:
                brk0 = True
            except _Continue:
                pass
            if reshaped and not brk0:
                # the representation of some variables after the first iteration differs from the one at loop entry (declared: loop_reshaped):
                # the arbitrary iteration starts from the later representation, so the step from the entry state is proved here
                if seq is None:
                    raise Unsupported("loop_reshaped on a while loop")
                for nme, kind in sorted(reshaped.items()):
                    now = self._repr_class(self.lookup_local(nme, fr))
                    if now != self._repr_class(self.fresh_of_kind(nme, kind)):
                        raise Unsupported("loop #%s of %s: %s is %s after the first iteration, not what loop_reshaped declares" % (k, f.key, nme, now))
                L.k = 1
                L.bind_index(1)
                for name, g in self.eval_invariant(inv, L, k).items():
                    self.oblige("%s.%s.inv-step.%s" % (self.prop, lid, name), g, "inv-step", st)
                    if c.sequential:
                        self.assume(g)
            self.at_path_cut("first-iteration")
            raise PathEnd("first-iteration")
        declared = dict(self._loop_kinds)
        for nme in sorted(mods):
            if isinstance(fr.locals.get(nme), Unbound) and nme in declared:
                fr.locals[nme] = self.fresh_of_kind(nme, declared[nme])
                fr.locals["$maybe_unbound"] = fr.locals.get("$maybe_unbound", set()) | {nme}
        if which == 0:
            if seq is not None:
                self.assume(z3.And(kk >= 0, kk < z(seq.length)))
                L.k = kk
                L.bind_index(kk)
            for name, g in self.eval_invariant(inv, L, k).items():
                self.assume(g)
            if not self.feasible(z3.BoolVal(True) if not self.pc else self.pc[-1]):
                raise PathEnd("infeasible")       # the invariant excludes this combination of havoced values
            if seq is not None:
                self.assign(st.target, seq.item(kk), fr)
            else:
                if not self.truth(self.eval(st.test, fr), st.test):
                    raise PathEnd("guard-false")
            brk = False
            head_repr = {nme: self._repr_class(self.lookup_local(nme, fr)) for nme in mods}
            try:
                self.exec_block(st.body, fr)
            except _Break:
                brk = True
            except _Continue:
                pass
            if brk:
                return                          # continue after the loop with the state at the break
            for nme in sorted(mods):
                # the arbitrary iteration started from a havoced value of the SAME representation as at loop entry (rank and kind of an array,
                # integer / real / ... of a scalar): a loop that changes the representation from one iteration to the next is not covered by it
                was, now = head_repr.get(nme), self._repr_class(self.lookup_local(nme, fr))
                if was is not None and now is not None and was != now:
                    raise Unsupported("loop #%s of %s: %s is %s at the start of an iteration and %s at the end of it (the invariant cut assumes "
                                      "one representation per variable)" % (k, f.key, nme, was, now))
            if seq is not None:
                L.k = kk + 1
                L.bind_index(kk + 1)
            for name, g in self.eval_invariant(inv, L, k).items():
                self.oblige("%s.%s.inv-step.%s" % (self.prop, lid, name), g, "inv-step", st)
                if c.sequential:
                    self.assume(g)  # proved in order (the path ends here)
            dec = c.loop_decreases.get(k)
            if dec is not None and seq is None:
                raise Unsupported("while-loop decreases not implemented")
            self.at_path_cut("inv-step")
            raise PathEnd("inv-step")
        else:
            for nme in sorted(fr.locals.get("$maybe_unbound", set())):
                # a local first assigned in the loop is unbound after zero iterations
                if seq is not None and nme in fr.locals and self.branch(z(seq.length) <= 0):
                    del fr.locals[nme]
            fr.locals.pop("$maybe_unbound", None)
            if seq is not None:
                n = z(seq.length)
                end = z3.If(n > 0, n, z3.IntVal(0))
                L.k = z3.simplify(end)
                L.bind_index(L.k)
                for name, g in self.eval_invariant(inv, L, k).items():
                    self.assume(g)
                if not self.feasible(z3.BoolVal(True) if not self.pc else self.pc[-1]):
                    raise PathEnd("infeasible")
                # the loop variable keeps its last value (if the loop ran at all)
                if isinstance(st.target, ast.Name) and self.branch(n > 0):
                    self.assign(st.target, seq.item(z3.simplify(n - 1)), fr)
            else:
                for name, g in self.eval_invariant(inv, L, k).items():
                    self.assume(g)
                if not self.feasible(z3.BoolVal(True) if not self.pc else self.pc[-1]):
                    raise PathEnd("infeasible")
                if self.truth(self.eval(st.test, fr), st.test):
                    raise PathEnd("guard-true-at-exit")
            self.exec_block(st.orelse, fr)

    def _repr_class(self, v):
        """what the havoc of a loop cut keeps of a value: None when nothing is fixed (unbound, None, objects, ...)"""
        if isinstance(v, NdArr):
            return "a %d-d %s array" % (v.ndim, v.kind)
        if isinstance(v, bool) or (is_sym(v) and z3.is_bool(v)):
            return "a boolean"
        if isinstance(v, (Unbound, HavocNone)) or v is None or v is _MISSING:
            return None
        if is_int_like(v):
            return "an integer"
        if is_real_like(v):
            return "a real number"
        if is_str_like(v):
            return "a string"
        return None

    def fresh_of_kind(self, n, kind):
        if isinstance(kind, tuple) and kind[0] == "nd":
            dims = tuple(self.int(n + "_dim") for _ in range(kind[1]))
            for d in dims:
                self.assume(d >= 0)
            return NdArr.fresh(n, dims, kind[2] if len(kind) > 2 else "real")
        return {"real": self.real, "int": self.int, "bool": self.bool, "str": self.str}[kind](n)

    def restore_env(self, fr, pre, mods, heap_mods, attr_mods):
        """undo the havoc: rebind names to their loop-entry values (objects were snapshotted by term)"""
        for n in set(mods) | set(heap_mods):
            cur = self.lookup_local(n, fr)
            if n not in pre:
                if cur is not _MISSING:
                    self.owner_frame(n, fr).locals.pop(n, None)
                continue
            old = pre[n]
            if "$frame_" + n in pre and isinstance(old, Obj):
                m_, sn_ = old.fields["$matrix"], pre["$frame_" + n]
                m_.cell.term, m_.cell.nan = sn_.cell.term, sn_.cell.nan
                self.owner_frame(n, fr).locals[n] = old
                continue
            if type(old).__name__ in ("SymListDict", "ListView") and "$live_" + n in pre:
                live = pre["$live_" + n]
                (live.d if type(live).__name__ == "ListView" else live).restore(old.d if type(old).__name__ == "ListView" else old)
                self.owner_frame(n, fr).locals[n] = live
            elif type(old).__name__ == "SymSet" and "$live_" + n in pre:
                live = pre["$live_" + n]
                live.member, live.count = old.member, old.count
                self.owner_frame(n, fr).locals[n] = live
            elif type(old).__name__ == "SymMap" and "$live_" + n in pre:
                live = pre["$live_" + n]
                live.member, live.value, live.count = old.member, old.value, old.count
                self.owner_frame(n, fr).locals[n] = live
            elif isinstance(old, (NdArr, SList)) and "$live_" + n in pre:
                live = pre["$live_" + n]
                if isinstance(live, NdArr):
                    live.cell.term, live.cell.nan = old.cell.term, old.cell.nan
                else:
                    live.term, live.length = old.term, old.length
                self.owner_frame(n, fr).locals[n] = live
            else:
                self.owner_frame(n, fr).locals[n] = old
        for b, attr in attr_mods:
            o = self.lookup_local(b, fr)
            key = "$attr_%s.%s" % (b, attr)
            if isinstance(o, Obj):
                if key in pre:
                    o.fields[attr] = pre[key]
                else:
                    o.fields.pop(attr, None)

    def at_path_cut(self, why):
        hook = getattr(self, "cut_hook", None)
        if hook is not None:
            hook(self, why)

    def havoc(self, fr, names, heap_names, pre):
        for n in sorted(names):
            cur = self.lookup_local(n, fr)
            if cur is _MISSING:
                fr.locals[n] = Unbound(n)
                continue
            fr_owner = self.owner_frame(n, fr)
            fr_owner.locals[n] = self.havoc_value(n, cur, rebind=True)
        for n in sorted(heap_names):
            cur = self.lookup_local(n, fr)
            if cur is _MISSING:
                continue
            self.havoc_value(n, cur, rebind=False)

    def _is_obj(self, n, fr):
        return isinstance(self.lookup_local(n, fr), Obj)

    def havoc_value(self, n, cur, rebind):
        if isinstance(cur, Unbound):
            return cur
        if isinstance(cur, NdArr):
            if rebind and n not in self._only_augassigned:
                # the name is re-bound in the loop: a different array each iteration (fresh shape)
                dims = tuple(self.int(n + "_dim") for _ in cur.shape)
                for d in dims:
                    self.assume(d >= 0)
                return NdArr.fresh(n, dims, cur.kind, nan=cur.cell.nan is not None)
            return self._havoc_cell(cur, n)
        if type(cur).__name__ == "SymListDict":
            cur.havoc(self)
            return cur
        if type(cur).__name__ == "ListView":
            # an alias of one list of a dictionary of lists: what is written through it is written into the dictionary
            if not cur.detached:
                cur.d.havoc(self)
            return Unbound(n) if rebind else cur
        if type(cur).__name__ == "SymSet":
            cur.member = z3.Const(fresh_name(n + "_in"), cur.member.sort())
            cur.count = self.int(n + "_count")
            self.assume(cur.count >= 0)
            return cur
        if type(cur).__name__ == "SymMap":
            cur.member = z3.Const(fresh_name(n + "_in"), cur.member.sort())
            cur.value = z3.Const(fresh_name(n + "_val"), cur.value.sort())
            cur.count = self.int(n + "_count")
            self.assume(cur.count >= 0)
            return cur
        if isinstance(cur, SList):
            cur.term = z3.Const(fresh_name(n), cur.term.sort())
            cur.length = self.int(n + "_len")
            self.assume(cur.length >= 0)
            return cur
        if not rebind:
            if isinstance(cur, Obj) and cur.tag == "DataFrame" and isinstance(cur.fields.get("$matrix"), NdArr):
                # a numeric data frame written through .iloc in the loop: its values are havocked, labels and identity stay
                self._havoc_cell(cur.fields["$matrix"], n)
                return cur
            if isinstance(cur, Obj):
                raise Unsupported("havoc of object %s in loop (give loop_modifies/attributes)" % n)
            if isinstance(cur, (list, dict)):
                raise Unsupported("havoc of concrete %s %s in a cut loop" % (type(cur).__name__, n))
            return cur
        if isinstance(cur, bool) or (is_sym(cur) and z3.is_bool(cur)):
            return self.bool(n)
        if is_int_like(cur):
            return self.int(n)
        if is_real_like(cur):
            return self.real(n)
        if is_str_like(cur):
            return self.str(n)
        if cur is None:
            # "*none*": what a contract declares for every None-initialised loop variable it does not name (so that renaming such a local does
            # not make the function undecided when all of them have the same kind)
            kind = self._loop_kinds.get(n, self._loop_kinds.get("*none*"))
            if kind is None:
                return HavocNone(n)
            if self.choose([None, None]) == 0:
                return None
            return self.fresh_of_kind(n, kind)
        if isinstance(cur, tuple):
            return tuple(self.havoc_value("%s_%d" % (n, i), c, True) for i, c in enumerate(cur))
        if isinstance(cur, Opaque):
            return Opaque(z3.Const(fresh_name(n), cur.term.sort()), cur.tag)
        if rebind and isinstance(cur, Obj):
            # the name is re-bound in the loop (a loop target, a temporary) and holds an object from before the loop: what it holds at the
            # start of an arbitrary iteration is unknown - reading it before it is assigned again is refused (Unbound)
            return Unbound(n)
        raise Unsupported("havoc of %s (%s)" % (n, type(cur).__name__))

    def _havoc_cell(self, arr, n):
        arr.cell.writes += 1          # havoc stands for writes of the loop body / the callee: frame conditions see it
        arr.cell.term = z3.Const(fresh_name(n), arr.cell.term.sort())
        if arr.cell.nan is not None:
            arr.cell.nan = z3.Const(fresh_name(n + "_nan"), arr.cell.nan.sort())
        return arr

    # -- names --------------------------------------------------------------------------
    def lookup_local(self, n, fr):
        f = fr
        while f is not None:
            if n in f.locals:
                return f.locals[n]
            f = f.parent
        return _MISSING

    def owner_frame(self, n, fr):
        f = fr
        while f is not None:
            if n in f.locals:
                return f
            f = f.parent
        return fr

    def load_name(self, n, fr, node=None):
        f = fr
        while f is not None:
            if n in f.locals:
                v = f.locals[n]
                if isinstance(v, Unbound):
                    # read of a local that is only assigned later in the loop body: on the first
                    # iteration Python raises UnboundLocalError, afterwards the value is stale
                    self.oblige("%s.%s.unbound-local.%s" % (self.prop, self.cur_func.qualname, n),
                                z3.BoolVal(False), "safety", node)
                    raise PathEnd("unbound-local")
                return v
            if n in f.localnames and f is fr and n not in f.locals:
                self.raise_("UnboundLocalError", node, "safety")
            f = f.parent
        mod = fr.module
        if n in mod.defs:
            d = mod.defs[n]
            return Closure(d, None) if isinstance(d, RepoFunc) else d
        if n in mod.imports:
            return self.resolve_import(mod.imports[n])
        if n in mod.consts:
            return self.eval(mod.consts[n], Frame(None, mod))
        b = self.registry.builtin(n)
        if b is not None:
            return b
        raise Unsupported("name %s at %s" % (n, self.where(node)))

    def resolve_import(self, ent):
        if ent[0] == "ext":
            nm = ent[1]
            if self.registry.is_module(nm):
                return ExternMod(nm)
            from .npmodel import CONSTS
            if nm in CONSTS:
                return CONSTS[nm]
            return self.registry.extern(nm)
        if ent[0] == "repomod":
            return RepoModRef(self.repo.module(ent[1]))
        _, relpath, name = ent
        if relpath.endswith(".pyx") and not (self.cur_func is not None and self.cur_func.module.relpath.endswith(".pyx")) \
                and relpath not in getattr(self.top, "pyx_source", ()):
            # seen from Python code a compiled extension is an assumed model; seen from extracted Cython text it is source
            return self.registry.extern("pyx:" + relpath + "::" + name)
        mod = self.repo.module(relpath)
        if name in mod.defs:
            d = mod.defs[name]
            return Closure(d, None) if isinstance(d, RepoFunc) else d
        if name in mod.imports:
            return self.resolve_import(mod.imports[name])
        if name in mod.consts:
            return self.eval(mod.consts[name], Frame(None, mod))
        raise Unsupported("import %s from %s" % (name, relpath))

    def store_name(self, n, v, fr):
        # closures never rebind outer names here (no nonlocal in the target code)
        fr.locals[n] = v

    def assign(self, t, v, fr):
        if isinstance(t, ast.Name):
            self.store_name(t.id, v, fr)
        elif isinstance(t, (ast.Tuple, ast.List)):
            items = self.iterate_concrete(v, t)
            if len(items) != len(t.elts):
                self.raise_("ValueError", t, "safety")
            for e, x in zip(t.elts, items):
                self.assign(e, x, fr)
        elif isinstance(t, ast.Attribute):
            self.setattr(self.eval(t.value, fr), t.attr, v, t)
        elif isinstance(t, ast.Subscript):
            base = self.eval(t.value, fr)
            idx = self.eval_index(t.slice, fr)
            self.setitem(base, idx, v, t)
        elif isinstance(t, ast.Starred):
            raise Unsupported("starred target")
        else:
            raise Unsupported("assign target %s" % type(t).__name__)

    # -- expressions --------------------------------------------------------------------
    def eval(self, e, fr):
        m = getattr(self, "ex_" + type(e).__name__, None)
        if m is None:
            raise Unsupported("expression %s at %s" % (type(e).__name__, self.where(e)))
        return m(e, fr)

    def ex_Constant(self, e, fr):
        v = e.value
        if isinstance(v, float):
            return Fraction(v) if v == v and abs(v) != float("inf") else (NaN if v != v else v)
        if v is Ellipsis:
            return Ellipsis
        return v

    def ex_Name(self, e, fr):
        return self.load_name(e.id, fr, e)

    def ex_Tuple(self, e, fr):
        out = []
        for x in e.elts:
            if isinstance(x, ast.Starred):
                out.extend(self.iterate_concrete(self.eval(x.value, fr), x))
            else:
                out.append(self.eval(x, fr))
        return tuple(out)

    def ex_List(self, e, fr):
        return list(self.ex_Tuple(e, fr))

    def ex_Set(self, e, fr):
        return PySet(self.ex_Tuple(e, fr))

    def ex_Dict(self, e, fr):
        d = {}
        for k, v in zip(e.keys, e.values):
            if k is None:
                d.update(self.eval(v, fr))
            else:
                kk = self.eval(k, fr)
                self.setitem(d, kk, self.eval(v, fr), e)
        return d

    def ex_JoinedStr(self, e, fr):
        parts = []
        for p in e.values:
            if isinstance(p, ast.Constant):
                parts.append(p.value)
            else:
                v = self.eval(p.value, fr)
                parts.append(self.to_str(v, p))
        if all(isinstance(p, str) for p in parts):
            return "".join(parts)
        return z3.Concat(*[z(p) for p in parts]) if len(parts) > 1 else z(parts[0])

    def to_str(self, v, node=None):
        if isinstance(v, str):
            return v
        if isinstance(v, bool) or v is None:
            return str(v)
        if isinstance(v, int):
            return str(v)
        if is_sym(v) and z3.is_string(v):
            return v
        if is_sym(v) and z3.is_int(v):
            return self.registry.str_of_int(self, v)
        if isinstance(v, Fraction):
            return str(float(v))
        # opaque rendering: an unconstrained string
        return self.str("fmt")

    def ex_Attribute(self, e, fr):
        return self.getattr(self.eval(e.value, fr), e.attr, e)

    def ex_Subscript(self, e, fr):
        base = self.eval(e.value, fr)
        idx = self.eval_index(e.slice, fr)
        return self.getitem(base, idx, e)

    def eval_index(self, s, fr):
        if isinstance(s, ast.Slice):
            return slice(self.eval(s.lower, fr) if s.lower else None,
                         self.eval(s.upper, fr) if s.upper else None,
                         self.eval(s.step, fr) if s.step else None)
        if isinstance(s, ast.Tuple):
            return tuple(self.eval_index(x, fr) for x in s.elts)
        return self.eval(s, fr)

    def ex_Slice(self, e, fr):
        return self.eval_index(e, fr)

    def ex_UnaryOp(self, e, fr):
        v = self.eval(e.operand, fr)
        if isinstance(e.op, ast.Not):
            t = self.truth_value(v, e)
            return (not t) if isinstance(t, bool) else z3.Not(t)
        if isinstance(e.op, ast.USub):
            if isinstance(v, NdArr):
                return self.registry.arr_map(self, lambda a: -a, [v], v.kind)
            return -v if not is_sym(v) else -znum(v)
        if isinstance(e.op, ast.UAdd):
            return v
        if isinstance(e.op, ast.Invert):
            if isinstance(v, NdArr) and v.kind == "bool":
                return self.registry.arr_map(self, lambda a: z3.Not(a), [v], "bool")
            if isinstance(v, NdArr) and v.kind == "int":
                return self.registry.arr_map(self, lambda a: -a - 1, [v], "int")      # two's complement: ~x == -x-1
            if isinstance(v, int):
                return ~v
            if is_sym(v) and z3.is_int(v):
                return -v - 1
            if (isinstance(v, NdArr) and v.kind == "real") or isinstance(v, Fraction) or (is_sym(v) and z3.is_real(v)):
                self.raise_("TypeError", e, "safety")      # numpy / Python: ~ is not defined on floating-point values
        raise Unsupported("unary op %s on %r" % (type(e.op).__name__, v))

    def ex_BoolOp(self, e, fr):
        if getattr(self, "nofork", 0):
            # side evaluation (filter of a comprehension, generic element): operands are pure boolean expressions here, the truth
            # value of `a and b` / `a or b` is all that is used
            vals = [self.eval(x, fr) for x in e.values]
            if all(isinstance(v, bool) or (is_sym(v) and z3.is_bool(v)) for v in vals):
                zs = [z3.BoolVal(v) if isinstance(v, bool) else v for v in vals]
                return z3.And(*zs) if isinstance(e.op, ast.And) else z3.Or(*zs)
            raise Unsupported("non-boolean operands of and/or in a side evaluation")
        # short-circuit with forking: exact Python semantics (value of the deciding operand)
        v = None
        for i, x in enumerate(e.values):
            v = self.eval(x, fr)
            if i == len(e.values) - 1:
                return v
            t = self.truth(v, x)
            if isinstance(e.op, ast.And) and not t:
                return v
            if isinstance(e.op, ast.Or) and t:
                return v
        return v

    def ex_IfExp(self, e, fr):
        if self.truth(self.eval(e.test, fr), e.test):
            return self.eval(e.body, fr)
        return self.eval(e.orelse, fr)

    def ex_Compare(self, e, fr):
        left = self.eval(e.left, fr)
        result = None
        for op, r in zip(e.ops, e.comparators):
            right = self.eval(r, fr)
            c = self.compare(op, left, right, e)
            if result is None:
                result = c
            else:
                if isinstance(result, bool) and isinstance(c, bool):
                    result = result and c
                elif isinstance(result, NdArr) or isinstance(c, NdArr):
                    raise Unsupported("chained array comparison")
                else:
                    result = z3.And(zbool(result), zbool(c))
            left = right
        return result

    def ex_BinOp(self, e, fr):
        return self.binop(e.op, self.eval(e.left, fr), self.eval(e.right, fr), e)

    def ex_Lambda(self, e, fr):
        return LambdaFn(e, fr)

    def ex_Starred(self, e, fr):
        raise Unsupported("starred expression")

    def ex_ListComp(self, e, fr):
        return self.comprehension(e, fr, lambda f: self.eval(e.elt, f))

    def ex_GeneratorExp(self, e, fr):
        r = self.comprehension(e, fr, lambda f: self.eval(e.elt, f))
        return r if isinstance(r, SymSeq) else GenResult(r)

    def ex_SetComp(self, e, fr):
        return PySet(self.comprehension(e, fr, lambda f: self.eval(e.elt, f)))

    def ex_DictComp(self, e, fr):
        pairs = self.comprehension(e, fr, lambda f: (self.eval(e.key, f), self.eval(e.value, f)))
        if isinstance(pairs, SymSeq):
            # {k: v for ... in <symbolic-length seq>} with integer keys and values: a dictionary of unknown size whose CONTENTS ARE NOT
            # MODELLED (unconstrained membership / values: an over-approximation)
            from .dicts import SymMap
            pk = z3.Int(fresh_name("dk"))
            k0, v0 = self.side_eval(z3.And(pk >= 0, pk < z(pairs.length)), lambda: pairs.item(pk))
            if is_int_like(k0) and is_int_like(v0):
                return SymMap.fresh("dictcomp", z3.IntSort())
            raise Unsupported("dict comprehension over a symbolic iteration space with non-integer keys/values")
        d = {}
        for k, v in pairs:
            self.setitem(d, k, v, e)
        return d

    def comprehension(self, e, fr, elt):
        sub = Frame(fr.func, fr.module, parent=fr)
        sub.localnames = set()
        out = []

        def rec(gi):
            if gi == len(e.generators):
                out.append(elt(sub))
                return
            g = e.generators[gi]
            it = self.eval(g.iter, sub)
            spec = self.as_iterspec(it, g.iter)
            if spec.concrete is None:
                hook = self.registry.symbolic_comprehension
                raise _SymComp(spec, g, gi)
            for item in spec.concrete:
                self.assign(g.target, item, sub)
                if all(self.truth(self.eval(c, sub), c) for c in g.ifs):
                    rec(gi + 1)
        try:
            rec(0)
        except _SymComp as sc:
            if len(e.generators) != 1:
                raise Unsupported("nested comprehension over a symbolic iteration space at %s" % self.where(e))
            if e.generators[0].ifs:
                return self.registry.filtered_comprehension(self, sc.spec, e.generators[0], sub, elt, e)
            return self.registry.symbolic_comprehension(self, sc.spec, e.generators[0], sub, elt, e)
        return out

    def ex_Call(self, e, fr):
        # method calls on values: evaluate receiver first
        args = []
        for a in e.args:
            if isinstance(a, ast.Starred):
                args.extend(self.iterate_concrete(self.eval(a.value, fr), a))
            else:
                args.append(self.eval(a, fr))
        kwargs = {}
        for k in e.keywords:
            if k.arg is None:
                d = self.eval(k.value, fr)
                if isinstance(d, SymDict):
                    kwargs["$symkw"] = d
                else:
                    kwargs.update(d)
            else:
                kwargs[k.arg] = self.eval(k.value, fr)
        if isinstance(e.func, ast.Attribute):
            v = e.func.value
            if isinstance(v, ast.Call) and isinstance(v.func, ast.Name) and v.func.id == "super" and not v.args:
                return self.call_super(fr, e.func.attr, args, kwargs, e)
            recv = self.eval(e.func.value, fr)
            return self.call_method(recv, e.func.attr, args, kwargs, e)
        fn = self.eval(e.func, fr)
        return self.call(fn, args, kwargs, e)

    # -- operations ---------------------------------------------------------------------
    def truth_value(self, v, node=None):
        """python truthiness as bool or z3 Bool"""
        if v is None:
            return False
        if isinstance(v, HavocNone):
            raise Unsupported("truth of a loop-havocked None-initialised variable %s" % v.name)
        if isinstance(v, (bool, int, str, Fraction, float)):
            return bool(v)
        if isinstance(v, (list, tuple, dict)):
            return len(v) > 0
        if isinstance(v, PySet):
            return len(v.items) > 0
        if isinstance(v, SList):
            return v.length > 0
        if type(v).__name__ == "ListView":
            return v.size(self) > 0
        if isinstance(v, SymDict):
            return v.size() > 0
        if is_sym(v):
            if z3.is_bool(v):
                return v
            if z3.is_int(v) or z3.is_real(v):
                return v != 0
            if z3.is_string(v):
                return z3.Length(v) > 0
        if isinstance(v, NdArr):
            if all(isinstance(s, int) for s in v.shape) and all(s == 1 for s in v.shape):
                return zbool(v.get(*[0] * v.ndim))
            self.raise_("ValueError", node, "safety")
        if isinstance(v, (Obj, Opaque, Closure, ExternFn, PyFn, LambdaFn, RepoClass, ExternMod, GenResult)):
            return True
        if v is NaN:
            return True
        raise Unsupported("truth of %r" % (v,))

    def truth(self, v, node=None):
        t = self.truth_value(v, node)
        return self.branch(t)

    def binop(self, op, a, b, node=None):
        return self.registry.binop(self, op, a, b, node)

    def compare(self, op, a, b, node=None):
        return self.registry.compare(self, op, a, b, node)

    def inplace_arr(self, arr, op, rhs, node):
        self.registry.inplace_arr(self, arr, op, rhs, node)

    def getitem(self, base, idx, node=None):
        return self.registry.getitem(self, base, idx, node)

    def setitem(self, base, idx, v, node=None):
        return self.registry.setitem(self, base, idx, v, node)

    def getattr(self, base, attr, node=None):
        return self.registry.getattr(self, base, attr, node)

    def setattr(self, base, attr, v, node=None):
        if isinstance(base, Obj):
            if attr == "fitted_state_" and base.tag == "estimator" and isinstance(v, Opaque) and v.tag == "fitted-state":
                base.fields["$state"], base.fields["$fitted"] = v.term, True      # the ghost fitted attribute of an opaque estimator
                base.events.append(("set", attr))
                return
            if base.tag == "estimator" and attr.endswith("_") and not attr.startswith("_") and base.fields.get("$fitted"):
                # a fitted attribute of an opaque estimator is overwritten (coef_, intercept_ ...): it is another model from now on
                base.fields["$state"] = z3.Const(fresh_name(base.fields.get("$name", "est") + "_modified"), base.fields["$state"].sort())
            base.fields[attr] = v
            base.events.append(("set", attr))
            return
        raise Unsupported("setattr on %r" % (base,))

    def iterate_concrete(self, v, node=None):
        spec = self.as_iterspec(v, node)
        if spec.concrete is None:
            raise Unsupported("iteration over symbolic-length value at %s" % self.where(node))
        return list(spec.concrete)

    def as_iterspec(self, v, node=None):
        return self.registry.iterspec(self, v, node)

    # -- calls --------------------------------------------------------------------------
    def call_method(self, recv, name, args, kwargs, node):
        return self.registry.call_method(self, recv, name, args, kwargs, node)

    def call(self, fn, args, kwargs, node=None):
        if isinstance(fn, Closure):
            return self.call_closure(fn, args, kwargs, node)
        if isinstance(fn, LambdaFn):
            fr = Frame(fn.frame.func, fn.frame.module, parent=fn.frame)
            a = fn.node.args
            names = [x.arg for x in a.args]
            if len(args) > len(names):
                self.raise_("TypeError", node, "call")
            for n, v in zip(names, args):
                fr.locals[n] = v
            for k, v in kwargs.items():
                fr.locals[k] = v
            for n, d in zip(names[len(names) - len(a.defaults):], a.defaults):
                if n not in fr.locals:
                    fr.locals[n] = self.eval(d, fn.frame)
            return self.eval(fn.node.body, fr)
        if isinstance(fn, PyFn):
            return fn.fn(self, *args, **kwargs)
        if isinstance(fn, ExternFn):
            return self.registry.call_extern(self, fn, args, kwargs, node)
        if isinstance(fn, RepoClass):
            return self.instantiate(fn, args, kwargs, node)
        if isinstance(fn, BoundMethod):
            return self.call_closure(Closure(fn.func, None, fn.obj), args, kwargs, node)
        if isinstance(fn, Obj):
            return self.call_method(fn, "__call__", args, kwargs, node)
        if type(fn).__name__ == "MethodRef":
            return self.call_method(fn.recv, fn.name, args, kwargs, node)       # bound built-in method: tokens.append, " ".join
        if isinstance(fn, Opaque):
            return self.registry.call_opaque(self, fn, args, kwargs, node)
        raise Unsupported("call of %r at %s" % (fn, self.where(node)))

    def call_closure(self, clo, args, kwargs, node):
        func = clo.func
        c = self.contracts.get(func.key)
        if c is not None and not c.inline_at_calls and c.has_result() and (self.top is None or c is not self.top or self.inline_depth > 0):
            return self.apply_contract(c, clo, args, kwargs, node)
        return self.call_repo_function(func, args, kwargs, clo.env, clo.self_obj, node)

    def bind_args(self, func, args, kwargs, self_obj=None):
        a = func.node.args
        names = [x.arg for x in a.args]
        pos = list(args)
        if self_obj is not None and "staticmethod" not in func.decorators:
            pos = [self_obj] + pos
        out = {}
        for n, v in zip(names, pos):
            out[n] = v
        if a.vararg is not None:
            out[a.vararg.arg] = tuple(pos[len(names):])
        for k, v in kwargs.items():
            out[k] = v
        fr = Frame(func, func.module)
        for n, d in zip(names[len(names) - len(a.defaults):], a.defaults):
            if n not in out:
                out[n] = self.eval(d, fr)
        return out

    def apply_contract(self, c, clo, args, kwargs, node):
        """modular call: assert requires, havoc modifies, assume ensures"""
        a = Args(self.bind_args(clo.func, args, kwargs, clo.self_obj))
        for n in c.free:
            v = self.lookup_local(n, clo.env) if clo.env is not None else _MISSING
            if v is _MISSING:
                raise Unsupported("free variable %s of %s not found" % (n, clo.func.key))
            a[n] = v
        site = "%s@%s" % (clo.func.qualname, self.where(node).split(":")[-1])
        for name, g in named(c.requires(self, a)).items():
            self.oblige("%s.%s.pre.%s.%s" % (self.prop, self.cur_func.qualname, site_name(clo.func, node, self), name),
                        g, "pre@call", node)
        if c.decreases is not None and self.top is c and getattr(self, "_top_measure", None) is not None:
            m = c.decreases(self, a)
            self.oblige("%s.%s.decreases.%s" % (self.prop, self.cur_func.qualname, site_name(clo.func, node, self)),
                        z3.And(z(m) >= 0, z(m) < z(self._top_measure)), "decreases", node)
        old = c.old(self, a)
        res = c.result(self, a, old)
        for name, g in named(c.ensures(self, a, res, old)).items():
            self.assume(g)
        return res

    def call_super(self, fr, name, args, kwargs, node):
        """super().name(...) inside a method: next definition after the defining class in the MRO"""
        f = fr
        while f is not None and (f.func is None or f.func.cls is None):
            f = f.parent
        if f is None:
            raise Unsupported("super() outside a method")
        cls = f.func.cls
        selfname = f.func.node.args.args[0].arg
        obj = f.locals[selfname]
        repo_cls, ext = self.mro(obj.cls if isinstance(obj.cls, RepoClass) else cls)
        seen = False
        for c in repo_cls:
            if seen and name in c.methods:
                return self.call_closure(Closure(c.methods[name], None, obj), args, kwargs, node)
            if c is cls or c.name == cls.name:
                seen = True
        for e_ in ext:
            r = self.registry.extern_method(e_, name)
            if r is not None:
                return self.registry.call_extern(self, ExternFn(r, obj), args, kwargs, node)
        if name == "__init__":
            return None
        raise Unsupported("super().%s not found" % name)

    def instantiate(self, cls, args, kwargs, node):
        obj = Obj(cls)
        init = self.find_method(cls, "__init__")
        if isinstance(init, RepoFunc):
            self.call_closure(Closure(init, None, obj), args, kwargs, node)
        elif init is not None:
            self.registry.call_extern(self, ExternFn(init, obj), args, kwargs, node)
        return obj

    def class_bases(self, cls):
        out = []
        for b in cls.base_exprs:
            nm = ast.unparse(b)
            fr = Frame(None, cls.module)
            try:
                v = self.load_name(nm.split(".")[0], fr, b) if "." not in nm else self.eval(b, fr)
            except Unsupported:
                v = ExternFn("?." + nm)
            out.append(v)
        return out

    def mro(self, cls):
        """in-repo classes first (depth-first, left to right), then external class names"""
        seen, repo_cls, ext = [], [], []

        def rec(c):
            if isinstance(c, RepoClass):
                if c in repo_cls:
                    return
                repo_cls.append(c)
                for b in self.class_bases(c):
                    rec(b)
            elif isinstance(c, ExternFn):
                if c.name not in ext:
                    ext.append(c.name)
        rec(cls)
        return repo_cls, ext

    def find_method(self, cls, name):
        repo_cls, ext = self.mro(cls)
        for c in repo_cls:
            if name in c.methods:
                return c.methods[name]
        for e in ext:
            r = self.registry.extern_method(e, name)
            if r is not None:
                return r
        return None

    def isinstance_of(self, obj, clsname):
        if isinstance(obj, Obj):
            if isinstance(obj.cls, RepoClass):
                repo_cls, ext = self.mro(obj.cls)
                names = [c.name for c in repo_cls] + [e.split(".")[-1] for e in ext]
                for e in ext:
                    names.extend(self.registry.extern_bases(e))
                return clsname in names
            names = [obj.cls.split(".")[-1]] + self.registry.extern_bases(obj.cls) + list(obj.fields.get("$bases", []))
            return clsname in names
        return False


class BoundMethod:
    def __init__(self, obj, func):
        self.obj = obj
        self.func = func


class RepoModRef:
    def __init__(self, module):
        self.module = module


class GenResult:
    """a finished generator / iterator: list of values"""

    def __init__(self, items):
        self.items = list(items)


class PySet:
    def __init__(self, items):
        self.items = []
        for x in items:
            self.add(x)

    def add(self, x):
        if is_sym(x):
            if any(is_sym(y) and z3.eq(x, y) for y in self.items):
                return
            raise Unsupported("set of symbolic values")
        if x not in self.items:
            self.items.append(x)

    def __contains__(self, x):
        return x in self.items


class SymDict:
    """placeholder class; the real implementation lives in symdict.py"""
    pass


class SymSeq:
    """lazy sequence of symbolic length: item(k) evaluates the element for a (symbolic) position.
    Created by comprehensions / generator expressions over symbolic iteration spaces and by
    Parallel(...)(gen).  Elements are cached per position term, so item(k) is one object."""

    def __init__(self, length, gen, name="seq"):
        self.length = length
        self.gen = gen
        self.cache = {}
        self.name = name

    def item(self, k):
        kk = z(k)
        key = kk.get_id()
        if key not in self.cache:
            self.cache[key] = (kk, self.gen(kk))
        return self.cache[key][1]


class HavocNone:
    def __init__(self, name):
        self.name = name


class _SymComp(Exception):
    def __init__(self, spec, gen, gi):
        self.spec, self.gen, self.gi = spec, gen, gi


class IterSpec:
    def __init__(self, concrete=None, length=None, item=None, force_unroll=False):
        self.concrete = concrete
        self.length = length if length is not None else (len(concrete) if concrete is not None else None)
        self._item = item
        self.force_unroll = force_unroll

    def item(self, k):
        return self._item(k)


class LoopCtx:
    """what a loop invariant may talk about"""

    def __init__(self, E, fr, pre, seq, node):
        self.E, self.fr, self.pre, self.seq, self.node = E, fr, pre, seq, node
        self.k = None
        self.i = None

    def bind_index(self, k):
        # for range loops i is the *next* value of the loop variable; for other sequences None
        self.i = self.seq.item(k) if getattr(self.seq, "is_range", False) else None

    def __getitem__(self, name):
        v = self.E.lookup_local(name, self.fr)
        if v is _MISSING:
            raise KeyError(name)
        E = self.E
        inp = E.ps.get("inputs") or {}
        if name in inp and isinstance(inp[name], NdArr) and E.top is not None and E.cur_func is not None and E.cur_func.key == E.top.key \
                and isinstance(v, NdArr) and v is not inp[name] and name in self._assigned_in_function():
            # the invariant names a data parameter, but the function has re-bound that name to another array (a converted copy, a selection):
            # a specification over the local would follow the code wherever it goes - the contract has to say what it means (E.ps["inputs"][name]
            # for the caller's array, or L.local(name) for the local on purpose)
            raise Unsupported("the invariant of a loop of %s reads the parameter %r, which the function has re-bound to another array before "
                              "the loop: the contract needs review" % (E.cur_func.key, name))
        return v

    def _assigned_in_function(self):
        f = self.E.cur_func
        c = getattr(f, "_assigned_names_cache", None)
        if c is None:
            c = f._assigned_names_cache = assigned_names(f.node.body)
        return c

    def local(self, name):
        """the current binding of a name, also when it is a re-bound parameter (for invariants that mean the local on purpose)"""
        v = self.E.lookup_local(name, self.fr)
        if v is _MISSING:
            raise KeyError(name)
        return v

    def old(self, name):
        return self.pre[name]


class Args(dict):
    __getattr__ = dict.__getitem__

    def __setattr__(self, k, v):
        self[k] = v


_MISSING = object()


def named(x):
    if x is None:
        return {}
    if isinstance(x, dict):
        return x
    return {"c%d" % i: g for i, g in enumerate(x)}


def site_name(func, node, E):
    """stable call-site id: callee name + ordinal of the call among calls to it in the caller"""
    caller = E.cur_func
    k = 0
    if caller is not None and node is not None:
        for n in ast.walk(caller.node):
            if isinstance(n, ast.Call) and ast.unparse(n.func).split(".")[-1] == func.name:
                if n is node:
                    break
                k += 1
    return "%s@%d" % (func.name, k)


def walk_no_nested(fnode):
    stack = list(fnode.body)
    while stack:
        n = stack.pop()
        yield n
        if isinstance(n, (ast.FunctionDef, ast.Lambda, ast.ClassDef)):
            continue                      # the body of a nested definition belongs to that definition
        for c in ast.iter_child_nodes(n):
            if isinstance(c, (ast.FunctionDef, ast.Lambda, ast.ClassDef)):
                continue
            stack.append(c)


def local_names(fnode):
    out = set()
    for n in walk_no_nested(fnode):
        if isinstance(n, ast.Name) and isinstance(n.ctx, (ast.Store, ast.Del)):
            out.add(n.id)
    # comprehension targets are not function locals
    for n in walk_no_nested(fnode):
        if isinstance(n, ast.comprehension):
            for t in ast.walk(n.target):
                if isinstance(t, ast.Name):
                    out.discard(t.id) if not _assigned_elsewhere(fnode, t.id) else None
    return out


def _assigned_elsewhere(fnode, name):
    for n in walk_no_nested(fnode):
        if isinstance(n, (ast.Assign, ast.AugAssign, ast.For, ast.AnnAssign)):
            tg = n.targets if isinstance(n, ast.Assign) else [n.target]
            for t in tg:
                for x in ast.walk(t):
                    if isinstance(x, ast.Name) and x.id == name:
                        return True
    return False


def target_names(t):
    return {x.id for x in ast.walk(t) if isinstance(x, ast.Name)}


def assigned_names(body):
    out = set()
    for st in body:
        for n in [st] + list(walk_no_nested_stmt(st)):
            if isinstance(n, ast.Assign):
                for t in n.targets:
                    out |= _store_names(t)
            elif isinstance(n, (ast.AugAssign, ast.AnnAssign)):
                out |= _store_names(n.target)
            elif isinstance(n, ast.For):
                out |= _store_names(n.target)
            elif isinstance(n, ast.FunctionDef):
                out.add(n.name)
    return out


def augassigned_only(body):
    plain, aug = set(), set()
    for st in body:
        for n in [st] + list(walk_no_nested_stmt(st)):
            if isinstance(n, ast.Assign):
                for t in n.targets:
                    plain |= _store_names(t)
            elif isinstance(n, ast.AnnAssign) or isinstance(n, ast.For):
                plain |= _store_names(n.target)
            elif isinstance(n, ast.AugAssign):
                aug |= _store_names(n.target)
    return aug - plain


def _store_names(t):
    if isinstance(t, ast.Name):
        return {t.id}
    if isinstance(t, (ast.Tuple, ast.List)):
        s = set()
        for e in t.elts:
            s |= _store_names(e)
        return s
    return set()


def walk_no_nested_stmt(st):
    if isinstance(st, (ast.FunctionDef, ast.Lambda, ast.ClassDef)):
        return
    stack = [c for c in ast.iter_child_nodes(st)]
    while stack:
        n = stack.pop()
        yield n
        if isinstance(n, (ast.FunctionDef, ast.Lambda, ast.ClassDef)):
            continue
        stack.extend(ast.iter_child_nodes(n))


MUTATORS = {"append", "extend", "add", "insert", "pop", "remove", "update", "sort", "fill", "clear",
            "setdefault", "reverse", "discard"}


def mutated_names(body):
    """names whose *object* is mutated in place in the loop body (subscript/attr store, mutators)"""
    out = set()

    def base_name(t):
        while isinstance(t, (ast.Subscript, ast.Attribute)):
            t = t.value
        return t.id if isinstance(t, ast.Name) else None

    for st in body:
        for n in [st] + list(walk_no_nested_stmt(st)):
            tg = []
            if isinstance(n, ast.Assign):
                tg = n.targets
            elif isinstance(n, ast.AugAssign):
                tg = [n.target]
            for t in tg:
                for x in ([t] if not isinstance(t, (ast.Tuple, ast.List)) else t.elts):
                    if isinstance(x, ast.Subscript) and isinstance(x.value, ast.Attribute):
                        continue      # store into an array reached through attributes: see mutated_exprs
                    if isinstance(x, (ast.Subscript, ast.Attribute)):
                        b = base_name(x)
                        if b:
                            out.add(b)
                    elif isinstance(x, ast.Name) and isinstance(n, ast.AugAssign):
                        out.add(x.id)    # arr *= ... mutates in place when arr is an ndarray
            if isinstance(n, ast.Call) and isinstance(n.func, ast.Attribute) and n.func.attr in MUTATORS:
                b = base_name(n.func.value)
                if b:
                    out.add(b)
            if isinstance(n, ast.Delete):
                for t in n.targets:
                    if isinstance(t, (ast.Subscript, ast.Attribute)):
                        b = base_name(t)
                        if b:
                            out.add(b)
            if isinstance(n, ast.Call) and n.args and ast.unparse(n.func).split(".")[-1] in ("insort", "insort_left", "insort_right", "heappush", "heappop", "shuffle"):
                b = base_name(n.args[0])      # functions of the standard library that write into their first argument
                if b:
                    out.add(b)
    return out


def mutated_dict_entries(body):
    """name -> set of constant keys for subscript stores name[const] (= / op=) in the body; None if the name is also written
    through a non-constant subscript, an attribute or a mutator call"""
    out = {}

    def base_name(t):
        while isinstance(t, (ast.Subscript, ast.Attribute)):
            t = t.value
        return t.id if isinstance(t, ast.Name) else None

    for st in body:
        for n in [st] + list(walk_no_nested_stmt(st)):
            tg = []
            if isinstance(n, ast.Assign):
                tg = n.targets
            elif isinstance(n, ast.AugAssign):
                tg = [n.target]
            for t in tg:
                for x in ([t] if not isinstance(t, (ast.Tuple, ast.List)) else t.elts):
                    if isinstance(x, ast.Subscript) and isinstance(x.value, ast.Name) and isinstance(x.slice, ast.Constant) \
                            and isinstance(x.slice.value, (str, int)):
                        if out.get(x.value.id, set()) is not None:
                            out.setdefault(x.value.id, set()).add(x.slice.value)
                    elif isinstance(x, (ast.Subscript, ast.Attribute)):
                        b = base_name(x)
                        if b:
                            out[b] = None
            if isinstance(n, ast.Call) and isinstance(n.func, ast.Attribute) and n.func.attr in MUTATORS:
                b = base_name(n.func.value)
                if b:
                    out[b] = None
    return out


def mutated_exprs(body):
    """expressions `obj.attr...` whose array is written by a subscript store in the loop body"""
    out = []
    for st in body:
        for n in [st] + list(walk_no_nested_stmt(st)):
            tg = []
            if isinstance(n, ast.Assign):
                tg = n.targets
            elif isinstance(n, ast.AugAssign):
                tg = [n.target]
            for t in tg:
                for x in ([t] if not isinstance(t, (ast.Tuple, ast.List)) else t.elts):
                    if isinstance(x, ast.Subscript) and isinstance(x.value, ast.Attribute):
                        out.append(x.value)
    return out


def mutated_attrs(body):
    """(base name, attribute) pairs stored in the loop body: self.n_iter_ = ..."""
    out = set()
    for st in body:
        for n in [st] + list(walk_no_nested_stmt(st)):
            tg = []
            if isinstance(n, ast.Assign):
                tg = n.targets
            elif isinstance(n, ast.AugAssign):
                tg = [n.target]
            for t in tg:
                for x in ([t] if not isinstance(t, (ast.Tuple, ast.List)) else t.elts):
                    if isinstance(x, ast.Attribute) and isinstance(x.value, ast.Name):
                        out.add((x.value.id, x.attr))
    return out


def snapshot_env(fr):
    snap = {}
    f = fr
    while f is not None:
        for k, v in f.locals.items():
            if k in snap:
                continue
            if isinstance(v, (NdArr, SList)) or type(v).__name__ in ("SymMap", "SymSet", "SymListDict", "ListView"):
                snap[k] = v.snapshot()
                snap["$live_" + k] = v
            elif isinstance(v, list):
                snap[k] = list(v)
            elif isinstance(v, dict):
                snap[k] = dict(v)
            else:
                snap[k] = v
            if isinstance(v, Obj):
                for fk, fv in v.fields.items():
                    snap["$attr_%s.%s" % (k, fk)] = fv
                if v.tag == "DataFrame" and isinstance(v.fields.get("$matrix"), NdArr):
                    snap["$frame_" + k] = v.fields["$matrix"].snapshot()       # values of a numeric data frame (written through .iloc)
        f = f.parent
    return snap
