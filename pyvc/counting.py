"""Ghost counting functions over integer arrays (DESIGN 4.2 `cnt`, `Sum`) and their lemma instances.

    cnt(a, q, n)   number of positions i in [0, n) with a[i] = q
    sumI(a, n)     a[0] + ... + a[n-1]

An array is *tracked* by a contract (`track(E, arr)`); every scalar store / constant fill / copy of a tracked array emits
the corresponding lemma instance (store, constant, congruence).  The lemma schemas are stated in lemmas/Lemmas.lean
(checked by Lean + Mathlib in the thorough tier) and listed in the evidence; they are instantiated per event, the solver
never sees a quantifier over arrays."""
import z3

from .values import NdArr, z, fresh_name

IA = z3.ArraySort(z3.IntSort(), z3.IntSort())
cntF = z3.Function("cnt", IA, z3.IntSort(), z3.IntSort(), z3.IntSort())
sumIF = z3.Function("sumI", IA, z3.IntSort(), z3.IntSort())

LEMMAS = {
    "cnt_store": "0<=i<n -> cnt(a[i:=v], q, n) = cnt(a, q, n) - [a[i]=q] + [v=q]",
    "cnt_const": "cnt(const v, q, n) = (q = v ? max(n,0) : 0)",
    "cnt_range": "0 <= cnt(a, q, n) <= max(n,0)",
    "cnt_pos": "0<=i<n and a[i]=q -> cnt(a, q, n) >= 1",
    "cnt_all": "(forall i in [0,n). a[i]=q) <-> cnt(a, q, n) = n   (n >= 0);  (forall i. a[i]!=q) <-> cnt(a,q,n) = 0",
    "cnt_congr": "(forall i in [0,n). a[i]=b[i]) -> cnt(a,q,n) = cnt(b,q,n)",
    "sum_store": "0<=i<n -> sumI(a[i:=v], n) = sumI(a, n) - a[i] + v",
    "sum_const": "sumI(const v, n) = v * max(n,0)",
    "sum_le_quota": "(forall c in [0,k). C[c] <= lim + [L[c]=0]) -> sumI(C,k) <= k*lim + cnt(L,0,k)",
    "sum_ge_quota": "(forall c in [0,k). C[c] >= lim + [L[c]=0]) -> sumI(C,k) >= k*lim + cnt(L,0,k)",
    "sum_eq_quota": "(forall c in [0,k). C[c] <= lim + [L[c]=0]) and sumI(C,k) = k*lim + cnt(L,0,k) -> forall c in [0,k). C[c] = lim + [L[c]=0]",
    "inj_surj": "an injective map of [0,n) into [0,n) is onto (finite pigeonhole)",
    "cnt_step": "cnt(a, q, 0) = 0 and, for j >= 0, cnt(a, q, j+1) = cnt(a, q, j) + [a[j]=q]",
    "mul_steps": "for integers c >= 0, j >= 0: c*j >= 0; c*(j+1) = c*j + c; j+1 <= n -> c*(j+1) <= c*n",
    "sum_one_out": "(forall c in [0,k). C[c] >= lim) and 0 <= c0 < k -> sumI(C,k) >= (k-1)*lim + C[c0]",
}


def term(arr):
    return arr.cell.term


def cnt(arr, q, n=None):
    return cntF(arr.cell.term, z(q), z(n if n is not None else arr.shape[0]))


def sumI(arr, n=None):
    return sumIF(arr.cell.term, z(n if n is not None else arr.shape[0]))


def _b(c):
    return z3.If(c, 1, 0)


def track(E, arr, want_sum=False):
    """from now on every store into `arr` emits the store lemmas for cnt (and sumI)"""
    n = z(arr.shape[0])
    cell = arr.cell
    cell.track = dict(n=n, sum=want_sum)

    def basics(t):
        q, i = z3.Int(fresh_name("cq")), z3.Int(fresh_name("ci"))
        E.axiom(z3.ForAll([q], z3.And(cntF(t, q, n) >= 0, cntF(t, q, n) <= z3.If(n >= 0, n, 0)), patterns=[cntF(t, q, n)]), requested=False)
        E.axiom(z3.ForAll([i], z3.Implies(z3.And(i >= 0, i < n), cntF(t, t[i], n) >= 1), patterns=[t[i]]), requested=False)
        E.used_lemmas.update(["cnt_range", "cnt_pos"])
    cell.cnt_basics = basics

    def on_store(old, idx, val, new):
        q = z3.Int(fresh_name("cq"))
        i = idx[0]
        E.axiom(z3.ForAll([q], z3.Implies(z3.And(i >= 0, i < n),
                                          cntF(new, q, n) == cntF(old, q, n) - _b(old[i] == q) + _b(val == q)), patterns=[cntF(new, q, n)]))
        E.used_lemmas.add("cnt_store")
        if want_sum:
            E.axiom(z3.Implies(z3.And(i >= 0, i < n), sumIF(new, n) == sumIF(old, n) - old[i] + val))
            E.used_lemmas.add("sum_store")
        basics(new)

    def name_operands(bi, val):
        out = []
        for t in list(bi) + [val]:
            if z3.is_const(t):
                out.append(t)
            else:
                c = z3.Int(fresh_name("st"))
                E.assume(c == t)
                out.append(c)
        return out[:-1], out[-1]
    on_store.name_operands = name_operands
    cell.on_store = on_store

    def on_fill(val, cell):
        val = z(val)
        if not z3.is_const(val):
            c = z3.Int(fresh_name("fv"))
            E.assume(c == val)
            val = c
        cell.term = new = z3.K(z3.IntSort(), val)          # same array as the lambda of the fill, lambda-free (lemma patterns)
        q = z3.Int(fresh_name("cq"))
        E.axiom(z3.ForAll([q], cntF(new, q, n) == z3.If(q == val, z3.If(n >= 0, n, 0), 0), patterns=[cntF(new, q, n)]))
        E.used_lemmas.add("cnt_const")
        if want_sum:
            E.axiom(sumIF(new, n) == val * z3.If(n >= 0, n, 0))
            E.used_lemmas.add("sum_const")
    cell.on_fill = on_fill

    def on_copy(cell):
        c = z3.Const(fresh_name(cell.name + "_copied"), IA)
        i = z3.Int(fresh_name("cpi"))
        E.assume(z3.ForAll([i], c[i] == z3.simplify(cell.term[i]), patterns=[c[i]]))      # the same array, cell by cell
        cell.term = c
        basics(c)
    cell.on_copy = on_copy
    basics(cell.term)


def usable_trigger(t, depth=0):
    """no if-then-else and no lambda / quantifier inside (z3 refuses such patterns, with a warning on stderr)"""
    if z3.is_quantifier(t):
        return False
    if z3.is_app(t):
        if t.decl().kind() == z3.Z3_OP_ITE:
            return False
        return depth > 40 or all(usable_trigger(c, depth + 1) for c in t.children())
    return True


def _forall(vs, body, pat):
    if not usable_trigger(pat):
        return z3.ForAll(vs, body)          # the solver chooses its triggers
    try:
        return z3.ForAll(vs, body, patterns=[pat])
    except z3.Z3Exception:
        return z3.ForAll(vs, body)


def cnt_step(E, arr, j):
    """instances for the prefix length j: cnt(a, q, 0) = 0 and cnt(a, q, j) = cnt(a, q, j-1) + [a[j-1]=q] when j >= 1"""
    t, j = arr.cell.term, z(j)
    q = z3.Int(fresh_name("cq"))
    E.axiom(_forall([q], cntF(t, q, z3.IntVal(0)) == 0, cntF(t, q, z3.IntVal(0))))
    jm = z3.simplify(j - 1)
    body = cntF(t, q, j) == cntF(t, q, jm) + _b(t[jm] == q)
    E.axiom(z3.Implies(j >= 1, _forall([q], body, cntF(t, q, j))))
    E.used_lemmas.add("cnt_step")


def sum_one_out(E, C, k, KL, lim):
    """every counter >= lim -> each single counter is at most the total minus (k-1)*lim; KL is the term k*lim"""
    tc, k = C.cell.term, z(k)
    c = z3.Int(fresh_name("qc"))
    c0 = z3.Int(fresh_name("q0"))
    ge = z3.ForAll([c], z3.Implies(z3.And(c >= 0, c < k), tc[c] >= z(lim)))
    E.axiom(z3.Implies(ge, z3.ForAll([c0], z3.Implies(z3.And(c0 >= 0, c0 < k), sumIF(tc, k) >= KL - z(lim) + tc[c0]), patterns=[tc[c0]])))
    E.used_lemmas.add("sum_one_out")


def congr(E, a, b, n=None):
    """cnt / sumI agree on two arrays that agree on [0, n): instance for this pair (used for .copy())"""
    n = z(n if n is not None else a.shape[0])
    i, q = z3.Int(fresh_name("gi")), z3.Int(fresh_name("gq"))
    same = z3.ForAll([i], z3.Implies(z3.And(i >= 0, i < n), a.get(i) == b.get(i)))
    E.axiom(z3.Implies(same, z3.ForAll([q], cntF(a.cell.term, q, n) == cntF(b.cell.term, q, n), patterns=[cntF(b.cell.term, q, n)])))
    E.used_lemmas.add("cnt_congr")


def all_iff(E, arr, q, n=None):
    """cnt = n <-> every entry equals q ; cnt = 0 <-> no entry equals q  (instances for this array / value)"""
    n = z(n if n is not None else arr.shape[0])
    t = arr.cell.term
    i = z3.Int(fresh_name("ai"))
    every = z3.ForAll([i], z3.Implies(z3.And(i >= 0, i < n), t[i] == z(q)))
    none = z3.ForAll([i], z3.Implies(z3.And(i >= 0, i < n), t[i] != z(q)))
    E.axiom(z3.Implies(n >= 0, z3.And(every == (cntF(t, z(q), n) == n), none == (cntF(t, z(q), n) == 0))))
    E.used_lemmas.add("cnt_all")


def quota_lemmas(E, C, L, k, KL, lim):
    """the three pigeonhole instances for counters C, flags L over [0,k) with quota lim and KL = k*lim"""
    c = z3.Int(fresh_name("qc"))
    k = z(k)
    tc, tl = C.cell.term, L.cell.term
    bound = lambda cc: z(lim) + _b(tl[cc] == 0)
    le = z3.ForAll([c], z3.Implies(z3.And(c >= 0, c < k), tc[c] <= bound(c)))
    ge = z3.ForAll([c], z3.Implies(z3.And(c >= 0, c < k), tc[c] >= bound(c)))
    S, Z = sumIF(tc, k), cntF(tl, z3.IntVal(0), k)
    E.axiom(z3.Implies(le, S <= KL + Z))
    E.axiom(z3.Implies(ge, S >= KL + Z))
    E.axiom(z3.Implies(z3.And(le, S == KL + Z), z3.ForAll([c], z3.Implies(z3.And(c >= 0, c < k), tc[c] == bound(c)))))
    E.used_lemmas.update(["sum_le_quota", "sum_ge_quota", "sum_eq_quota"])


# ----------------------------------------------------------------------------- range sums of real arrays
RA = z3.ArraySort(z3.IntSort(), z3.RealSort())
psumF = z3.Function("psum", RA, z3.IntSort(), z3.IntSort(), z3.RealSort())     # psum(a, lo, hi) = a[lo] + ... + a[hi-1]

LEMMAS.update({
    "psum_empty": "hi <= lo -> psum(a, lo, hi) = 0",
    "psum_step": "lo < hi -> psum(a, lo, hi) = psum(a, lo, hi-1) + a[hi-1]",
    "psum_split": "lo <= mid <= hi -> psum(a, lo, hi) = psum(a, lo, mid) + psum(a, mid, hi)",
    "psum_congr": "(forall i in [lo,hi). a[i] = b[i]) -> psum(a, lo, hi) = psum(b, lo, hi)   (store outside the range: frame)",
    "weighted_variance": "W = psum(w,lo,hi) != 0, m = psum(w*y,lo,hi)/W -> psum(w*(y-m)^2, lo, hi) = psum(w*y*y, lo, hi) - m*m*W",
})


def rterm(a):
    return a.cell.term if isinstance(a, NdArr) else a


def psum(a, lo, hi):
    return psumF(rterm(a), z(lo), z(hi))


def psum_empty(E, a, lo, hi):
    E.axiom(z3.Implies(z(hi) <= z(lo), psum(a, lo, hi) == 0))
    E.used_lemmas.add("psum_empty")


def psum_step(E, a, lo, hi):
    t = rterm(a)
    E.axiom(z3.Implies(z(lo) < z(hi), psum(t, lo, hi) == psum(t, lo, z(hi) - 1) + t[z(hi) - 1]))
    E.used_lemmas.add("psum_step")


def psum_split(E, a, lo, mid, hi):
    E.axiom(z3.Implies(z3.And(z(lo) <= z(mid), z(mid) <= z(hi)), psum(a, lo, hi) == psum(a, lo, mid) + psum(a, mid, hi)))
    E.used_lemmas.add("psum_split")


def psum_congr(E, a, b, lo, hi):
    ta, tb = rterm(a), rterm(b)
    i = z3.Int(fresh_name("si"))
    E.axiom(z3.Implies(z3.ForAll([i], z3.Implies(z3.And(i >= z(lo), i < z(hi)), ta[i] == tb[i])), psum(ta, lo, hi) == psum(tb, lo, hi)))
    E.used_lemmas.add("psum_congr")


def track_psum(E, arr):
    """every scalar store into `arr` emits the frame instance: a range that does not contain the stored position keeps its sum"""
    cell = arr.cell

    def on_store(old, idx, val, new):
        lo, hi = z3.Int(fresh_name("flo")), z3.Int(fresh_name("fhi"))
        i = idx[0]
        E.axiom(z3.ForAll([lo, hi], z3.Implies(z3.Or(i < lo, i >= hi), psumF(new, lo, hi) == psumF(old, lo, hi)), patterns=[psumF(new, lo, hi)]))
        E.used_lemmas.add("psum_congr")

    def name_operands(bi, val):
        out = []
        for t in list(bi) + [val]:
            if z3.is_const(t):
                out.append(t)
            else:
                c = z3.Const(fresh_name("st"), t.sort())
                E.assume(c == t)
                out.append(c)
        return out[:-1], out[-1]
    on_store.name_operands = name_operands
    cell.on_store = on_store
    cell.on_fill = None
