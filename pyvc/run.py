"""python3-vt -m pyvc.run Cxx [--timeout N] : verify the contracts of one property"""
import importlib
import json
import sys
import time

from .api import ALL_CONTRACTS, verify_function, make_registry
from .frontend import Repo
from .solve import discharge


def load_contracts(prop):
    import sys
    if "contracts." + prop in sys.modules and ALL_CONTRACTS.get(prop):
        pass
    importlib.import_module("contracts." + prop)
    classes = ALL_CONTRACTS.get(prop, [])
    table = {}
    for cls in classes:
        table[cls.key] = cls()
    return table


def _gen_unit(args):
    """worker: the obligations of one (function, variant) of a property, frozen to SMT-LIB text"""
    prop, repo_root, key, vi, scope = args
    import os
    from .solve import FrozenOb
    os.environ["PYVC_REPO"] = repo_root
    repo = Repo(repo_root)
    table = load_contracts(prop)
    c = table[key]
    if getattr(c, "is_lemma", False):
        rep = verify_lemma(repo, table, c)
    else:
        if vi is not None:
            c.variants = [c.variants[vi]]
        rep = verify_function(repo, table, c, scope=scope)
    rep.obligations = [FrozenOb(ob) for ob in rep.obligations]
    rep.lemmas, rep.externs, rep.assumptions = set(rep.lemmas), set(rep.externs), set(rep.assumptions)
    return key, vi, rep


def _merge_units(key, parts):
    """reports of the variants of one function (in variant order) -> one report, as the sequential driver builds it: the first variant
    that cannot be explored makes the whole function unsupported"""
    rep = parts[0]
    for r in parts[1:]:
        rep.paths += r.paths
        rep.variants += r.variants
        rep.seconds += r.seconds
        for k, v in r.path_ends.items():
            rep.path_ends[k] = rep.path_ends.get(k, 0) + v
        rep.obligations = rep.obligations + r.obligations
        rep.loops.update(r.loops)
        rep.lemmas |= r.lemmas
        rep.externs |= r.externs
        rep.assumptions |= r.assumptions
        if rep.unsupported is None and r.unsupported is not None:
            rep.unsupported = r.unsupported
    return rep


def generate(prop, repo_root, scope=None, jobs=None):
    """all obligations of a property, one worker process per (function, variant); PYVC_GEN_JOBS=1 keeps everything in this process"""
    import os
    import multiprocessing
    table = load_contracts(prop)
    units = []
    for key, c in table.items():
        if c.assumed:
            continue
        if getattr(c, "is_lemma", False) or len(c.variants) <= 1:
            units.append((prop, repo_root, key, None, scope))
        else:
            units.extend((prop, repo_root, key, vi, scope) for vi in range(len(c.variants)))
    jobs = jobs or int(os.environ.get("PYVC_GEN_JOBS", "0") or 0) or min(16, os.cpu_count() or 4)
    if jobs <= 1 or len(units) <= 1:
        done = [_gen_unit(u) for u in units]
    else:
        ctx = multiprocessing.get_context("fork")
        with ctx.Pool(min(jobs, len(units))) as pool:
            done = pool.map(_gen_unit, units, chunksize=1)
    by_key = {}
    for key, vi, rep in done:
        by_key.setdefault(key, []).append(rep)
    return [_merge_units(key, by_key[key]) for key in table if key in by_key]


def run_property(prop, repo_root="/repo", timeout=10, verbose=False, scope=None):
    import os
    os.environ["PYVC_REPO"] = repo_root
    reports = generate(prop, repo_root, scope=scope)
    for rep in reports:
        if rep.unsupported:
            rep.obligations = []      # partial exploration: nothing of it is reported as checked
    allob = [ob for rep in reports for ob in rep.obligations]
    t0 = time.time()
    # canaries only have to *fail*: a short budget is enough (a timeout is a failure to verify)
    real = [i for i, ob in enumerate(allob) if not ob.canary]
    can = [i for i, ob in enumerate(allob) if ob.canary]
    res = [None] * len(allob)
    for idxs, tmo in ((real, timeout), (can, 3)):
        for i, r in zip(idxs, discharge([allob[i] for i in idxs], timeout=tmo)):
            res[i] = r
    return reports, allob, res, time.time() - t0


def declared_canaries(prop):
    load_contracts(prop)
    out = []
    for cls in ALL_CONTRACTS.get(prop, []):
        if not cls.assumed:
            out.extend(cls.canaries.keys())
    return out


def property_meta(prop):
    mod = importlib.import_module("contracts." + prop)
    return dict(getattr(mod, "META", {}))


def concretize(v, model):
    """symbolic input value -> JSON-able concrete value under a z3 model"""
    import z3
    from fractions import Fraction
    from .values import NdArr, Obj, SList, is_sym
    if isinstance(v, NdArr):
        if not all(isinstance(s, int) for s in v.shape):
            shape = [concretize(s, model) for s in v.shape]
        else:
            shape = list(v.shape)
        import itertools
        def cell(idx):
            if v.cell.nan is not None and z3.is_true(model.eval(v.isnan(*idx), model_completion=True)):
                return "nan"
            return concretize(v.get(*idx), model)
        def build(prefix, dims):
            if not dims:
                return cell(prefix)
            return [build(prefix + [i], dims[1:]) for i in range(dims[0])]
        return dict(ndarray=build([], shape), shape=shape, kind=v.kind)
    if isinstance(v, Obj):
        return dict(obj=v.tag, fields={k: concretize(x, model) for k, x in v.fields.items() if not k.startswith("$")})
    if is_sym(v):
        r = model.eval(v, model_completion=True)
        if z3.is_int_value(r):
            return r.as_long()
        if z3.is_rational_value(r):
            f = Fraction(r.numerator_as_long(), r.denominator_as_long())
            return float(f) if f.denominator != 1 else int(f)
        if z3.is_true(r):
            return True
        if z3.is_false(r):
            return False
        if z3.is_string_value(r):
            return r.as_string()
        if z3.is_algebraic_value(r):
            return float(r.approx(10).as_fraction())
        return str(r)
    if isinstance(v, Fraction):
        return float(v)
    if isinstance(v, (list, tuple)):
        return [concretize(x, model) for x in v]
    if isinstance(v, dict):
        return {str(k): concretize(x, model) for k, x in v.items()}
    if isinstance(v, (int, float, str, bool)) or v is None:
        return v
    return repr(v)


def finite_scope_search(prop, oid, repo_root, per_query_ms=5000):
    """DESIGN 5.3 step 2: the same executor on the same function with concrete small sizes."""
    import z3
    repo = Repo(repo_root)
    table = load_contracts(prop)
    # the contract whose function name appears in the obligation id
    cands = [c for c in table.values() if not c.assumed and ("." + c.key.split("::")[1] + ".") in (oid + ".")
             or ("." + c.key.split("::")[1] + "#") in oid]
    for c in cands:
        for scope in getattr(c, "scopes", []):
            rep = verify_function(repo, table, c, scope=dict(scope))
            for ob in rep.obligations:
                if ob.canary:
                    continue
                s = z3.Solver()
                s.set("timeout", per_query_ms)
                for x in ob.axioms:
                    s.add(x)
                for x in ob.pc:
                    s.add(x)
                s.add(z3.Not(ob.goal))
                if s.check() == z3.sat:
                    m = s.model()
                    inputs = concretize(getattr(ob, "inputs", None), m)
                    return dict(function=c.key, scope=scope, violated=ob.oid, where=ob.where, inputs=inputs,
                                variant=repr(getattr(ob, "variant", None)))
    return None


def verify_lemma(repo, table, c):
    """a lemma over contracts: no code is executed; c.lemma(E) returns named goals (with hypotheses assumed through E)"""
    from .api import FuncReport, make_registry
    from .engine import Exec
    import time as _t
    rep = FuncReport(c.key)
    rep.sha = "lemma"
    t0 = _t.time()
    E = Exec(repo, table, make_registry(), prop=c.prop)
    E.top = c

    def run_one(E):
        for name, g in c.lemma(E).items():
            E.oblige("%s.lemma.%s.%s" % (c.prop, c.name, name), g, "lemma")
        for name, g in getattr(c, "lemma_canaries", lambda E: {})(E).items():
            E.oblige("%s.lemma.%s.canary.%s" % (c.prop, c.name, name), g, "canary", canary=True)
    try:
        E.explore(run_one)
    except Exception as e:
        rep.unsupported = "lemma failed to build: %r" % (e,)
    rep.paths, rep.obligations, rep.seconds = E.paths, E.obligations, _t.time() - t0
    rep.lemmas, rep.externs, rep.assumptions = E.used_lemmas, E.used_externs, E.assumptions_used
    return rep


def aggregate(allob, res):
    agg = {}
    for ob, r in zip(allob, res):
        e = agg.setdefault(ob.oid, dict(kind=ob.kind, canary=ob.canary, n=0, unsat=0, sat=0, other=0, by=set(),
                                        ms=0, where=set(), fails=[]))
        e["n"] += 1
        e["where"].add(ob.where)
        e["ms"] += sum(l[2] for l in r["log"])
        if r["status"] == "unsat":
            e["unsat"] += 1
            e["by"].add(r["by"])
        elif r["status"] == "sat":
            e["sat"] += 1
            e["fails"].append((ob, r))
        else:
            e["other"] += 1
            e["fails"].append((ob, r))
    return agg


def main():
    prop = sys.argv[1]
    timeout = 10
    root = "/repo"
    if "--repo" in sys.argv:
        root = sys.argv[sys.argv.index("--repo") + 1]
    reports, allob, res, dt = run_property(prop, repo_root=root, timeout=timeout)
    for rep in reports:
        print("==", rep.key, "sha", rep.sha, "paths", rep.paths, rep.path_ends, "obls", len(rep.obligations),
              "%.1fs" % rep.seconds)
        if rep.unsupported:
            print("   UNSUPPORTED:", rep.unsupported)
        for k, v in rep.loops.items():
            print("   loop", k, v)
    agg = aggregate(allob, res)
    bad = 0
    for oid, e in sorted(agg.items()):
        ok = e["unsat"] == e["n"]
        if e["canary"]:
            status = "canary-fails-as-required" if not ok else "CANARY VERIFIED (vacuous!)"
        else:
            status = "discharged" if ok else "FAILED sat=%d other=%d" % (e["sat"], e["other"])
            bad += 0 if ok else 1
        print("%-100s %-3d %s %s %dms" % (oid, e["n"], status, ",".join(sorted(x for x in e["by"] if x)), e["ms"]))
        if not ok and not e["canary"]:
            for ob, r in e["fails"][:2]:
                print("     at", ob.where, "status", r["status"], r["log"])
    print("solver wall %.1fs, %d obligations (%d ids), %d failing ids" % (dt, len(allob), len(agg), bad))


if __name__ == "__main__":
    main()
