"""python3-vt -m pyvc.run Cxx [--timeout N] : verify the contracts of one property"""
import importlib
import json
import sys
import time

from .api import ALL_CONTRACTS, verify_function, make_registry
from .frontend import Repo
from .solve import discharge


def load_contracts(prop):
    importlib.import_module("contracts." + prop)
    classes = ALL_CONTRACTS.get(prop, [])
    table = {}
    for cls in classes:
        table[cls.key] = cls()
    return table


def run_property(prop, repo_root="/repo", timeout=10, verbose=False, scope=None):
    repo = Repo(repo_root)
    table = load_contracts(prop)
    reports = []
    for key, c in table.items():
        if c.assumed:
            continue
        rep = verify_function(repo, table, c, scope=scope)
        reports.append(rep)
    allob = [ob for rep in reports for ob in rep.obligations]
    t0 = time.time()
    res = discharge(allob, timeout=timeout)
    return reports, allob, res, time.time() - t0


def aggregate(allob, res):
    agg = {}
    for ob, r in zip(allob, res):
        e = agg.setdefault(ob.oid, dict(kind=ob.kind, canary=ob.canary, n=0, unsat=0, sat=0, other=0, by=set(),
                                        ms=0, where=set(), fails=[]))
        e["n"] += 1
        e["where"].add(ob.where)
        e["ms"] += sum(l[2] for l in r["log"])
        if r["status"] == "unsat":
            e["unsat"] += 1
            e["by"].add(r["by"])
        elif r["status"] == "sat":
            e["sat"] += 1
            e["fails"].append((ob, r))
        else:
            e["other"] += 1
            e["fails"].append((ob, r))
    return agg


def main():
    prop = sys.argv[1]
    timeout = 10
    root = "/repo"
    if "--repo" in sys.argv:
        root = sys.argv[sys.argv.index("--repo") + 1]
    reports, allob, res, dt = run_property(prop, repo_root=root, timeout=timeout)
    for rep in reports:
        print("==", rep.key, "sha", rep.sha, "paths", rep.paths, rep.path_ends, "obls", len(rep.obligations),
              "%.1fs" % rep.seconds)
        if rep.unsupported:
            print("   UNSUPPORTED:", rep.unsupported)
        for k, v in rep.loops.items():
            print("   loop", k, v)
    agg = aggregate(allob, res)
    bad = 0
    for oid, e in sorted(agg.items()):
        ok = e["unsat"] == e["n"]
        if e["canary"]:
            status = "canary-fails-as-required" if not ok else "CANARY VERIFIED (vacuous!)"
        else:
            status = "discharged" if ok else "FAILED sat=%d other=%d" % (e["sat"], e["other"])
            bad += 0 if ok else 1
        print("%-100s %-3d %s %s %dms" % (oid, e["n"], status, ",".join(sorted(x for x in e["by"] if x)), e["ms"]))
        if not ok and not e["canary"]:
            for ob, r in e["fails"][:2]:
                print("     at", ob.where, "status", r["status"], r["log"])
    print("solver wall %.1fs, %d obligations (%d ids), %d failing ids" % (dt, len(allob), len(agg), bad))


if __name__ == "__main__":
    main()
