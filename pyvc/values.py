"""Symbolic value model of pyvc.

Scalars are plain Python values (int, float->Fraction, bool, str, None) when concrete and raw
z3 expressions when symbolic (Int / Real / Bool / String sorts).  Containers that the verified
code mutates are Python objects with identity, so aliasing in the verified code is aliasing here.
"""
from fractions import Fraction
import itertools
import z3

_counter = itertools.count()


def fresh_name(base):
    return "%s!%d" % (base, next(_counter))


def reset_names():
    global _counter
    _counter = itertools.count()


# ----------------------------------------------------------------------------- scalars
def is_sym(v):
    return isinstance(v, z3.ExprRef)


def is_int_like(v):
    return (isinstance(v, int) and not isinstance(v, bool)) or (is_sym(v) and z3.is_int(v))


def is_bool_like(v):
    return isinstance(v, bool) or (is_sym(v) and z3.is_bool(v))


def is_real_like(v):
    return isinstance(v, (float, Fraction)) or (is_sym(v) and z3.is_real(v))


def is_num_like(v):
    return is_int_like(v) or is_real_like(v) or isinstance(v, bool)


def is_str_like(v):
    return isinstance(v, str) or (is_sym(v) and z3.is_string(v))


def z(v):
    """lift a concrete scalar to z3"""
    if is_sym(v):
        return v
    if isinstance(v, bool):
        return z3.BoolVal(v)
    if isinstance(v, int):
        return z3.IntVal(v)
    if isinstance(v, Fraction):
        return z3.RealVal(str(v))
    if isinstance(v, float):
        if v != v or v in (float("inf"), float("-inf")):
            raise Unsupported("nan/inf literal as a real")
        return z3.RealVal(str(Fraction(v)))
    if isinstance(v, str):
        return z3.StringVal(v)
    raise Unsupported("cannot lift %r to z3" % (v,))


def zbool(v):
    v = z(v)
    if z3.is_bool(v):
        return v
    if z3.is_int(v) or z3.is_real(v):
        return v != 0
    raise Unsupported("truth value of %r" % (v,))


def znum(v):
    """lift to an arithmetic term (bools become 0/1)"""
    v = z(v)
    if z3.is_bool(v):
        return z3.If(v, z3.IntVal(1), z3.IntVal(0))
    return v


class Unsupported(Exception):
    """construct outside the modelled subset: the function is not reported as under contract"""


class NaNType:
    """the float NaN as a *missing value* marker (A1: reals have no NaN)"""
    _inst = None

    def __new__(cls):
        if cls._inst is None:
            cls._inst = object.__new__(cls)
        return cls._inst

    def __repr__(self):
        return "NaN"


NaN = NaNType()


class NanReal:
    """a float read from a cell that may hold NaN: value term + isnan flag (NaN propagates through arithmetic)"""

    def __init__(self, val, isnan):
        self.val, self.isnan = val, isnan

    def __repr__(self):
        return "NanReal(%s,%s)" % (self.val, self.isnan)


# ----------------------------------------------------------------------------- numpy arrays
class Cell:
    """storage shared by an array and all its views"""

    def __init__(self, term, dims, nan=None, name="arr"):
        self.term = term      # z3 Array Int^dims -> elem
        self.nan = nan        # None (no missing values) or z3 Array Int^dims -> Bool
        self.dims = dims
        self.name = name
        self.writes = 0       # number of in-place writes (frame conditions)


def elem_sort(kind):
    return {"real": z3.RealSort(), "int": z3.IntSort(), "bool": z3.BoolSort()}[kind]


def arr_sort(dims, kind):
    return z3.ArraySort(*([z3.IntSort()] * dims + [elem_sort(kind)]))


class NdArr:
    """numpy.ndarray model: shape terms + a view map onto a Cell.

    imap: one entry per *base* dimension: ('fix', c) or ('dim', view_dim, offset, stride)
    meaning base_index = offset + stride * view_index[view_dim].
    """

    def __init__(self, shape, cell, imap=None, kind="real"):
        self.shape = tuple(shape)
        self.cell = cell
        self.kind = kind
        if imap is None:
            imap = [("dim", d, 0, 1) for d in range(len(shape))]
        self.imap = imap

    @property
    def ndim(self):
        return len(self.shape)

    # -- construction
    @staticmethod
    def fresh(name, shape, kind="real", nan=False):
        dims = len(shape)
        cell = Cell(z3.Const(fresh_name(name), arr_sort(dims, kind)), dims, name=name)
        if nan:
            cell.nan = z3.Const(fresh_name(name + "_nan"), arr_sort(dims, "bool"))
        return NdArr(shape, cell, kind=kind)

    @staticmethod
    def from_fn(name, shape, kind, fn, nanfn=None):
        """array whose element at (i..) is fn(i..): a z3 lambda"""
        dims = len(shape)
        idx = [z3.Int(fresh_name("ix")) for _ in range(dims)]
        body = z(fn(*idx))
        if kind == "real" and z3.is_int(body):
            body = z3.ToReal(body)
        cell = Cell(z3.Lambda(idx, body), dims, name=name)
        if nanfn is not None:
            cell.nan = z3.Lambda(idx, z(nanfn(*idx)))
        return NdArr(shape, cell, kind=kind)

    # -- index mapping
    def base_index(self, vidx):
        out = []
        for ent in self.imap:
            if ent[0] == "fix":
                out.append(z(ent[1]))
            else:
                _, d, off, st = ent
                out.append(z(off) + z(st) * z(vidx[d]) if not (isinstance(st, int) and st == 1)
                           else z(off) + z(vidx[d]))
        return out

    def get(self, *vidx):
        return z3.Select(self.cell.term, *self.base_index(vidx))

    def isnan(self, *vidx):
        if self.cell.nan is None:
            return z3.BoolVal(False)
        return z3.Select(self.cell.nan, *self.base_index(vidx))

    def set(self, vidx, val, nanval=False):
        bi = self.base_index(vidx)
        val = z(val)
        if self.kind == "real" and z3.is_int(val):
            val = z3.ToReal(val)
        old_term = self.cell.term
        hook = getattr(self.cell, "on_store", None)
        if hook is not None:
            bi, val = hook.name_operands(bi, val)        # index / value named by constants (lemma patterns must be lambda-free)
        self.cell.term = z3.Store(self.cell.term, *(bi + [val]))
        if hook is not None:
            hook(old_term, bi, val, self.cell.term)      # ghost counting: store lemma instance
        if self.cell.nan is not None or nanval is not False:
            self._need_nan()
            self.cell.nan = z3.Store(self.cell.nan, *(bi + [z(nanval)]))
        self.cell.writes += 1

    def _need_nan(self):
        if self.cell.nan is None:
            idx = [z3.Int(fresh_name("ix")) for _ in range(self.cell.dims)]
            self.cell.nan = z3.Lambda(idx, z3.BoolVal(False))

    def in_view(self, bidx):
        """(condition that base index bidx is addressed by this view, the view index tuple)"""
        conds = []
        vidx = [None] * self.ndim
        for ent, b in zip(self.imap, bidx):
            if ent[0] == "fix":
                conds.append(b == z(ent[1]))
            else:
                _, d, off, st = ent
                if isinstance(st, int) and st == 1:
                    v = b - z(off)
                elif isinstance(st, int) and st == -1:
                    v = z(off) - b
                else:
                    raise Unsupported("view stride %r" % (st,))
                vidx[d] = v
                conds.append(z3.And(v >= 0, v < z(self.shape[d])))
        return z3.And(*conds) if conds else z3.BoolVal(True), vidx

    def assign_fn(self, fn, nanfn=None):
        """self[...] = elementwise fn(view index..) over the whole view (in place)"""
        dims = self.cell.dims
        bidx = [z3.Int(fresh_name("bx")) for _ in range(dims)]
        cond, vidx = self.in_view(bidx)
        val = z(fn(*vidx))
        if self.kind == "real" and z3.is_int(val):
            val = z3.ToReal(val)
        old = self.cell.term
        self.cell.term = z3.Lambda(bidx, z3.If(cond, val, z3.Select(old, *bidx)))
        if self.cell.nan is not None or nanfn is not None:
            self._need_nan()
            oldn = self.cell.nan
            nv = z(nanfn(*vidx)) if nanfn is not None else z3.BoolVal(False)
            self.cell.nan = z3.Lambda(bidx, z3.If(cond, nv, z3.Select(oldn, *bidx)))
        self.cell.writes += 1

    def view(self, shape, imap):
        return NdArr(shape, self.cell, imap, self.kind)

    def copy(self, name=None):
        if len(self.imap) == self.cell.dims and all(e == ("dim", d, 0, 1) for d, e in enumerate(self.imap)):
            # the whole array: z3 arrays are values, the copy is the same term in a cell of its own
            c = NdArr(self.shape, Cell(self.cell.term, self.cell.dims, self.cell.nan, name or self.cell.name + "_copy"),
                      list(self.imap), self.kind)
            if getattr(self.cell, "sel_of", None) is not None:
                c.cell.sel_of = self.cell.sel_of          # ghost provenance: a copy of a masked selection is that selection
            return c
        src = self
        nanfn = (lambda *i: src.isnan(*i)) if self.cell.nan is not None else None
        frozen = NdArr(self.shape, Cell(self.cell.term, self.cell.dims, self.cell.nan), self.imap,
                       self.kind)
        nanfn = (lambda *i: frozen.isnan(*i)) if self.cell.nan is not None else None
        return NdArr.from_fn(name or self.cell.name + "_copy", self.shape, self.kind,
                             lambda *i: frozen.get(*i), nanfn)

    def snapshot(self):
        """frozen alias-free copy of the current contents (for old() / loop-entry state)"""
        return NdArr(self.shape, Cell(self.cell.term, self.cell.dims, self.cell.nan,
                                      self.cell.name + "@"), list(self.imap), self.kind)

    def __repr__(self):
        return "NdArr(%s,%s)" % (self.cell.name, self.shape)


# ----------------------------------------------------------------------------- objects
class Obj:
    """heap object with named fields; cls is a RepoClass, or a string tag for opaque classes"""
    _ids = itertools.count()

    def __init__(self, cls, fields=None, tag=None):
        self.cls = cls
        self.fields = dict(fields or {})
        self.tag = tag or (cls if isinstance(cls, str) else cls.name)
        self.oid = next(Obj._ids)
        self.events = []          # mutating events (frame conditions)

    def __repr__(self):
        return "<Obj %s#%d>" % (self.tag, self.oid)


class Opaque:
    """value of an uninterpreted sort (fitted state, sparse matrix, data frame ...)"""

    def __init__(self, term, tag="opaque"):
        self.term = term
        self.tag = tag

    def __repr__(self):
        return "<Opaque %s %s>" % (self.tag, self.term)


memF = z3.Function("member", z3.ArraySort(z3.IntSort(), z3.IntSort()), z3.IntSort(), z3.IntSort(), z3.BoolSort())


class SList:
    """list of symbolic length: length term + z3 array Int -> elem (elem: z3 sort); optional NaN flags"""

    def __init__(self, length, term, sort, wrap=None, unwrap=None, nan=None):
        self.length = length
        self.term = term
        self.sort = sort
        self.wrap = wrap or (lambda t: t)
        self.unwrap = unwrap or (lambda v: z(v))
        self.nan = nan                # None or z3 Array Int -> Bool
        self.on_append = None         # ghost hook(E, position, value term, isnan term)

    @staticmethod
    def fresh(name, sort, wrap=None, unwrap=None, nan=False):
        n = z3.Int(fresh_name(name + "_len"))
        r = SList(n, z3.Const(fresh_name(name), z3.ArraySort(z3.IntSort(), sort)), sort, wrap, unwrap)
        if nan:
            r.nan = z3.Const(fresh_name(name + "_nan"), z3.ArraySort(z3.IntSort(), z3.BoolSort()))
        return r

    @staticmethod
    def empty(sort=None, nan=True):
        if sort is None:
            sort = z3.RealSort()
        isreal = sort.kind() == z3.Z3_REAL_SORT
        r = SList(z3.IntVal(0), z3.K(z3.IntSort(), z3.RealVal(0) if isreal else z3.IntVal(0)), sort)
        if nan:
            r.nan = z3.K(z3.IntSort(), z3.BoolVal(False))
        return r

    def get(self, i):
        return self.wrap(z3.Select(self.term, z(i)))

    def member(self, q):
        """ghost: q occurs in the list (integer lists; maintained by append lemma instances)"""
        return memF(self.term, self.length, z(q))

    def isnan(self, i):
        return z3.Select(self.nan, z(i)) if self.nan is not None else z3.BoolVal(False)

    def append(self, v, E=None):
        if v is NaN:
            val, flag = (z3.RealVal(0) if self.sort.kind() == z3.Z3_REAL_SORT else z3.IntVal(0)), z3.BoolVal(True)
            if self.nan is None:
                self.nan = z3.K(z3.IntSort(), z3.BoolVal(False))
        else:
            val, flag = self.unwrap(v), z3.BoolVal(False)
            if self.sort.kind() == z3.Z3_REAL_SORT and z3.is_int(val):
                val = z3.ToReal(val)
        pos = self.length
        old_term = self.term
        self.term = z3.Store(self.term, pos, val)
        if self.nan is not None:
            self.nan = z3.Store(self.nan, pos, flag)
        self.length = z3.simplify(self.length + 1)
        if E is not None and self.sort.kind() == z3.Z3_INT_SORT:
            # ghost membership predicate of integer lists: append lemma instance
            q = z3.Int(fresh_name("mq"))
            E.axiom(z3.ForAll([q], memF(self.term, self.length, q) == z3.Or(memF(old_term, pos, q), q == val)))
        if self.on_append is not None and E is not None:
            self.on_append(E, pos, val, flag)

    def snapshot(self):
        r = SList(self.length, self.term, self.sort, self.wrap, self.unwrap, self.nan)
        return r
