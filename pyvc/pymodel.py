"""Python semantics of operators, subscripts, attributes, built-ins (modelled tier)."""
import ast
from fractions import Fraction

import z3

from .values import (NdArr, Cell, Obj, Opaque, SList, NaN, Unsupported, is_sym, is_int_like,
                     is_bool_like, is_real_like, is_num_like, is_str_like, z, zbool, znum, fresh_name)
from .engine import (ExternFn, ExternMod, PyFn, Closure, LambdaFn, BoundMethod, GenResult, PySet,
                     IterSpec, Raised, RepoModRef, Frame, HavocNone, Unbound, SymDict as _SD)
from .frontend import RepoClass, RepoFunc


def conc(v):
    return not is_sym(v)


# ----------------------------------------------------------------------------- arithmetic
def py_floordiv(a, b):
    """A3: Python floor division on ints (z3 div is Euclidean: fix the sign for b < 0)"""
    a, b = z(a), z(b)
    if z3.is_int(a) and z3.is_int(b):
        return z3.If(b > 0, a / b, (-a) / (-b))
    q = znum(a) / znum(b)
    return z3.ToReal(z3.ToInt(q))


def py_mod(a, b):
    a, b = z(a), z(b)
    if z3.is_int(a) and z3.is_int(b):
        return z3.If(b > 0, a % b, -((-a) % (-b)))
    raise Unsupported("real modulo")


def binop(R, E, op, a, b, node):
    from . import npmodel
    from .values import NanReal
    if isinstance(a, NanReal) or isinstance(b, NanReal):
        va, fa = (a.val, a.isnan) if isinstance(a, NanReal) else (a, z3.BoolVal(False))
        vb, fb = (b.val, b.isnan) if isinstance(b, NanReal) else (b, z3.BoolVal(False))
        if isinstance(va, NdArr) or isinstance(vb, NdArr):
            raise Unsupported("array arithmetic with a possibly-NaN scalar")
        return NanReal(binop(R, E, op, va, vb, node), z3.simplify(z3.Or(fa, fb)))
    if isinstance(a, NdArr) or isinstance(b, NdArr):
        return npmodel.arr_binop(R, E, op, a, b, node)
    if a is NaN or b is NaN:
        return NaN
    if isinstance(a, (list, tuple)) and isinstance(b, (list, tuple)) and isinstance(op, ast.Add):
        if type(a) is not type(b):
            E.raise_("TypeError", node, "safety")
        return a + b
    if isinstance(a, (list, tuple)) and is_int_like(b) and isinstance(op, ast.Mult):
        if not conc(b):
            raise Unsupported("list * symbolic int")
        return a * b
    if isinstance(a, str) and isinstance(op, ast.Mod):
        return str_format(R, E, a, b, node)
    if is_str_like(a) or is_str_like(b):
        if isinstance(op, ast.Add) and is_str_like(a) and is_str_like(b):
            if conc(a) and conc(b):
                return a + b
            return z3.Concat(z(a), z(b))
        if isinstance(op, ast.Mult) and conc(a) and conc(b):
            return a * b
        if isinstance(op, ast.Add):
            E.raise_("TypeError", node, "safety")
        raise Unsupported("string operator")
    if isinstance(a, Opaque) or isinstance(b, Opaque):
        return R.opaque_binop(E, op, a, b, node)
    bh = getattr(R, "binop_hook", None)
    if bh is not None and (isinstance(a, Obj) or isinstance(b, Obj)):
        r = bh(E, op, a, b, node)
        if r is not NotImplemented:
            return r
    if a is None or b is None:
        E.raise_("TypeError", node, "safety")
    if not (is_num_like(a) and is_num_like(b)):
        raise Unsupported("binop %s on %r, %r" % (type(op).__name__, a, b))
    if conc(a) and conc(b):
        return concrete_binop(E, op, a, b, node)
    x, y = znum(a), znum(b)
    if isinstance(op, ast.Add):
        return x + y
    if isinstance(op, ast.Sub):
        return x - y
    if isinstance(op, ast.Mult):
        return x * y
    if isinstance(op, ast.Div):
        E.safety("div0", y != 0, node, "ZeroDivisionError")
        return z3.ToReal(x) / z3.ToReal(y) if z3.is_int(x) and z3.is_int(y) else x / y
    if isinstance(op, ast.FloorDiv):
        E.safety("div0", y != 0, node, "ZeroDivisionError")
        return py_floordiv(x, y)
    if isinstance(op, ast.Mod):
        E.safety("div0", y != 0, node, "ZeroDivisionError")
        return py_mod(x, y)
    if isinstance(op, ast.Pow):
        if conc(b) and isinstance(b, int) and 0 <= b <= 4:
            r = z3.IntVal(1) if z3.is_int(x) else z3.RealVal(1)
            for _ in range(b):
                r = r * x
            return r
        return R.pow_(E, x, z(y), node)
    raise Unsupported("binop %s" % type(op).__name__)


def concrete_binop(E, op, a, b, node):
    if isinstance(a, float):
        a = Fraction(a)
    if isinstance(b, float):
        b = Fraction(b)
    try:
        if isinstance(op, ast.Add):
            return a + b
        if isinstance(op, ast.Sub):
            return a - b
        if isinstance(op, ast.Mult):
            return a * b
        if isinstance(op, ast.Div):
            return Fraction(a) / Fraction(b)
        if isinstance(op, ast.FloorDiv):
            r = a // b
            return r if isinstance(a, int) and isinstance(b, int) else Fraction(r)
        if isinstance(op, ast.Mod):
            return a % b
        if isinstance(op, ast.Pow):
            if isinstance(b, Fraction) and b.denominator != 1:
                raise Unsupported("fractional power of constants")
            return a ** int(b)
        if isinstance(op, ast.BitOr):
            return a | b
        if isinstance(op, ast.BitAnd):
            return a & b
    except ZeroDivisionError:
        E.raise_("ZeroDivisionError", node, "safety")
    raise Unsupported("binop %s" % type(op).__name__)


def str_format(R, E, fmt, arg, node):
    """'%d...%s' % args for the specifiers used in the target code (%s %d %r)"""
    args = list(arg) if isinstance(arg, tuple) else [arg]
    out, i, k = [], 0, 0
    while i < len(fmt):
        c = fmt[i]
        if c == "%" and i + 1 < len(fmt):
            spec = fmt[i + 1]
            if spec == "%":
                out.append("%")
            elif spec in "sdr":
                if k >= len(args):
                    E.raise_("TypeError", node, "safety")
                out.append(E.to_str(args[k], node))
                k += 1
            else:
                raise Unsupported("format spec %%%s" % spec)
            i += 2
            continue
        out.append(c)
        i += 1
    if k != len(args):
        E.raise_("TypeError", node, "safety")
    if all(isinstance(p, str) for p in out):
        return "".join(out)
    parts, buf = [], ""
    for p in out:
        if isinstance(p, str):
            buf += p
        else:
            if buf:
                parts.append(z3.StringVal(buf))
                buf = ""
            parts.append(p)
    if buf:
        parts.append(z3.StringVal(buf))
    return z3.Concat(*parts) if len(parts) > 1 else parts[0]


def compare(R, E, op, a, b, node):
    from . import npmodel
    if isinstance(op, (ast.Is, ast.IsNot)):
        r = is_identical(a, b)
        return r if isinstance(op, ast.Is) else (not r)
    if isinstance(op, (ast.In, ast.NotIn)):
        r = contains(R, E, b, a, node)
        if isinstance(op, ast.In):
            return r
        return (not r) if isinstance(r, bool) else z3.Not(r)
    if isinstance(a, NdArr) or isinstance(b, NdArr):
        return npmodel.arr_compare(R, E, op, a, b, node)
    from .values import NanReal
    if isinstance(a, NanReal) or isinstance(b, NanReal):
        # IEEE NaN (and numpy.ma.masked): every comparison with it is false, except != which is true
        va, fa = (a.val, a.isnan) if isinstance(a, NanReal) else (a, z3.BoolVal(False))
        vb, fb = (b.val, b.isnan) if isinstance(b, NanReal) else (b, z3.BoolVal(False))
        inner = compare(R, E, op, va, vb, node)
        inner = z3.BoolVal(inner) if isinstance(inner, bool) else inner
        if isinstance(op, ast.NotEq):
            return z3.simplify(z3.Or(zbool(fa), zbool(fb), inner))
        return z3.simplify(z3.And(z3.Not(zbool(fa)), z3.Not(zbool(fb)), inner))
    chook = getattr(R, "compare_hook", None)
    if chook is not None:
        r = chook(E, op, a, b, node)
        if r is not NotImplemented:
            return r
    if isinstance(a, HavocNone) or isinstance(b, HavocNone):
        raise Unsupported("comparison of loop-havocked None-initialised variable")
    if isinstance(op, (ast.Eq, ast.NotEq)):
        r = equal(R, E, a, b, node)
        if isinstance(op, ast.Eq):
            return r
        return (not r) if isinstance(r, bool) else z3.Not(r)
    if a is NaN or b is NaN:
        return False
    if a is None or b is None:
        E.raise_("TypeError", node, "safety")
    if is_str_like(a) and is_str_like(b):
        if conc(a) and conc(b):
            return {ast.Lt: a < b, ast.LtE: a <= b, ast.Gt: a > b, ast.GtE: a >= b}[type(op)]
        x, y = z(a), z(b)
        return {ast.Lt: x < y, ast.LtE: x <= y, ast.Gt: y < x, ast.GtE: y <= x}[type(op)]
    if isinstance(a, tuple) and isinstance(b, tuple) and all(conc(x) for x in a + b):
        return {ast.Lt: a < b, ast.LtE: a <= b, ast.Gt: a > b, ast.GtE: a >= b}[type(op)]
    if not (is_num_like(a) and is_num_like(b)):
        raise Unsupported("comparison %s of %r and %r" % (type(op).__name__, a, b))
    if conc(a) and conc(b):
        return {ast.Lt: a < b, ast.LtE: a <= b, ast.Gt: a > b, ast.GtE: a >= b}[type(op)]
    x, y = znum(a), znum(b)
    return {ast.Lt: x < y, ast.LtE: x <= y, ast.Gt: x > y, ast.GtE: x >= y}[type(op)]


def is_identical(a, b):
    if a is None or b is None:
        if isinstance(a, HavocNone) or isinstance(b, HavocNone):
            raise Unsupported("`is None` on a loop-havocked None-initialised variable (declare loop_kinds)")
        return a is b
    if isinstance(a, (bool,)) and isinstance(b, bool):
        return a == b
    if isinstance(a, (Obj, NdArr, list, dict, Opaque)) or isinstance(b, (Obj, NdArr, list, dict, Opaque)):
        if isinstance(a, NdArr) and isinstance(b, NdArr):
            return a is b
        if isinstance(a, Opaque) and isinstance(b, Opaque):
            return a is b or z3.eq(a.term, b.term)
        return a is b
    if is_sym(a) and is_sym(b):
        return z3.eq(a, b)
    if isinstance(a, str) and isinstance(b, str):
        return a == b
    if isinstance(a, int) and isinstance(b, int):
        return a == b
    return a is b


def equal(R, E, a, b, node):
    if a is None or b is None:
        return a is None and b is None
    if a is NaN or b is NaN:
        return False
    if isinstance(a, (list, tuple)) and isinstance(b, (list, tuple)):
        if type(a) is not type(b) or len(a) != len(b):
            return False
        rs = [equal(R, E, x, y, node) for x, y in zip(a, b)]
        if all(isinstance(r, bool) for r in rs):
            return all(rs)
        return z3.And(*[zbool(r) for r in rs])
    if isinstance(a, (Obj, Opaque)) or isinstance(b, (Obj, Opaque)):
        if isinstance(a, Opaque) and isinstance(b, Opaque) and a.term.sort() == b.term.sort():
            return a.term == b.term
        return a is b
    if isinstance(a, ExternFn) and isinstance(b, ExternFn):
        return a.name == b.name
    from .registry import TypeTag, ExcClass
    if isinstance(a, TypeTag) or isinstance(b, TypeTag):
        return isinstance(a, TypeTag) and isinstance(b, TypeTag) and a.name == b.name
    if is_str_like(a) != is_str_like(b):
        if isinstance(a, (dict, list, tuple, PySet)) or isinstance(b, (dict, list, tuple, PySet)):
            return False
        if is_num_like(a) or is_num_like(b) or isinstance(a, (Closure, ExternFn, LambdaFn)) or isinstance(b, (Closure, ExternFn, LambdaFn)):
            return False
    if conc(a) and conc(b):
        if isinstance(a, float):
            a = Fraction(a)
        if isinstance(b, float):
            b = Fraction(b)
        return a == b
    if is_str_like(a) and is_str_like(b):
        return z(a) == z(b)
    if is_num_like(a) and is_num_like(b):
        x, y = z(a), z(b)
        if z3.is_bool(x) and z3.is_bool(y):
            return x == y
        return znum(x) == znum(y)
    if isinstance(a, (Closure, LambdaFn, ExternFn, PyFn)) or isinstance(b, (Closure, LambdaFn, ExternFn, PyFn)):
        return a is b
    raise Unsupported("equality of %r and %r" % (a, b))


def contains(R, E, container, x, node):
    if isinstance(container, (list, tuple)):
        rs = [equal(R, E, x, y, node) for y in container]
        if all(isinstance(r, bool) for r in rs):
            return any(rs)
        return z3.Or(*[zbool(r) for r in rs])
    if isinstance(container, PySet):
        return contains(R, E, container.items, x, node)
    if isinstance(container, dict):
        from . import dicts
        return dicts.find(R, E, container, x, node) is not None
    if isinstance(container, _SD):
        return container.has(E, x)
    if is_str_like(container) and is_str_like(x):
        if conc(container) and conc(x):
            return x in container
        return z3.Contains(z(container), z(x))
    hook = getattr(R, "contains_hook", None)
    if hook is not None:
        r = hook(E, container, x, node)
        if r is not None:
            return r
    raise Unsupported("`in` on %r" % (container,))


# ----------------------------------------------------------------------------- subscripts
def norm_index(E, i, n, node, what="index"):
    """python index normalisation with IndexError safety"""
    if conc(i) and conc(n):
        if not isinstance(i, int):
            raise Unsupported("non-int index %r" % (i,))
        if i < -n or i >= n:
            E.raise_("IndexError", node, "safety")
        return i + n if i < 0 else i
    i_, n_ = z(i), z(n)
    if conc(i) and i >= 0:
        eff = i_
    elif conc(i) and i < 0:
        eff = i_ + n_
    elif getattr(E, "nofork", 0) and not E.feasible(i_ < 0):
        eff = i_                      # side evaluation at a position known to be non-negative: no wrap-around term
    else:
        eff = z3.If(i_ < 0, i_ + n_, i_)
    E.safety("index", z3.And(eff >= 0, eff < n_), node, "IndexError")
    return z3.simplify(eff)


def clamp_slice(sl, n):
    """(lo, length, step) of a python slice on a sequence of length n (step in {None,1,-1})"""
    step = sl.step
    if step is None:
        step = 1
    if not (conc(step) and step in (1, -1)):
        raise Unsupported("slice step %r" % (step,))
    if step == -1:
        if sl.start is None and sl.stop is None:
            return ("rev", n)
        raise Unsupported("negative-step slice with bounds")

    def cl(v, default):
        if v is None:
            return default
        if conc(v) and conc(n):
            v2 = v + n if v < 0 else v
            return max(0, min(v2, n))
        v_, n_ = z(v), z(n)
        if conc(v) and v >= 0:
            return z3.If(v_ <= n_, v_, n_)
        if conc(v) and v < 0:
            return z3.If(v_ + n_ >= 0, v_ + n_, 0)
        return z3.If(v_ < 0, z3.If(v_ + n_ >= 0, v_ + n_, 0), z3.If(v_ <= n_, v_, n_))
    lo = cl(sl.start, 0)
    hi = cl(sl.stop, n)
    if conc(lo) and conc(hi):
        return (lo, max(0, hi - lo))
    ln = z3.If(z(hi) - z(lo) >= 0, z(hi) - z(lo), 0)
    return (lo, z3.simplify(ln))


def getitem(R, E, base, idx, node):
    from . import npmodel
    if isinstance(base, NdArr):
        return npmodel.getitem(R, E, base, idx, node)
    if isinstance(base, (list, tuple)):
        if isinstance(idx, slice):
            if all(x is None or conc(x) for x in (idx.start, idx.stop, idx.step)):
                return base[idx]
            raise Unsupported("symbolic slice of a concrete list")
        if conc(idx):
            i = norm_index(E, idx, len(base), node)
            return base[i]
        # symbolic index into a concrete list: fork over feasible positions
        n = len(base)
        eff = norm_index(E, idx, n, node)
        k = E.choose([eff == j for j in range(n)])
        return base[k]
    if isinstance(base, dict):
        from . import dicts
        k = dicts.find(R, E, base, idx, node)
        if k is None:
            E.raise_("KeyError", node, "safety")
        return base[k]
    if isinstance(base, _SD):
        return base.getitem(E, idx, node)
    if isinstance(base, SList):
        if isinstance(idx, slice):
            raise Unsupported("slice of symbolic list")
        i = norm_index(E, idx, base.length, node)
        return base.get(i)
    from .engine import SymSeq
    if isinstance(base, SymSeq):
        if isinstance(idx, slice):
            raise Unsupported("slice of lazy sequence")
        return base.item(norm_index(E, idx, base.length, node))
    if is_str_like(base):
        if conc(base) and (isinstance(idx, slice) and all(x is None or conc(x) for x in (idx.start, idx.stop, idx.step)) or conc(idx) and not isinstance(idx, slice)):
            try:
                return base[idx]
            except IndexError:
                E.raise_("IndexError", node, "safety")
        s = z(base)
        n = z3.Length(s)
        if isinstance(idx, slice):
            r = clamp_slice(idx, n)
            if isinstance(r[0], str):
                raise Unsupported("reversed symbolic string")
            lo, ln = r
            return z3.SubString(s, z(lo), z(ln))
        i = norm_index(E, idx, n, node)
        return z3.SubString(s, z(i), 1)
    if isinstance(base, GenResult):
        return getitem(R, E, base.items, idx, node)
    hook = getattr(R, "getitem_hook", None)
    if hook is not None:
        r = hook(E, base, idx, node)
        if r is not NotImplemented:
            return r
    raise Unsupported("subscript of %r at %s" % (base, E.where(node)))


def setitem(R, E, base, idx, v, node):
    from . import npmodel
    if isinstance(base, NdArr):
        return npmodel.setitem(R, E, base, idx, v, node)
    if isinstance(base, list):
        if isinstance(idx, slice):
            raise Unsupported("list slice assignment")
        if conc(idx):
            base[norm_index(E, idx, len(base), node)] = v
            return
        eff = norm_index(E, idx, len(base), node)
        k = E.choose([eff == j for j in range(len(base))])
        base[k] = v
        return
    if isinstance(base, dict):
        from . import dicts
        k = dicts.find(R, E, base, idx, node)
        base[k if k is not None else dicts.mk(idx)] = v
        return
    if isinstance(base, _SD):
        return base.setitem(E, idx, v, node)
    if isinstance(base, SList):
        i = norm_index(E, idx, base.length, node)
        base.term = z3.Store(base.term, z(i), base.unwrap(v))
        return
    hook = getattr(R, "setitem_hook", None)
    if hook is not None:
        r = hook(E, base, idx, v, node)
        if r is not NotImplemented:
            return r
    if is_num_like(base) or base is None:
        E.raise_("TypeError", node, "safety")       # numbers and None do not support item assignment
    raise Unsupported("subscript store on %r at %s" % (base, E.where(node)))


# ----------------------------------------------------------------------------- attributes
def getattr_(R, E, base, attr, node):
    from . import npmodel
    from .registry import TypeTag, ExcClass
    if isinstance(base, ExternMod):
        full = base.name + "." + attr
        if R.is_module(full):
            return ExternMod(full)
        c = npmodel.CONSTS.get(full, _NO)
        if c is not _NO:
            return c
        if full in npmodel.REMOVED_IN_NUMPY2:
            E.raise_("AttributeError", node, "safety")
        return ExternFn(full)
    if isinstance(base, Obj):
        if attr in base.fields:
            return base.fields[attr]
        if attr == "fitted_state_" and base.tag == "estimator" and base.fields.get("$fitted") and "$state" in base.fields:
            return Opaque(base.fields["$state"], "fitted-state")
        if attr == "__class__":
            return base.cls if isinstance(base.cls, RepoClass) else ClassOf(base)
        if attr == "__dict__":
            if base.tag == "estimator":
                d = {k: v for k, v in base.fields.items() if not k.startswith("$")}
                if base.fields.get("$fitted") and "$state" in base.fields:
                    # the fitted state of an opaque estimator is ONE ghost fitted attribute (what its real coef_, tree_, ... stand for)
                    d["fitted_state_"] = Opaque(base.fields["$state"], "fitted-state")
                return d
            return base.fields
        if isinstance(base.cls, RepoClass):
            m = E.find_method(base.cls, attr)
            if isinstance(m, RepoFunc):
                if "property" in m.decorators:
                    return E.call_closure(Closure(m, None, base), [], {}, node)
                if "staticmethod" in m.decorators:
                    return Closure(m, None, None)
                return BoundMethod(base, m)
            if m is not None:
                return ExternFn(m, base)
            repo_cls, ext = E.mro(base.cls)
            for c in repo_cls:
                if attr in c.class_consts:
                    return E.eval(c.class_consts[attr], Frame(None, c.module))
        for h in R.attr_hooks:
            r = h(E, base, attr, node)
            if r is not NotImplemented:
                return r
        E.raise_("AttributeError", node, "safety")
    if isinstance(base, RepoClass):
        if attr in base.methods:
            m = base.methods[attr]
            return Closure(m, None, base if "classmethod" in m.decorators else None)
        m = E.find_method(base, attr)
        if isinstance(m, RepoFunc):
            return Closure(m, None, base if "classmethod" in m.decorators else None)
        if m is not None:
            return ExternFn(m)
        if attr == "__name__":
            return base.name
        for c in E.mro(base)[0]:
            if attr in c.class_consts:
                return E.eval(c.class_consts[attr], Frame(None, c.module))
        raise Unsupported("class attribute %s.%s" % (base.name, attr))
    if isinstance(base, RepoModRef):
        d = base.module.defs.get(attr)
        if isinstance(d, RepoFunc):
            return Closure(d, None)
        if d is not None:
            return d
        raise Unsupported("module attribute %s" % attr)
    if isinstance(base, NdArr):
        return npmodel.arr_attr(R, E, base, attr, node)
    if isinstance(base, ExternFn):
        # class-level access such as KMeans.fit, LinearRegression.__init__
        if attr == "__name__":
            return base.name.split(".")[-1]
        return ExternFn(base.name + "." + attr, base.self_obj)
    if isinstance(base, Raised):
        return ()
    if type(base).__name__ == "DType":
        if attr == "type":
            return base                    # numpy scalar type of the dtype: accepted wherever a dtype is
        if attr == "name":
            return base.name
        if attr == "kind":
            return {"f": "f", "i": "i", "b": "b", "u": "u"}.get(base.name[0], "O")
    if isinstance(base, ClassOf) and attr == "__name__" and isinstance(base.obj, Obj) and isinstance(base.obj.fields.get("$class"), str):
        return base.obj.fields["$class"]
    for h in R.attr_hooks:
        r = h(E, base, attr, node)
        if r is not NotImplemented:
            return r
    if isinstance(base, (list, dict, tuple, str, PySet, SList, GenResult, Closure, Opaque, _SD)) or is_sym(base) or base is None:
        return MethodRef(base, attr)
    raise Unsupported("attribute %s of %r at %s" % (attr, base, E.where(node)))


_NO = object()


class ClassOf:
    """type(obj) of an opaque object"""

    def __init__(self, obj):
        self.obj = obj


class MethodRef:
    def __init__(self, recv, name):
        self.recv, self.name = recv, name


def has_attr(R, E, base, attr):
    if isinstance(base, Obj):
        if attr in base.fields:
            return True
        if isinstance(base.cls, RepoClass):
            if E.find_method(base.cls, attr) is not None:
                return True
            return False
        r = R.opaque_hasattr(E, base, attr)
        return r
    if isinstance(base, ClassOf):
        return has_attr(R, E, base.obj, attr) and not (attr.endswith("_") and not attr.startswith("_"))
    if isinstance(base, NdArr):
        return attr in ("shape", "dtype", "T", "ravel", "copy", "sum", "astype", "reshape", "mean", "tolist", "__array__", "ndim", "size",
                        "min", "max", "argsort", "flatten", "fill", "any", "all")
    if isinstance(base, Opaque):
        return R.opaque_hasattr(E, base, attr)
    if isinstance(base, (Closure, LambdaFn, ExternFn)):
        return attr in ("__call__", "__name__")
    if base is None or isinstance(base, (int, str, list, tuple, dict, Fraction)) or is_sym(base):
        if isinstance(base, dict):
            return attr in ("items", "keys", "values", "get", "update")
        return False
    raise Unsupported("hasattr(%r, %s)" % (base, attr))


# ----------------------------------------------------------------------------- methods
def call_method(R, E, recv, name, args, kwargs, node):
    from . import npmodel
    if isinstance(recv, Obj):
        if name in recv.fields:
            return E.call(recv.fields[name], args, kwargs, node)
        if isinstance(recv.cls, RepoClass):
            m = E.find_method(recv.cls, name)
            if isinstance(m, RepoFunc):
                if "staticmethod" in m.decorators:
                    return E.call_closure(Closure(m, None, None), args, kwargs, node)
                return E.call_closure(Closure(m, None, recv), args, kwargs, node)
            if m is not None:
                return R.call_extern(E, ExternFn(m, recv), args, kwargs, node)
            E.raise_("AttributeError", node, "safety")
        if recv.tag == "estimator" and name not in recv.fields["$methods"]:
            E.raise_("AttributeError", node, "safety")
        f = R.methods.get((recv.tag, name)) or R.methods.get(("*", name))
        if f is None:
            for b in recv.fields.get("$bases", []):
                f = R.methods.get((b, name))
                if f is not None:
                    break
        if f is None:
            raise Unsupported("method %s of opaque object %s at %s" % (name, recv.tag, E.where(node)))
        return f(E, recv, args, kwargs, node)
    if isinstance(recv, NdArr):
        return npmodel.arr_method(R, E, recv, name, args, kwargs, node)
    if isinstance(recv, (ExternMod, RepoClass, RepoModRef, ExternFn)):
        fn = getattr_(R, E, recv, name, node)
        return E.call(fn, args, kwargs, node)
    if isinstance(recv, list):
        return list_method(R, E, recv, name, args, kwargs, node)
    if isinstance(recv, dict):
        return dict_method(R, E, recv, name, args, kwargs, node)
    if isinstance(recv, _SD):
        return recv.method(E, name, args, kwargs, node)
    if isinstance(recv, PySet):
        if name == "add":
            recv.add(args[0])
            return None
        if name == "update":
            for x in E.iterate_concrete(args[0], node):
                recv.add(x)
            return None
        raise Unsupported("set.%s" % name)
    if isinstance(recv, SList):
        if name == "append":
            recv.append(args[0], E)
            return None
        raise Unsupported("symbolic list method %s" % name)
    if is_str_like(recv):
        return str_method(R, E, recv, name, args, kwargs, node)
    if isinstance(recv, tuple):
        if name == "index" and all(conc(x) for x in recv) and conc(args[0]):
            if args[0] not in recv:
                E.raise_("ValueError", node, "safety")
            return recv.index(args[0])
        if name == "count" and all(conc(x) for x in recv) and conc(args[0]):
            return recv.count(args[0])
    if isinstance(recv, Opaque):
        f = R.methods.get((recv.tag, name)) or R.methods.get(("*", name))
        if f is not None:
            return f(E, recv, args, kwargs, node)
    if is_sym(recv) and name in ("sum",):
        return recv
    from .values import NanReal as _NanReal
    if isinstance(recv, _NanReal) and name in ("sum",):
        return recv
    raise Unsupported("method %s on %r at %s" % (name, recv, E.where(node)))


def list_method(R, E, recv, name, args, kwargs, node):
    if name == "append":
        recv.append(args[0])
        return None
    if name == "extend":
        recv.extend(E.iterate_concrete(args[0], node))
        return None
    if name == "insert" and conc(args[0]):
        recv.insert(args[0], args[1])
        return None
    if name == "pop":
        if not recv:
            E.raise_("IndexError", node, "safety")
        return recv.pop(*args)
    if name == "copy":
        return list(recv)
    if name == "index":
        for i, x in enumerate(recv):
            r = equal(R, E, x, args[0], node)
            if E.branch(r):
                return i
        E.raise_("ValueError", node, "safety")
    if name == "sort" and not kwargs:
        recv[:] = small_sort(R, E, list(recv), node)
        return None
    if name == "reverse":
        recv.reverse()
        return None
    raise Unsupported("list.%s" % name)


def deep_conc(x):
    if isinstance(x, (tuple, list)):
        return all(deep_conc(y) for y in x)
    return conc(x) and not isinstance(x, (Obj, NdArr, Opaque))


def py_less(R, E, a, b, node):
    """a < b for ints/reals/strings/tuples (lexicographic), as bool or z3 Bool"""
    if isinstance(a, tuple) and isinstance(b, tuple):
        for x, y in zip(a, b):
            lt = py_less(R, E, x, y, node)
            if E.branch(lt):
                return True
            if not E.branch(equal(R, E, x, y, node)):
                return False
        return len(a) < len(b)
    return compare(R, E, ast.Lt(), a, b, node)


def small_sort(R, E, items, node=None):
    """stable insertion sort of a short list whose comparisons may be symbolic (forks)"""
    if all(deep_conc(x) for x in items):
        try:
            return sorted(items)
        except TypeError:
            E.raise_("TypeError", node, "safety")
    out = []
    for x in items:
        pos = len(out)
        while pos > 0 and E.branch(py_less(R, E, x, out[pos - 1], node)):
            pos -= 1
        out.insert(pos, x)
    return out


def dict_method(R, E, recv, name, args, kwargs, node):
    from . import dicts
    if name == "items":
        return dicts.items(recv)
    if name == "keys":
        return dicts.keys(recv)
    if name == "values":
        return list(recv.values())
    if name == "get":
        default = args[1] if len(args) > 1 else kwargs.get("default")
        k = dicts.find(R, E, recv, args[0], node)
        return default if k is None else recv[k]
    if name == "update":
        if args:
            src = args[0]
            pairs = dicts.items(src) if isinstance(src, dict) else E.iterate_concrete(src, node)
            for k, v in pairs:
                setitem(R, E, recv, k, v, node)
        for k, v in kwargs.items():
            setitem(R, E, recv, k, v, node)
        return None
    if name == "copy":
        return dict(recv)
    if name == "pop":
        k = dicts.find(R, E, recv, args[0], node)
        if k is not None:
            return recv.pop(k)
        if len(args) > 1:
            return args[1]
        E.raise_("KeyError", node, "safety")
    if name == "setdefault":
        k = dicts.find(R, E, recv, args[0], node)
        if k is not None:
            return recv[k]
        v = args[1] if len(args) > 1 else None
        recv[dicts.mk(args[0])] = v
        return v
    if name == "clear":
        recv.clear()
        return None
    raise Unsupported("dict.%s" % name)


class _SymJoin(Exception):
    pass


def str_method(R, E, recv, name, args, kwargs, node):
    if conc(recv) and all(conc(a) for a in args):
        if name in ("startswith", "endswith", "split", "join", "lower", "upper", "strip", "replace", "format",
                    "find", "rstrip", "lstrip", "isdigit", "index", "count", "rsplit", "title"):
            try:
                if name == "join":
                    items_ = E.iterate_concrete(args[0], node)
                    if not all(isinstance(x, str) for x in items_):
                        raise _SymJoin()
                    return recv.join(items_)
                return getattr(recv, name)(*args, **kwargs)
            except (ValueError, IndexError):
                E.raise_("ValueError", node, "safety")
            except _SymJoin:
                pass
    s = z(recv)
    if name == "startswith":
        return z3.PrefixOf(z(args[0]), s)
    if name == "endswith":
        return z3.SuffixOf(z(args[0]), s)
    if name == "split":
        return R.str_split(E, recv, args, kwargs, node)
    if name == "join":
        items = E.iterate_concrete(args[0], node)
        parts = []
        for i, it in enumerate(items):
            if i:
                parts.append(s)
            parts.append(z(it))
        if not parts:
            return ""
        return z3.Concat(*parts) if len(parts) > 1 else parts[0]
    if name == "find":
        return z3.IndexOf(s, z(args[0]), 0)
    if name == "index":
        r = z3.IndexOf(s, z(args[0]), 0)
        E.safety("str.index", r >= 0, node, "ValueError")
        return r
    if name == "format":
        raise Unsupported("str.format with symbolic parts")
    if name in ("lower", "upper", "casefold", "title", "capitalize", "swapcase") and not args and not kwargs:
        # case mappings of a symbolic string: an UNINTERPRETED function of the string (nothing is assumed about it, not even the length:
        # 'İ'.lower() has two code points) - whatever is proved holds for the real mapping; a goal that needs facts about it stays open
        f = z3.Function("str_" + name, z3.StringSort(), z3.StringSort())
        E.assumptions_used.add("str.%s of a symbolic string is an uninterpreted function (no property of the case mapping is assumed)" % name)
        return f(s)
    raise Unsupported("str.%s on symbolic string" % name)


# ----------------------------------------------------------------------------- iteration
def iterspec(R, E, v, node):
    from .registry import RangeVal, EnumVal, ZipVal
    if isinstance(v, (list, tuple)):
        return IterSpec(concrete=list(v))
    if isinstance(v, GenResult):
        return IterSpec(concrete=list(v.items))
    if isinstance(v, PySet):
        return IterSpec(concrete=list(v.items))
    if isinstance(v, dict):
        from . import dicts
        return IterSpec(concrete=dicts.keys(v))
    if isinstance(v, str):
        return IterSpec(concrete=list(v))
    if isinstance(v, RangeVal):
        if conc(v.start) and conc(v.stop) and conc(v.step):
            return IterSpec(concrete=list(range(v.start, v.stop, v.step)))
        if not (conc(v.step) and v.step == 1):
            raise Unsupported("symbolic range step")
        n = z3.simplify(z3.If(z(v.stop) - z(v.start) >= 0, z(v.stop) - z(v.start), 0))
        if z3.is_app_of(n, z3.Z3_OP_ITE) and not E.feasible(z(v.stop) - z(v.start) < 0):
            n = z3.simplify(z(v.stop) - z(v.start))          # known non-empty-or-zero range: no clamp term
        start = v.start
        sp = IterSpec(length=n, item=lambda k: z3.simplify(z(start) + z(k)))
        sp.is_range = True
        return sp
    if isinstance(v, EnumVal):
        inner = iterspec(R, E, v.inner, node)
        st = v.start
        if inner.concrete is not None:
            return IterSpec(concrete=[(i + st, x) for i, x in enumerate(inner.concrete)])
        return IterSpec(length=inner.length, item=lambda k: (z(k) + st, inner.item(k)))
    if isinstance(v, ZipVal):
        inners = [iterspec(R, E, p, node) for p in v.parts]
        if all(s.concrete is not None for s in inners):
            return IterSpec(concrete=list(zip(*[s.concrete for s in inners])))
        if all(s.concrete is None for s in inners):
            n = inners[0].length
            for s in inners[1:]:
                n = z3.If(z(s.length) < z(n), z(s.length), z(n))
            return IterSpec(length=z3.simplify(n), item=lambda k: tuple(s.item(k) for s in inners))
        raise Unsupported("zip of concrete and symbolic sequences")
    if isinstance(v, NdArr):
        if conc(v.shape[0]):
            return IterSpec(concrete=[getitem(R, E, v, i, node) for i in range(v.shape[0])])
        return IterSpec(length=v.shape[0], item=lambda k: getitem(R, E, v, k, None))
    if isinstance(v, SList):
        return IterSpec(length=v.length, item=lambda k: v.get(k))
    from .engine import SymSeq
    if isinstance(v, SymSeq):
        return IterSpec(length=v.length, item=lambda k: v.item(k))
    if isinstance(v, _SD):
        return v.iterspec(E)
    hook = getattr(R, "iter_hook", None)
    if hook is not None:
        r = hook(E, v, node)
        if r is not None:
            return r
    raise Unsupported("iteration over %r at %s" % (v, E.where(node)))


def symbolic_comprehension(R, E, spec, gen, sub, elt, node):
    """[f(x) for x in <symbolic-length seq>] -> lazy SymSeq (rule 3: the comprehension is its own
    summary).  One generic element is evaluated on a side path (safety obligations, raising paths)."""
    from .engine import SymSeq, Frame

    def g(k):
        fr = Frame(sub.func, sub.module, parent=sub.parent)
        fr.localnames = set()
        E.assign(gen.target, spec.item(k), fr)
        return elt(fr)
    seq = SymSeq(spec.length, g)
    E.generic_element_check(seq, node)
    return seq


def filtered_comprehension(R, E, spec, gen, sub, elt, node):
    """[f(x) for x in <symbolic-length seq> if c(x)] : the selected positions are those of the boolean mask k -> c(item(k)); the
    result is the lazy sequence t -> f(item(unrank(t))) of length count (ghost rank / unrank / count of the mask, as for numpy masks)"""
    from .engine import SymSeq, Frame

    def cond_at(k):
        fr = Frame(sub.func, sub.module, parent=sub.parent)
        fr.localnames = set()
        E.assign(gen.target, spec.item(k), fr)
        c = None
        for test in gen.ifs:
            v = E.eval(test, fr)
            if isinstance(v, bool):
                v = z3.BoolVal(v)
            if not (is_sym(v) and z3.is_bool(v)):
                raise Unsupported("filter of a symbolic comprehension is not a plain boolean expression")
            c = v if c is None else z3.And(c, v)
        return c
    k = z3.Int(fresh_name("fk"))
    body = E.side_eval(z3.And(k >= 0, k < z(spec.length)), lambda: cond_at(k))     # the filter is only evaluated at positions of the sequence
    mask = NdArr((spec.length,), Cell(z3.Lambda([k], body), 1, name="filter"), kind="bool")
    mask.canonical_key = True
    fm, n, K, rank, unrank = R.mask_info(E, mask)

    def g(t):
        fr = Frame(sub.func, sub.module, parent=sub.parent)
        fr.localnames = set()
        E.assign(gen.target, spec.item(unrank(t)), fr)
        return elt(fr)
    seq = SymSeq(K, g)
    seq.filter_of = (mask, rank, unrank)
    E.generic_element_check(seq, node)
    return seq


# ----------------------------------------------------------------------------- builtins
def install(R):
    from .registry import RangeVal, EnumVal, ZipVal, TypeTag, ExcClass
    reg = R.register

    @reg("builtin.len")
    def _len(E, v):
        if isinstance(v, (list, tuple, dict, str)):
            return len(v)
        if isinstance(v, PySet):
            return len(v.items)
        if isinstance(v, GenResult):
            return len(v.items)
        if isinstance(v, NdArr):
            if v.ndim == 0:
                E.raise_("TypeError", None, "safety")
            return v.shape[0]
        if isinstance(v, SList):
            return v.length
        from .engine import SymSeq
        if isinstance(v, SymSeq):
            return v.length
        if type(v).__name__ == "ListView":
            return v.size(E)
        if isinstance(v, _SD):
            return v.size()
        if is_sym(v) and z3.is_string(v):
            return z3.Length(v)
        hook = getattr(R, "len_hook", None)
        if hook is not None:
            r = hook(E, v)
            if r is not None:
                return r
        raise Unsupported("len(%r)" % (v,))

    @reg("builtin.range")
    def _range(E, *a):
        if len(a) == 1:
            return RangeVal(0, a[0], 1)
        if len(a) == 2:
            return RangeVal(a[0], a[1], 1)
        return RangeVal(a[0], a[1], a[2])

    @reg("builtin.enumerate")
    def _enum(E, v, start=0):
        return EnumVal(v, start)

    @reg("builtin.zip")
    def _zip(E, *parts):
        return ZipVal(list(parts))

    @reg("builtin.isinstance")
    def _isinstance(E, v, t):
        ts = t if isinstance(t, tuple) else (t,)
        return any(isinstance_one(R, E, v, x) for x in ts)

    @reg("builtin.issubclass")
    def _issubclass(E, c, t):
        raise Unsupported("issubclass")

    @reg("builtin.hasattr")
    def _hasattr(E, v, attr):
        if not conc(attr):
            raise Unsupported("hasattr with symbolic name")
        return has_attr(R, E, v, attr)

    @reg("builtin.getattr")
    def _getattr(E, v, attr, *default):
        if not conc(attr):
            raise Unsupported("getattr with symbolic name")
        if default:
            if not has_attr(R, E, v, attr):
                return default[0]
        return getattr_(R, E, v, attr, None)

    @reg("builtin.setattr")
    def _setattr(E, v, attr, val):
        if not conc(attr):
            raise Unsupported("setattr with symbolic name")
        E.setattr(v, attr, val)

    @reg("builtin.delattr")
    def _delattr(E, v, attr):
        if not conc(attr):
            raise Unsupported("delattr with symbolic name")
        if isinstance(v, Obj):
            if attr not in v.fields:
                E.raise_("AttributeError", None, "safety")
            del v.fields[attr]
            v.events.append(("del", attr))
            return None
        raise Unsupported("delattr on %r" % (v,))

    @reg("builtin.callable")
    def _callable(E, v):
        if isinstance(v, (Closure, LambdaFn, ExternFn, PyFn, BoundMethod, RepoClass)):
            return True
        if isinstance(v, Obj):
            return bool(v.fields.get("$callable", False))
        if isinstance(v, Opaque):
            return v.tag == "callable"
        return False

    @reg("builtin.int")
    def _int(E, v=0, *a):
        if isinstance(v, bool):
            return int(v)
        if isinstance(v, int):
            return v
        if isinstance(v, Fraction):
            return int(v)
        if isinstance(v, str):
            try:
                return int(v)
            except ValueError:
                E.raise_("ValueError", None, "safety")
        if is_sym(v):
            if z3.is_int(v):
                return v
            if z3.is_bool(v):
                return z3.If(v, 1, 0)
            if z3.is_real(v):
                return z3.If(v >= 0, z3.ToInt(v), -z3.ToInt(-v))
            if z3.is_string(v):
                r = z3.StrToInt(v)
                # int(s) raises unless s is a digit string (signs/spaces ignored: A4)
                E.safety("int(str)", r >= 0, None, "ValueError")
                return r
        if isinstance(v, NdArr) and all(conc(s) and s == 1 for s in v.shape):
            return _int(E, v.get(*[0] * v.ndim))
        raise Unsupported("int(%r)" % (v,))

    @reg("builtin.float")
    def _float(E, v=0):
        if isinstance(v, (int, Fraction)) and not isinstance(v, bool):
            return Fraction(v)
        if isinstance(v, str) and v in ("nan", "inf", "-inf"):
            return NaN if v == "nan" else float(v)
        if is_sym(v) and z3.is_int(v):
            return z3.ToReal(v)
        if is_sym(v) and z3.is_real(v):
            return v
        if isinstance(v, NdArr):
            # numpy >= 2: float() of an array with ndim > 0 raises TypeError (only 0-d converts)
            if v.ndim == 0:
                return v.get()
            E.raise_("TypeError", None, "safety")
        raise Unsupported("float(%r)" % (v,))

    @reg("builtin.str")
    def _str(E, v=""):
        return E.to_str(v)

    @reg("builtin.repr")
    def _repr(E, v):
        return E.str("repr")

    @reg("builtin.bool")
    def _bool(E, v=False):
        return E.truth_value(v)

    @reg("builtin.abs")
    def _abs(E, v):
        if conc(v):
            return abs(v)
        return z3.If(v >= 0, v, -v)

    @reg("builtin.min")
    def _min(E, *a, **kw):
        items = list(a) if len(a) > 1 else E.iterate_concrete(a[0])
        if not items:
            E.raise_("ValueError", None, "safety")
        if all(conc(x) for x in items):
            return min(items)
        r = items[0]
        for x in items[1:]:
            r = z3.If(znum(x) < znum(r), znum(x), znum(r))
        return r

    @reg("builtin.max")
    def _max(E, *a, **kw):
        items = list(a) if len(a) > 1 else E.iterate_concrete(a[0])
        if not items:
            E.raise_("ValueError", None, "safety")
        if all(conc(x) for x in items):
            return max(items)
        r = items[0]
        for x in items[1:]:
            r = z3.If(znum(x) > znum(r), znum(x), znum(r))
        return r

    @reg("builtin.sum")
    def _sum(E, v, start=0):
        items = E.iterate_concrete(v)
        r = start
        for x in items:
            r = binop(R, E, ast.Add(), r, x, None)
        return r

    @reg("builtin.sorted")
    def _sorted(E, v, key=None, reverse=False):
        hook = getattr(R, "sorted_hook", None)
        if hook is not None:
            r = hook(E, v, key, reverse)
            if r is not None:
                return r
        if type(v).__name__ == "SymSet" and key is None and not reverse:
            return v.sorted_of(E)
        items = E.iterate_concrete(v)
        if key is None and all(deep_conc(x) for x in items):
            try:
                return sorted(items, reverse=bool(reverse))
            except TypeError:
                E.raise_("TypeError", None, "safety")
        if len(items) <= 1:
            return list(items)
        if key is None and len(items) <= 6:
            r = small_sort(R, E, list(items))
            return list(reversed(r)) if reverse else r
        raise Unsupported("sorted of symbolic items")

    @reg("builtin.list")
    def _list(E, v=()):
        if isinstance(v, SList):
            return v.snapshot()
        if type(v).__name__ == "SymSeq":
            return v                    # a lazy sequence is immutable here: list(seq) is the same sequence of elements
        if isinstance(v, _SD):
            return v.keys_list(E)
        return list(E.iterate_concrete(v))

    @reg("builtin.tuple")
    def _tuple(E, v=()):
        return tuple(E.iterate_concrete(v))

    @reg("builtin.dict")
    def _dict(E, *a, **kw):
        d = {}
        if a:
            if isinstance(a[0], dict):
                d.update(a[0])
            else:
                for k, v in E.iterate_concrete(a[0]):
                    setitem(R, E, d, k, v, None)
        d.update(kw)
        return d

    @reg("builtin.set")
    def _set(E, v=()):
        hook = getattr(R, "set_hook", None)
        if hook is not None:
            r = hook(E, v)
            if r is not None:
                return r
        return PySet(E.iterate_concrete(v))

    @reg("builtin.type")
    def _type(E, v):
        if isinstance(v, Obj):
            return v.cls if isinstance(v.cls, RepoClass) else ExternFn(v.cls)
        return TypeTag(type(v).__name__)

    @reg("builtin.any")
    def _any(E, v):
        for x in E.iterate_concrete(v):
            if E.truth(x):
                return True
        return False

    @reg("builtin.all")
    def _all(E, v):
        for x in E.iterate_concrete(v):
            if not E.truth(x):
                return False
        return True

    @reg("builtin.reversed")
    def _reversed(E, v):
        return list(reversed(E.iterate_concrete(v)))

    @reg("builtin.round")
    def _round(E, v, nd=None):
        raise Unsupported("round")

    @reg("builtin.id")
    def _id(E, v):
        if isinstance(v, Obj):
            return 1000 + v.oid
        raise Unsupported("id")

    @reg("builtin.iter")
    def _iter(E, v):
        return GenResult(E.iterate_concrete(v))

    @reg("builtin.map")
    def _map(E, f, v):
        return GenResult([E.call(f, [x], {}) for x in E.iterate_concrete(v)])

    @reg("builtin.print")
    def _print(E, *a, **k):
        return None

    @reg("bisect.insort")
    def _insort(E, lst, item, *a, **k):
        if type(lst).__name__ == "ListView":
            return lst.insort(E, item, None)
        raise Unsupported("bisect.insort into %s" % type(lst).__name__)

    @reg("builtin.super")
    def _super(E, *a):
        raise Unsupported("super()")


def isinstance_one(R, E, v, t):
    from .registry import TypeTag, ExcClass
    name = None
    if isinstance(t, ExternFn):
        name = t.name.split(".")[-1]
    elif isinstance(t, TypeTag):
        name = t.name
    elif isinstance(t, RepoClass):
        name = t.name
    elif isinstance(t, ExcClass):
        return isinstance(v, Raised) and v.cls == t.name
    else:
        raise Unsupported("isinstance against %r" % (t,))
    if name in ("int", "integer", "int64", "int32"):
        return is_int_like(v) and not isinstance(v, bool) or (name == "int" and isinstance(v, bool))
    if name in ("float", "float64", "floating", "float32"):
        return is_real_like(v) or v is NaN
    if name == "bool":
        return is_bool_like(v)
    if name == "str":
        return is_str_like(v)
    if name == "list":
        return isinstance(v, (list, SList))
    if name == "tuple":
        return isinstance(v, tuple)
    if name == "dict":
        return isinstance(v, (dict, _SD))
    if name == "set":
        return isinstance(v, PySet)
    if name == "ndarray":
        return isinstance(v, NdArr)
    if name == "type":
        return isinstance(v, (RepoClass, TypeTag))
    if name in ("Number", "Real"):
        return is_num_like(v)
    if isinstance(v, Obj):
        return E.isinstance_of(v, name)
    if isinstance(v, Opaque):
        return R.opaque_isinstance(E, v, name)
    return False
