"""Engine self-test: small functions with known verdicts, executed by the same executor.
Each case: source text, contract, expected set of failing obligation names."""
import z3

from .api import Contract, verify_function
from .frontend import Repo, RepoModule
from .solve import discharge
from .values import z

SRC = '''
def fdiv(a):
    return a // 3, a % 3, a // -3, a % -3

def clampsum(xs, n):
    s = 0
    for i in range(n):
        if xs[i] > 0:
            s += xs[i]
    return s

def bad_index(xs, n):
    return xs[n]

def tally(labels, counters, n):
    counters[:] = 0
    for i in range(n):
        counters[labels[i]] += 1
    return counters

def total(w, a, b):
    t = 0.
    for k in range(a, b):
        t += w[k]
    return t

def pick_even(xs, n):
    return [i for i in range(n) if xs[i] == 0]

def rebound(y, n):
    y = y * 2
    t = 0.
    for i in range(n):
        t += y[i]
    return t

def reshaped(m, n):
    v = m
    for i in range(n):
        v = v[0]
    return v

def unbound(flag):
    for i in range(3):
        if flag:
            v = i
        r = v
    return r
'''


class _Repo(Repo):
    def __init__(self):
        Repo.__init__(self, "/nonexistent")
        self._mods["t.py"] = RepoModule(self, "t.py", text=SRC)


class FDiv(Contract):
    key, prop = "t.py::fdiv", "T"

    def setup(self, E, v):
        return dict(a=E.int("a"))

    def ensures(self, E, a, res, old):
        q, r, q2, r2 = res
        # Python: 7//3=2 7%3=1 -7//3=-3 -7%3=2 7//-3=-3 7%-3=-2 -7//-3=2 -7%-3=-1
        return {"euclid": z3.And(a.a == q * 3 + r, a.a == q2 * -3 + r2),
                "sign": z3.And(r >= 0, r < 3, r2 <= 0, r2 > -3),
                "wrong_trunc": z3.Implies(a.a == -7, q == -2)}


class ClampSum(Contract):
    key, prop = "t.py::clampsum", "T"

    def setup(self, E, v):
        n = E.size("n")
        return dict(xs=E.nd("xs", (n,), "int"), n=n)

    def ensures(self, E, a, res, old):
        return {"nonneg": z(res) >= 0, "wrong_positive": z(res) > 0}
    loops = {0: lambda E, L: {"s>=0": z(L["s"]) >= 0}}


class BadIndex(Contract):
    key, prop = "t.py::bad_index", "T"

    def setup(self, E, v):
        n = E.size("n")
        return dict(xs=E.nd("xs", (n,), "int"), n=n)


class Unbound(Contract):
    key, prop = "t.py::unbound", "T"
    variants = [True, False]
    allow_unconstrained_exit = True      # this case is only about the UnboundLocalError of the other variant

    def setup(self, E, v):
        return dict(flag=v)


class Tally(Contract):
    """ghost counting function cnt with store / fill lemma instances: counters[c] = cnt(labels, c, i) is an inductive invariant"""
    key, prop = "t.py::tally", "T"

    def setup(self, E, v):
        from . import counting
        n, k = E.size("n"), E.size("k", 1)
        lab, cn = E.nd("labels", (n,), "int"), E.nd("counters", (k,), "int")
        i = z3.Int("ti")
        E.assume(z3.ForAll([i], z3.Implies(z3.And(i >= 0, i < n), z3.And(lab.get(i) >= 0, lab.get(i) < k))))
        return dict(labels=lab, counters=cn, n=n)

    @staticmethod
    def _inv(E, L, off=0):
        from . import counting
        q = z3.Int("tq")
        lab, cn = L["labels"], L["counters"]
        # prefix count: cnt over the first i labels, stepped by the lemma cnt(a, q, i+1) = cnt(a, q, i) + [a[i] = q]
        i = z(L.i)
        E.axiom(z3.ForAll([q], z3.Implies(i >= 1, counting.cntF(lab.cell.term, q, i) ==
                                           counting.cntF(lab.cell.term, q, i - 1) + z3.If(lab.get(i - 1) == q, 1, 0))))
        E.axiom(z3.ForAll([q], counting.cntF(lab.cell.term, q, z3.IntVal(0)) == 0))
        return {"counters_count": z3.ForAll([q], z3.Implies(z3.And(q >= 0, q < z(cn.shape[0])), cn.get(q) == counting.cntF(lab.cell.term, q, i) + off))}
    loops = {0: _inv.__func__}

    def ensures(self, E, a, res, old):
        from . import counting
        q = z3.Int("tq2")
        good = z3.ForAll([q], z3.Implies(z3.And(q >= 0, q < z(a.counters.shape[0])), a.counters.get(q) == counting.cntF(a.labels.cell.term, q, z(a.n))))
        bad = z3.ForAll([q], z3.Implies(z3.And(q >= 0, q < z(a.counters.shape[0])), a.counters.get(q) == counting.cntF(a.labels.cell.term, q, z(a.n)) + 1))
        return {"counts": good, "wrong_counts_plus_one": bad}


class Total(Contract):
    """ghost range sum psum with step / empty lemma instances"""
    key, prop = "t.py::total", "T"

    def setup(self, E, v):
        n = E.size("n")
        a, b = E.int("a"), E.int("b")
        E.assume(z3.And(0 <= a, a <= b, b <= n))
        return dict(w=E.nd("w", (n,)), a=a, b=b)

    @staticmethod
    def _inv(E, L):
        from . import counting
        counting.psum_step(E, L["w"], L["a"], L.i)
        counting.psum_empty(E, L["w"], L["a"], L.i)
        return {"partial": z(L["t"]) == counting.psum(L["w"], L["a"], L.i)}
    loops = {0: _inv.__func__}

    def ensures(self, E, a, res, old):
        from . import counting
        return {"sum": z(res) == counting.psum(a.w, a.a, a.b), "wrong_sum_one_more_term": z(res) == counting.psum(a.w, a.a, z(a.b) + 1)}


class PickEven(Contract):
    """filtered comprehension over a symbolic range = the mask ghost (rank / unrank / count)"""
    key, prop = "t.py::pick_even", "T"

    def setup(self, E, v):
        n = E.size("n")
        return dict(xs=E.nd("xs", (n,), "int"), n=n)

    def ensures(self, E, a, res, old):
        t = z3.Int("pt")
        L = z(res.length)
        return {"only_selected_positions_in_increasing_order": z3.ForAll([t], z3.Implies(z3.And(t >= 0, t < L), z3.And(
            z(res.item(t)) >= 0, z(res.item(t)) < z(a.n), a.xs.get(z(res.item(t))) == 0, z3.Implies(t + 1 < L, z(res.item(t)) < z(res.item(t + 1)))))),
            "wrong_every_position_selected": L == z(a.n)}


class Rebound(Contract):
    """an invariant that reads a data parameter the function has re-bound to another array: refused, not proved about the copy"""
    key, prop = "t.py::rebound", "T"
    allow_unconstrained_exit = True

    def setup(self, E, v):
        n = E.size("n")
        return dict(y=E.nd("y", (n,)), n=n)
    loops = {0: lambda E, L: {"same_length": z(L["y"].shape[0]) == z(L["n"])}}

    def ensures(self, E, a, res, old):
        return {"a_number": z3.BoolVal(True)}


class Reshaped(Contract):
    """a loop that changes the rank of an array it re-binds: the invariant cut has one representation per variable - refused"""
    key, prop = "t.py::reshaped", "T"
    allow_unconstrained_exit = True

    def setup(self, E, v):
        return dict(m=E.nd("m", (E.size("r", 1), E.size("c", 1))), n=E.size("n"))
    loops = {0: lambda E, L: {"trivial": z3.BoolVal(True)}}

    def ensures(self, E, a, res, old):
        return {"something": z3.BoolVal(True)}


def run_all():
    from .api import make_registry
    repo = _Repo()
    ok = True
    expect = {
        FDiv: {"T.fdiv.post.wrong_trunc"},
        ClampSum: {"T.clampsum.post.wrong_positive"},
        BadIndex: {"T.bad_index.no-raise.IndexError"},
        Unbound: {"T.unbound.no-raise.UnboundLocalError"},
        Tally: {"T.tally.post.wrong_counts_plus_one"},
        Total: {"T.total.post.wrong_sum_one_more_term"},
        PickEven: {"T.pick_even.post.wrong_every_position_selected"},
    }
    for cls, needle in ((Rebound, "re-bound to another array"), (Reshaped, "one representation per variable")):
        c = cls()
        rep = verify_function(repo, {c.key: c}, c)
        if not rep.unsupported or needle not in rep.unsupported:
            print("selftest MISMATCH", cls.__name__, "expected a refusal mentioning %r, got %r" % (needle, rep.unsupported))
            ok = False
        else:
            print("selftest ok:", cls.__name__, "refused as expected")
    for cls, bad in expect.items():
        c = cls()
        rep = verify_function(repo, {c.key: c}, c)
        if rep.unsupported:
            print("selftest: unsupported", cls.__name__, rep.unsupported)
            ok = False
            continue
        res = discharge(rep.obligations, timeout=10)
        failing = {ob.oid for ob, r in zip(rep.obligations, res) if r["status"] != "unsat"}
        if failing != bad or not rep.obligations:
            print("selftest MISMATCH", cls.__name__, "failing", failing, "expected", bad)
            ok = False
        else:
            print("selftest ok:", cls.__name__, len(rep.obligations), "obligations, failing as expected:", sorted(bad))
    return ok
