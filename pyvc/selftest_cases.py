"""Engine self-test: small functions with known verdicts, executed by the same executor.
Each case: source text, contract, expected set of failing obligation names."""
import z3

from .api import Contract, verify_function
from .frontend import Repo, RepoModule
from .solve import discharge
from .values import z

SRC = '''
def fdiv(a):
    return a // 3, a % 3, a // -3, a % -3

def clampsum(xs, n):
    s = 0
    for i in range(n):
        if xs[i] > 0:
            s += xs[i]
    return s

def bad_index(xs, n):
    return xs[n]

def unbound(flag):
    for i in range(3):
        if flag:
            v = i
        r = v
    return r
'''


class _Repo(Repo):
    def __init__(self):
        Repo.__init__(self, "/nonexistent")
        self._mods["t.py"] = RepoModule(self, "t.py", text=SRC)


class FDiv(Contract):
    key, prop = "t.py::fdiv", "T"

    def setup(self, E, v):
        return dict(a=E.int("a"))

    def ensures(self, E, a, res, old):
        q, r, q2, r2 = res
        # Python: 7//3=2 7%3=1 -7//3=-3 -7%3=2 7//-3=-3 7%-3=-2 -7//-3=2 -7%-3=-1
        return {"euclid": z3.And(a.a == q * 3 + r, a.a == q2 * -3 + r2),
                "sign": z3.And(r >= 0, r < 3, r2 <= 0, r2 > -3),
                "wrong_trunc": z3.Implies(a.a == -7, q == -2)}


class ClampSum(Contract):
    key, prop = "t.py::clampsum", "T"

    def setup(self, E, v):
        n = E.size("n")
        return dict(xs=E.nd("xs", (n,), "int"), n=n)

    def ensures(self, E, a, res, old):
        return {"nonneg": z(res) >= 0, "wrong_positive": z(res) > 0}
    loops = {0: lambda E, L: {"s>=0": z(L["s"]) >= 0}}


class BadIndex(Contract):
    key, prop = "t.py::bad_index", "T"

    def setup(self, E, v):
        n = E.size("n")
        return dict(xs=E.nd("xs", (n,), "int"), n=n)


class Unbound(Contract):
    key, prop = "t.py::unbound", "T"
    variants = [True, False]

    def setup(self, E, v):
        return dict(flag=v)


def run_all():
    from .api import make_registry
    repo = _Repo()
    ok = True
    expect = {
        FDiv: {"T.fdiv.post.wrong_trunc"},
        ClampSum: {"T.clampsum.post.wrong_positive"},
        BadIndex: {"T.bad_index.no-raise.IndexError"},
        Unbound: {"T.unbound.no-raise.UnboundLocalError"},
    }
    for cls, bad in expect.items():
        c = cls()
        rep = verify_function(repo, {c.key: c}, c)
        if rep.unsupported:
            print("selftest: unsupported", cls.__name__, rep.unsupported)
            ok = False
            continue
        res = discharge(rep.obligations, timeout=10)
        failing = {ob.oid for ob, r in zip(rep.obligations, res) if r["status"] != "unsat"}
        if failing != bad or not rep.obligations:
            print("selftest MISMATCH", cls.__name__, "failing", failing, "expected", bad)
            ok = False
        else:
            print("selftest ok:", cls.__name__, len(rep.obligations), "obligations, failing as expected:", sorted(bad))
    return ok
