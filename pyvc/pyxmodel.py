"""Models of the run-time names of extracted Cython text (pyvc/pyx_runtime.py) for the symbolic executor."""
import z3

from .values import NdArr, Obj, NaN, Unsupported, z


def install(R):
    def _calloc(E, n, elem):
        kind = {"float64_t": "real", "double": "real", "float32_t": "real", "intp_t": "int", "int": "int"}.get(elem)
        if kind is None:
            raise Unsupported("calloc of %r" % (elem,))
        E.safety("calloc-size", z(n) >= 0, None, "MemoryError")
        return NdArr.from_fn("calloc", (n,), kind, lambda i: z3.RealVal(0) if kind == "real" else z3.IntVal(0))
    R.fns["pyvc.pyx_runtime.calloc"] = _calloc
    R.fns["pyvc.pyx_runtime.free"] = lambda E, p: None
    from .npmodel import CONSTS
    CONSTS["pyvc.pyx_runtime.NAN"] = NaN

    def _attr_ref(E, obj, attr):
        o = Obj("attr_ref", tag="attr_ref")
        o.fields["obj"], o.fields["attr"] = obj, attr
        return o
    R.fns["pyvc.pyx_runtime._pyx_attr_ref"] = _attr_ref

    prev_get = getattr(R, "getitem_hook", None)

    def getitem_hook(E, base, idx, node):
        if isinstance(base, Obj) and base.tag == "attr_ref":
            if not (isinstance(idx, int) and idx == 0):
                raise Unsupported("pointer arithmetic on &obj.attr")
            return E.getattr(base.fields["obj"], base.fields["attr"], node)
        return prev_get(E, base, idx, node) if prev_get is not None else NotImplemented
    R.getitem_hook = getitem_hook

    prev_set = getattr(R, "setitem_hook", None)

    def setitem_hook(E, base, idx, v, node):
        if isinstance(base, Obj) and base.tag == "attr_ref":
            if not (isinstance(idx, int) and idx == 0):
                raise Unsupported("pointer arithmetic on &obj.attr")
            E.setattr(base.fields["obj"], base.fields["attr"], v, node)
            return None
        return prev_set(E, base, idx, v, node) if prev_set is not None else NotImplemented
    R.setitem_hook = setitem_hook
