#!/usr/bin/env python3
"""Regenerates /verif/MANIFEST.json from the table below and validates it against the schema."""
import json, os
HERE = os.path.dirname(os.path.dirname(os.path.abspath(__file__)))
PINNED = ("cd /repo && /venv/bin/python -m pytest -ra -q -p no:cacheprovider --timeout=900 --continue-on-collection-errors "
          "--junitxml=/tmp/mlinsights_baseline_off.junit.xml")

# property -> dict(text, note, technique, category)
CLAIMED = {}
NOT_YET = {}


def claim(pid, text, note, technique, category="proof", design="7"):
    CLAIMED[pid] = dict(text=text, note=note, technique=technique, category=category, design=design)


exec(open(os.path.join(HERE, "tools", "manifest_table.py")).read())

props = [json.loads(l) for l in open(os.path.join(HERE, "properties.jsonl"))]
checks, na = [], []
for p in props:
    pid = p["id"]
    if pid in CLAIMED:
        c = CLAIMED[pid]
        checks.append(dict(
            property_id=pid,
            quick_cmd="./check %s --tier quick" % pid,
            thorough_cmd="./check %s --tier thorough" % pid,
            evidence_file="evidence/%s.json" % pid,
            replay_cmd_template="./check %s --replay {path}" % pid,
            engine="pyvc",
            level_claimed=dict(category=c["category"], text=c["text"], design_ref="DESIGN.md section 7, " + pid),
            level_note=c["note"],
            technique=c["technique"]))
    else:
        na.append(dict(property_id=pid, reason=NOT_YET.get(pid, "contracts for this property are not built yet in this tree (work in progress); no check is claimed")))
m = dict(
    version=1,
    setup_cmd="python3-vt -m pyvc.selftest && python3-vt -m pyvc.difftest",
    hooks=dict(guard="MLINSIGHTS_VERIF", enable="no source hooks are needed: the verifier reads /repo's source, replays run in a scratch overlay copy",
               baseline_off_cmd=PINNED, source_commits=[], add_only=True),
    engines=[dict(name="pyvc", path="pyvc/", serves_properties=sorted(CLAIMED),
                  kind_free_text="contract-based deductive verification: VC generator over the real Python AST of /repo, sidecar contracts in contracts/, "
                                 "obligations discharged by z3/cvc5; bounded stand-ins (bounded/) on the real code in an overlay, labelled bounded")],
    checks=checks,
    notes="Exit codes of ./check: 0 held, 1 VIOLATION line printed, 2 undecided (engine cannot handle a function under contract), 3 checker broken (vacuity guard). "
          "KNOWN_FINDINGS.json lists repaired defects (fixed:) and known findings. See DESIGN.md.",
    not_applicable=na)
with open(os.path.join(HERE, "MANIFEST.json"), "w") as f:
    json.dump(m, f, indent=1)
try:
    import jsonschema
    jsonschema.validate(m, json.load(open("/root/.vp/MANIFEST.schema.json")))
    print("MANIFEST.json valid:", len(checks), "checks,", len(na), "not_applicable")
except ImportError:
    print("written (jsonschema not available for validation)")
