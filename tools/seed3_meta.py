#!/usr/bin/env python3
"""writes seeded/<id>-agent3<a|b>/meta.json from the stored check outputs (first run and run after strengthening)"""
import json, os, re, subprocess
HERE = os.path.dirname(os.path.dirname(os.path.abspath(__file__)))
base = subprocess.run(["git", "-C", "/repo", "rev-parse", "--short", "HEAD"], capture_output=True, text=True).stdout.strip()
HISTORY = {
    "C01a": "missed at first (the constructor contract only asked that the object rebuilt from get_params keeps the value): constructors gained "
            "value_given_for_<p>_is_stored_unconverted for user-chosen numbers; bounded stand-in gained clone after set_params(p=numpy.float64)",
    "C01b": "missed at first (LearnerSet variants always changed the method): variants model+same-method / roundtrip-same-method / same-method added; "
            "the bounded round trip now looks at the instance itself instead of a clone rebuilt from its parameters",
    "C02b": "bounded-only at first (checked against C02 only; the frame clause lived in C13): PermutationReciprocalTransformer.transform is now also under "
            "C02 with its frame clause (features and targets not written)",
    "C03a": "bounded-only at first: PiecewiseEstimator.fit gained 'integer random_state (0 included) seeds the generator of the fit' and 'nothing drawn "
            "from the global generator' (C02 and C03)",
    "C04b": "missed at first (no estimator with strategy='weights' in the table): ConstraintKMeans-weights (output transform) added to the shared estimator table",
    "C05b": "bounded + undecided at first (numpy.average not modelled): numpy.average(a, weights) modelled; the score clause is no longer discharged on the changed code",
    "C06a": "bounded stand-in catches it; the proof of _centers_dense is undecided on the changed code (loop invariants are attached to loop ordinals and the "
            "first loop was removed) - reported as undecided, not guessed",
    "C06b": "bounded-only at first (_init_centroids was an assumed step): _init_centroids is now proved, the change fails its no-raise.ValueError obligation",
    "C08a": "missed at first (a cache is invisible in a single call): frame clause 'estimator left as it was, nothing kept between calls' on transform_bins / "
            "predict / predict_proba; bounded C04 and C08: the same array object refilled in place",
    "C09a": "missed at first (real-valued batches only): integer-batch variant of _predict_reglin (numpy.hstack promotion modelled); bounded int64 / float32 batches",
    "C10a": "bounded-only at first (enumerate_leaves_index was not under contract): contract on five tree shapes, complete in the node indices",
    "C11a": "missed at first: the engine ignored unknown decorators (now refused: function undecided) and the harness called each configuration once "
            "(now a second estimator and a second call)",
    "C12b": "the check did not terminate at first (symbolic parent walk over the changed table): tree_node_parents has its own unbounded contract (fails "
            "inv-step with a counterexample); wall-clock generation budget in the engine, exceeded = undecided",
    "C13a": "missed at first (_common_get_transform had no contract): contract added (fresh clone, never the caller's object); bounded: one transformer object "
            "handed to two models",
    "C14b": "missed at first (delegation contract used ngram_range=(1,2) only): variants over (1,1), (1,2), (2,3); bounded options with unigrams + stop words",
    "C15a": "undecided at first (numpy.cumsum not modelled) and not caught by the bounded stand-in: cumsum modelled; bounded: members of different dtypes in both "
            "orders (the proof abstracts dtypes to reals, so this stays bounded)",
    "C16a": "missed at first (the contract looped over transform / predict / predict_proba): decision_function included, final step with all three outputs; "
            "bounded: every output method of the last step records",
    "C16b": "bounded-only at first: _pipeline_info is now under contract on five Pipeline / FeatureUnion shapes (inputs declared before use, union members parallel)",
    "C18a": "bounded-only at first: numpy.corrcoef results may hold NaN in the model, the accumulators of non_linear_correlations carry a no-NaN invariant",
    "C20b": "missed at first (NaN forecasts excluded by precondition): numpy.ma masked arrays modelled, contract variants with missing forecasts; bounded NaN cases",
}
for d in sorted(os.listdir(os.path.join(HERE, "seeded"))):
    m = re.match(r"(C\d\d)-agent3([ab])$", d)
    if not m:
        continue
    pid, ab = m.groups()
    p = os.path.join(HERE, "seeded", d)

    def parse(fn):
        if not os.path.exists(os.path.join(p, fn)):
            return None
        t = open(os.path.join(p, fn)).read()
        ex = re.findall(r"check exit=(\d+)", t)
        return dict(check_exit=int(ex[-1]) if ex else None, failed=re.findall(r"failed: (\S+)", t), undecided=[l[:200] for l in t.splitlines() if l.startswith("UNDECIDED")])
    first, last = parse("check_output_first.txt"), parse("check_output.txt")
    meta = dict(property=pid, origin="independent sub-agent (round 3, two changes per property) given only the property text and two scratch worktrees",
                confirmed_by="tools/confirm_seed3.sh %s%s: pinned suite 46 passed with the change in the scratch worktree, demo.py exits 0 on /repo and 1 on the worktree" % (pid, ab.upper()),
                base_commit=base, check_exit=last["check_exit"], caught_by=last["failed"])
    if last["undecided"]:
        meta["undecided"] = last["undecided"]
    if first is not None:
        meta["first_run"] = dict(check_exit=first["check_exit"], caught_by=first["failed"], undecided=first["undecided"])
    h = HISTORY.get(pid + ab)
    meta["history"] = h if h else "caught on the first run"
    json.dump(meta, open(os.path.join(p, "meta.json"), "w"), indent=1)
    print(d, meta["check_exit"], len(meta["caught_by"]), "proof" if any(not f.startswith("bounded:") for f in meta["caught_by"]) else "bounded-only")
