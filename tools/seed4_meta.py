#!/usr/bin/env python3
"""writes seeded/<id>-agent4/meta.json from the stored check outputs (first run and run after strengthening)"""
import json, os, re, subprocess
HERE = os.path.dirname(os.path.dirname(os.path.abspath(__file__)))
HISTORY = {
    "C01": "caught on the first run by the contract on SkLearnParameters.__init__ added shortly before (keeps the very objects it is given)",
    "C02": "missed at first (PredictableTSNE.fit was outside the frame contracts and outside the bounded table): TsneFit frame contract (needed fit_transform, "
           "column mean/std, row broadcasting, mean_squared_error in the engine); bounded: PredictableTSNE on fewer rows than the perplexity",
    "C03": "bounded stand-in only (seeds of numpy integer type were added to it): the proof has one integer kind and cannot tell int from numpy.int64",
    "C04": "bounded + undecided at first (~ on a float array not modelled): the engine raises TypeError there, the change fails three no-raise obligations",
    "C05": "bounded-only at first: compute_z / fit gained 'arguments not written, results are new arrays'; numpy.asarray (alias unless converted) and out= modelled faithfully",
    "C06": "undecided without a bounded catch at first (needs an empty cluster over two iterations): bounded stand-in gained coinciding initial centres and "
           "one-dimensional series with repeated values; the proof stays undecided (new None-initialised loop variable in a cut loop)",
    "C10": "missed at first (float32 features, exact ties): bounded stand-in gained single-precision cases with tolerances scaled to the precision; out of reach "
           "of the proof (floats are reals)",
    "C12": "bounded stand-in (refit of the same estimator added) catches it; the proof refuses the lru_cache decorator (undecided)",
    "C16": "missed at first: alter_pipeline_for_debugging contract and bounded stand-in call the wrapped method a second time on the same array refilled in place",
    "C18": "missed at first: loop invariant over the trace of external calls (each coefficient fitted on a fresh clone); bounded: a learner that keeps state between fits",
    "C19": "missed at first by C19 (caught by the new C02 frame contract of CategoriesToIntegers.fit): C19's fit contract says the constructor parameters are left "
           "alone; bounded: refit on a frame with other categorical columns",
    "C20": "seed rebased onto the tree with the two dtype repairs; as_strided is not modelled (undecided), the bounded stand-in (series that are columns of a table "
           "/ every other observation) catches it",
    "C17": "undecided + bounded at first (numpy.empty_like not modelled): *_like constructors modelled, the integer-batch variant of predict_all fails inv-step",
}
base = subprocess.run(["git", "-C", "/repo", "rev-parse", "--short", "HEAD"], capture_output=True, text=True).stdout.strip()
for d in sorted(os.listdir(os.path.join(HERE, "seeded"))):
    m = re.match(r"(C\d\d)-agent4$", d)
    if not m:
        continue
    pid = m.group(1)
    p = os.path.join(HERE, "seeded", d)

    def parse(fn):
        if not os.path.exists(os.path.join(p, fn)):
            return None
        t = open(os.path.join(p, fn)).read()
        ex = re.findall(r"check exit=(\d+)", t)
        return dict(check_exit=int(ex[-1]) if ex else None, failed=re.findall(r"failed: (\S+)", t), undecided=[l[:200] for l in t.splitlines() if l.startswith("UNDECIDED")])
    first, last = parse("check_output_first.txt"), parse("check_output.txt")
    meta = dict(property=pid, origin="independent sub-agent (round 4: one hard-to-notice change per property) given only the property text and a scratch worktree",
                confirmed_by="tools/confirm_seed4.sh %s: pinned suite 46 passed with the change in the scratch worktree, demo.py exits 0 on /repo and 1 on the worktree" % pid,
                base_commit="f1fa2d2" if pid != "C20" else base, check_exit=last["check_exit"], caught_by=last["failed"])
    if last["undecided"]:
        meta["undecided"] = last["undecided"]
    if first is not None:
        meta["first_run"] = dict(check_exit=first["check_exit"], caught_by=first["failed"], undecided=first["undecided"])
    meta["history"] = HISTORY.get(pid, "caught on the first run")
    json.dump(meta, open(os.path.join(p, "meta.json"), "w"), indent=1)
    print(d, meta["check_exit"], len(meta["caught_by"]), "proof" if any(not f.startswith("bounded:") for f in meta["caught_by"]) else "bounded-only")
