#!/usr/bin/env python3
"""writes seeded/<id>-agent5/meta.json from the stored check outputs (first run and run after strengthening)"""
import json, os, re, subprocess
HERE = os.path.dirname(os.path.dirname(os.path.abspath(__file__)))
HISTORY = {
    "C03": "first run: bounded stand-in only (fit with an integer random_state under two states of the global generator).  Added: _kmeans_single_lloyd is "
           "verified under C03 for one clause - its only random draw, the initial centres, uses the generator built from the caller's random_state "
           "(trace of check_random_state / _init_centroids); the steps it calls keep the contracts proved under C06",
    "C05": "the contract of _epsilon had gained an integer-target variant (and the bounded stand-in integer targets) after the agent's report was read and "
           "before this confirmation run: no earlier run exists; caught by post.multiplier_side",
    "C07": "first run: bounded stand-in only, by the 'gain' soak cases (n mod k <= 1, max_iter 1..3) added after the agent's report was read - the harness of "
           "the previous commit had no such case and would most likely have missed it (the agent measured 0.2 % of fits with default max_iter).  Then "
           "_constraint_association_gain was brought under contract (transfer lists abstracted as sets, counters-count-the-labels invariant through moves "
           "and swaps): the change fails #3.inv-step.counters_count_the_labels (44 instances), and the native cross-check of that invariant fails too",
    "C11": "ExtendedFeatures.fit variants that start from stale fitted attributes were added after the agent's report was read, before this run",
    "C13": "TransformedTargetClassifier2.fit / _apply contracts with an opaque reciprocal transformer were added after the agent's report was read, before this run",
    "C14": "first run: the proof was undecided under the change (str.lower on a symbolic string was refused) and the bounded stand-in caught it (upper-case "
           "stop-word corpus added after the agent's report was read).  Case mappings of a symbolic string are now an uninterpreted function (nothing "
           "assumed about them): the change fails post.space_joined_tuple_is_scikit_learns_ngram_in_the_same_position",
    "C15": "SkBaseTransform.fit_transform contract added after the agent's report was read, before this run",
    "C12": "caught by the unbounded tree_node_parents contract; tree_node_range exceeds the generation budget under the change (undecided, reported as such)",
}
base = subprocess.run(["git", "-C", "/repo", "rev-parse", "--short", "HEAD"], capture_output=True, text=True).stdout.strip()
for d in sorted(os.listdir(os.path.join(HERE, "seeded"))):
    m = re.match(r"(C\d\d)-agent5$", d)
    if not m:
        continue
    pid = m.group(1)
    p = os.path.join(HERE, "seeded", d)

    def parse(fn):
        if not os.path.exists(os.path.join(p, fn)):
            return None
        t = open(os.path.join(p, fn)).read()
        ex = re.findall(r"check exit=(\d+)", t)
        return dict(check_exit=int(ex[-1]) if ex else None, failed=re.findall(r"failed: (\S+)", t), undecided=[l[:200] for l in t.splitlines() if l.startswith("UNDECIDED")])
    first, last = parse("check_output_first.txt"), parse("check_output.txt")
    meta = dict(property=pid, origin="independent sub-agent (round 5: one change per property in a function the agent had to survey the call graph for) given only the property text and a scratch worktree",
                confirmed_by="tools/confirm_seed5.sh %s: pinned suite 46 passed with the change in the scratch worktree, demo.py exits 0 on /repo and 1 on the worktree" % pid,
                base_commit=base, check_exit=last["check_exit"], caught_by=last["failed"])
    if last["undecided"]:
        meta["undecided"] = last["undecided"]
    if first is not None:
        meta["first_run"] = dict(check_exit=first["check_exit"], caught_by=first["failed"], undecided=first["undecided"])
    meta["history"] = HISTORY.get(pid, "caught on the first run")
    json.dump(meta, open(os.path.join(p, "meta.json"), "w"), indent=1)
    print(d, meta["check_exit"], len(meta["caught_by"]), "proof" if any(not f.startswith("bounded:") for f in meta["caught_by"]) else "bounded-only")
