#!/bin/bash
# tools/verify_seed.sh <name> <dir with patch.diff demo.py> [--cython]
# confirms in a scratch worktree: patch applies, pinned suite passes with it, demo passes on /repo HEAD and fails with the patch
set -u
name=$1; src=$2; cy=${3:-}
wt=/tmp/wt/verify_$name
git -C /repo worktree remove --force $wt 2>/dev/null
git -C /repo worktree add -q --detach $wt HEAD || exit 9
cd $wt
git apply $src/patch.diff || { echo "PATCH DOES NOT APPLY"; git -C /repo worktree remove --force $wt; exit 8; }
if [ "$cy" = "--cython" ]; then
  for d in $wt; do (cd $d && /venv/bin/python - >/dev/null 2>&1 <<'PY'
import numpy, os
from setuptools import setup, Extension
from Cython.Build import cythonize
exts=[Extension(os.path.join(r,f)[:-4].replace(os.sep,"."), [os.path.join(r,f)], include_dirs=[numpy.get_include()], language="c++") for r,_,fs in os.walk("mlinsights") for f in fs if f.endswith(".pyx")]
setup(name="x", ext_modules=cythonize(exts, language_level=3, quiet=True), script_args=["build_ext","--inplace","-j","8"])
PY
  ); done
  orig=/tmp/wt/verify_${name}_orig
  git -C /repo worktree remove --force $orig 2>/dev/null
  git -C /repo worktree add -q --detach $orig HEAD
  (cd $orig && /venv/bin/python - >/dev/null 2>&1 <<'PY'
import numpy, os
from setuptools import setup, Extension
from Cython.Build import cythonize
exts=[Extension(os.path.join(r,f)[:-4].replace(os.sep,"."), [os.path.join(r,f)], include_dirs=[numpy.get_include()], language="c++") for r,_,fs in os.walk("mlinsights") for f in fs if f.endswith(".pyx")]
setup(name="x", ext_modules=cythonize(exts, language_level=3, quiet=True), script_args=["build_ext","--inplace","-j","8"])
PY
  )
else
  orig=/repo
fi
t=$(/venv/bin/python -m pytest -q -p no:cacheprovider --timeout=900 _unittests/ut_helpers _unittests/ut_metrics _unittests/ut_plotting/test_dot.py _unittests/ut_plotting/test_str.py _unittests/ut_sklapi 2>&1 | tail -1)
echo "pinned suite with patch: $t"
/venv/bin/python $src/demo.py $orig >/tmp/wt/demo_orig_$name.log 2>&1; r0=$?
/venv/bin/python $src/demo.py $wt >/tmp/wt/demo_mut_$name.log 2>&1; r1=$?
echo "demo on original: exit $r0 ; demo with patch: exit $r1 ; $(tail -1 /tmp/wt/demo_mut_$name.log | cut -c1-300)"
git -C /repo worktree remove --force $wt
[ "$cy" = "--cython" ] && git -C /repo worktree remove --force $orig
case "$t" in *"46 passed"*) ;; *) echo "SUITE NOT 46 PASSED"; exit 7;; esac
[ $r0 -eq 0 ] && [ $r1 -ne 0 ] && echo "SEED CONFIRMED $name" || { echo "SEED NOT CONFIRMED"; exit 6; }
