#!/usr/bin/env python3
"""writes seeded/<id>-agent7/meta.json from the stored check outputs (first run and run after strengthening)"""
import json, os, re, subprocess
HERE = os.path.dirname(os.path.dirname(os.path.abspath(__file__)))
HISTORY = {
    "C02": "first run: bounded stand-in only (input-mutated).  The proof had a hole: the write happens in the FIRST iteration of a loop through a loop-carried "
           "variable that starts as the caller's sample_weight; the path of the peeled first iteration ended at the cut without any frame obligation and the "
           "arbitrary iteration had forgotten the alias.  Contracts can now state facts that cannot be undone (at_cut: the caller's arrays have not been "
           "written) where a path ends at a loop cut: exit.caller_sample_weight_not_written fails (sat)",
    "C04": "first run: bounded stand-in only (permutation of the batch).  transform_bins was an assumed summary under C04 (proved under C08): it is now verified "
           "under C04 as well: post.the_id_is_the_bucket_of_the_row_or_minus_one_if_unseen fails (sat)",
    "C10": "first run: MISSED (exit 0): a node with fewer rows than min_samples_split is created but its classifier is never fitted.  The contract of the node's "
           "fit only spoke about the numbering of the tree; it now also says that the node's classifier is fitted, once, on the rows, labels and weights of "
           "the node whatever stops the growth there; bounded: non-default min_samples_split",
}
base = subprocess.run(["git", "-C", "/repo", "rev-parse", "--short", "HEAD"], capture_output=True, text=True).stdout.strip()
for d in sorted(os.listdir(os.path.join(HERE, "seeded"))):
    m = re.match(r"(C\d\d)-agent7$", d)
    if not m:
        continue
    pid = m.group(1)
    p = os.path.join(HERE, "seeded", d)

    def parse(fn):
        if not os.path.exists(os.path.join(p, fn)):
            return None
        t = open(os.path.join(p, fn)).read()
        ex = re.findall(r"check exit=(\d+)", t)
        return dict(check_exit=int(ex[-1]) if ex else None, failed=re.findall(r"failed: (\S+)", t), undecided=[l[:200] for l in t.splitlines() if l.startswith("UNDECIDED")])
    first, last = parse("check_output_first.txt"), parse("check_output.txt")
    meta = dict(property=pid, origin="independent sub-agent (round 7: a change off the default path - a branch for a non-default option or a less common input kind, or an option not passed on) given only the property text and a scratch worktree",
                confirmed_by="tools/confirm_seed7.sh %s: pinned suite 46 passed with the change in the scratch worktree, demo.py exits 0 on /repo and 1 on the worktree" % pid,
                base_commit=base, check_exit=last["check_exit"], caught_by=last["failed"])
    if last["undecided"]:
        meta["undecided"] = last["undecided"]
    if first is not None:
        meta["first_run"] = dict(check_exit=first["check_exit"], caught_by=first["failed"], undecided=first["undecided"])
    meta["history"] = HISTORY.get(pid, "caught on the first run")
    json.dump(meta, open(os.path.join(p, "meta.json"), "w"), indent=1)
    print(d, meta["check_exit"], len(meta["caught_by"]), "proof" if any(not f.startswith("bounded:") for f in meta["caught_by"]) else "bounded-only")
