#!/bin/bash
# tools/confirm_seed4.sh <id> : like confirm_seed3.sh for the round-6 worktrees /tmp/seed11/<id>; stores seeded/<id>-agent11/
tag=$1; id=$tag; wt=/tmp/seed11/$tag; out=/verif/seeded/$id-agent11
[ -s $wt/_seed/patch.diff ] || { echo "no patch for $tag"; exit 9; }
cd $wt
t=$(/venv/bin/python -m pytest -q -p no:cacheprovider --timeout=900 _unittests/ut_helpers _unittests/ut_metrics _unittests/ut_plotting/test_dot.py _unittests/ut_plotting/test_str.py _unittests/ut_sklapi 2>&1 | tail -1)
/venv/bin/python _seed/demo.py /repo > /tmp/seed11/demo_orig_$tag.log 2>&1; r0=$?
/venv/bin/python _seed/demo.py $wt > /tmp/seed11/demo_mut_$tag.log 2>&1; r1=$?
echo "$tag suite: $t ; demo /repo exit $r0 ; demo worktree exit $r1"
case "$t" in *"46 passed"*) ;; *) echo "SUITE NOT 46 PASSED"; exit 7;; esac
[ $r0 -eq 0 ] && [ $r1 -ne 0 ] || { echo "SEED NOT CONFIRMED"; exit 6; }
cd /verif
res=$(tools/try_seed_wt.sh $id $wt 2>&1)
echo "$res" | grep "^property\|VIOLATION\|UNDECIDED\|BROKEN\|failed:\|check exit" | cut -c1-230
mkdir -p $out
cp $wt/_seed/patch.diff $wt/_seed/demo.py $wt/_seed/notes.md $out/ 2>/dev/null
echo "$res" | grep "VIOLATION\|UNDECIDED\|failed:\|check exit" > $out/check_output.txt
