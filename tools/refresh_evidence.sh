#!/bin/bash
# re-runs every claimed check on the unchanged tree (quick tier) so that the committed evidence files are the ones
# written against /repo itself; prints one line per property
cd /verif
git -C /repo diff --quiet || { echo "/repo is dirty"; exit 9; }
rc=0
for id in $(python3 -c "import json;print(' '.join(c['property_id'] for c in json.load(open('MANIFEST.json'))['checks']))"); do
  out=$(./check $id --tier quick 2>&1); r=$?
  echo "$id exit=$r $(echo "$out" | grep '^property' | cut -c1-160)"
  [ $r -ne 0 ] && { rc=1; echo "$out" | grep -v '^property\|KNOWN-FINDING' | head -5; }
done
python3-vt - <<'PY'
import json,jsonschema,glob
sch=json.load(open('/root/.vp/EVIDENCE.schema.json'))
for f in sorted(glob.glob('/verif/evidence/*.json')):
    e=json.load(open(f)); jsonschema.validate(e,sch)
    c=e['coverage']
    assert c['obligations']==c['discharged'], (f,c['obligations'],c['discharged'])
print("evidence files valid, discharged == obligations everywhere")
PY
exit $rc
