#!/bin/bash
# tools/try_seed.sh <property> <patch.diff> [tier] : apply a seeded change to /repo, run the check, undo it
# (the evidence file of the property is restored afterwards: evidence committed must come from the unchanged tree)
prop=$1; patch=$2; tier=${3:-quick}
cd /verif
git -C /repo diff --quiet || { echo "/repo is dirty"; exit 9; }
cp evidence/$prop.json /tmp/evidence_$prop.json.keep 2>/dev/null
git -C /repo apply $(realpath $patch) || exit 8
./check $prop --tier $tier; rc=$?
git -C /repo checkout -- .
[ -f /tmp/evidence_$prop.json.keep ] && mv /tmp/evidence_$prop.json.keep evidence/$prop.json
echo "check exit=$rc"
exit $rc
