#!/bin/bash
# tools/try_seed.sh <property> <patch.diff> [tier] : apply a seeded change to /repo, run the check, undo it
prop=$1; patch=$2; tier=${3:-quick}
cd /verif
git -C /repo diff --quiet || { echo "/repo is dirty"; exit 9; }
git -C /repo apply $(realpath $patch) || exit 8
./check $prop --tier $tier; rc=$?
git -C /repo checkout -- .
echo "check exit=$rc"
exit $rc
