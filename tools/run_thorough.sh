#!/bin/bash
# runs every thorough command once on the unchanged tree (evidence files of the quick tier are restored afterwards); one line per property
cd /verif
for id in $(python3 -c "import json;print(' '.join(c['property_id'] for c in json.load(open('MANIFEST.json'))['checks']))"); do
  cp evidence/$id.json /tmp/ev_keep_$id.json
  s=$(date +%s)
  out=$(nice -n 5 ./check $id --tier thorough 2>&1); r=$?
  e=$(date +%s)
  echo "$id thorough exit=$r $((e-s))s $(echo "$out" | grep '^property' | cut -c1-150)"
  [ $r -ne 0 ] && echo "$out" | grep -v '^property\|KNOWN-FINDING' | head -5
  cp /tmp/ev_keep_$id.json evidence/$id.json
done
