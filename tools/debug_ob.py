"""debug helper: python3-vt tools/debug_ob.py Cxx <function-substring> [<id-substring>] [--timeout N] [--dump DIR]
verifies one contract of a property and dumps the queries of the obligations that are not discharged"""
import os, sys, time
sys.path.insert(0, os.path.dirname(os.path.dirname(os.path.abspath(__file__))))
from pyvc.run import load_contracts
from pyvc.api import verify_function
from pyvc.frontend import Repo
from pyvc.solve import discharge, to_smt2

prop, fsub = sys.argv[1], sys.argv[2]
isub = sys.argv[3] if len(sys.argv) > 3 and not sys.argv[3].startswith("--") else ""
tmo = int(sys.argv[sys.argv.index("--timeout") + 1]) if "--timeout" in sys.argv else 10
dump = sys.argv[sys.argv.index("--dump") + 1] if "--dump" in sys.argv else "/tmp/pyvc_dbg"
root = sys.argv[sys.argv.index("--repo") + 1] if "--repo" in sys.argv else "/repo"
os.makedirs(dump, exist_ok=True)
repo = Repo(root)
table = load_contracts(prop)
for key, c in table.items():
    if fsub not in key or c.assumed:
        continue
    t0 = time.time()
    rep = verify_function(repo, table, c)
    print(key, "paths", rep.paths, "unsupported:", rep.unsupported, "gen %.1fs" % (time.time() - t0))
    obs = [ob for ob in rep.obligations if isub in ob.oid and not ob.canary]
    t0 = time.time()
    res = discharge(obs, timeout=tmo)
    print("solver wall %.1fs for %d obligations" % (time.time() - t0, len(obs)))
    bad = 0
    for k, (ob, r) in enumerate(zip(obs, res)):
        if r["status"] != "unsat":
            bad += 1
            fn = os.path.join(dump, "%s_%d.smt2" % (ob.oid.replace("/", "_"), k))
            open(fn, "w").write(to_smt2(ob))
            print("NOT DISCHARGED", ob.oid, r["status"], r["log"], "path", ob.path, "->", fn)
    print("not discharged:", bad)
