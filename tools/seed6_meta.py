#!/usr/bin/env python3
"""writes seeded/<id>-agent6/meta.json from the stored check outputs (first run and run after strengthening)"""
import json, os, re, subprocess
HERE = os.path.dirname(os.path.dirname(os.path.abspath(__file__)))
HISTORY = {
    "C01": "first run: MISSED (exit 0).  SkBaseTransformStacking.set_params is now also verified for the whole get_params(deep=True) of another instance "
           "with more, fewer or as many members given at once (no-raise.IndexError fails, sat); bounded: the same round trips between instances of 2 and 3 members",
    "C03": "first run: MISSED (exit 0): a memo table added to a query method survives a refit.  The refit contracts now derive the caches from the class "
           "source on every run (every attribute a method other than __init__ / fit / set_params assigns) instead of a hand-written list: "
           "exit.cache_knn_cache__does_not_survive_refit fails; bounded: the same unseen values asked before and after a refit on a superset of the labels",
    "C05": "first run: MISSED (exit 0): targets cast to the dtype of the features.  QuantileLinearRegression.fit is now also verified for features stored as "
           "integers and its invariant is stated over the CALLER's targets (as given at entry), not the local variable: "
           "#0.inv-step.next_weights_are_irls_weights_of_the_callers_targets_times_sample_weight fails; bounded: integer features give the same fit as the same numbers as floats",
    "C07": "caught on the first run by the 'distance' proof (post.every_cluster_has_floor_or_ceil_of_n_over_k_points).  The agent had been told of the two "
           "known findings of the unchanged library ('gain' with n mod k >= 2, the assertion of the 'gain' association) so that its demonstration stays away from them",
    "C06": "proof undecided (the function lost a loop: loop-structure guard), caught by the bounded stand-in (L1 centre outside the range of the data)",
    "C08": "first run: UNDECIDED without a bounded catch (exit 2): transform_bins lost its loop, and every discretizer cell of the bounded data was populated at "
           "training time.  Bounded: training rows near the diagonal only, so that most cells are empty at training time and share a bin with a training cell",
    "C09": "first run: UNDECIDED without a bounded catch (exit 2): init_with_X lost a loop; the bounded stand-in built a new criterion object per node range.  "
           "Bounded: ONE criterion object re-initialised for every range (as the tree builder does) and the boundary pos == start checked (improvement 0 "
           "for an empty left child)",
    "C12": "proof undecided (new while loop without invariant), caught by the bounded stand-in (trees grown with max_leaf_nodes)",
    "C19": "proof undecided (Series.map not modelled), caught by the bounded stand-in (frames whose index is not 0..n-1)",
}
base = subprocess.run(["git", "-C", "/repo", "rev-parse", "--short", "HEAD"], capture_output=True, text=True).stdout.strip()
for d in sorted(os.listdir(os.path.join(HERE, "seeded"))):
    m = re.match(r"(C\d\d)-agent6$", d)
    if not m:
        continue
    pid = m.group(1)
    p = os.path.join(HERE, "seeded", d)

    def parse(fn):
        if not os.path.exists(os.path.join(p, fn)):
            return None
        t = open(os.path.join(p, fn)).read()
        ex = re.findall(r"check exit=(\d+)", t)
        return dict(check_exit=int(ex[-1]) if ex else None, failed=re.findall(r"failed: (\S+)", t), undecided=[l[:200] for l in t.splitlines() if l.startswith("UNDECIDED")])
    first, last = parse("check_output_first.txt"), parse("check_output.txt")
    meta = dict(property=pid, origin="independent sub-agent (round 6: a change written as a plausible IMPROVEMENT - refactoring, shortcut, cache, vectorisation, coercion - wrong on a special class of inputs) given only the property text and a scratch worktree",
                confirmed_by="tools/confirm_seed6.sh %s: pinned suite 46 passed with the change in the scratch worktree, demo.py exits 0 on /repo and 1 on the worktree" % pid,
                base_commit=base, check_exit=last["check_exit"], caught_by=last["failed"])
    if last["undecided"]:
        meta["undecided"] = last["undecided"]
    if first is not None:
        meta["first_run"] = dict(check_exit=first["check_exit"], caught_by=first["failed"], undecided=first["undecided"])
    meta["history"] = HISTORY.get(pid, "caught on the first run")
    json.dump(meta, open(os.path.join(p, "meta.json"), "w"), indent=1)
    print(d, meta["check_exit"], len(meta["caught_by"]), "proof" if any(not f.startswith("bounded:") for f in meta["caught_by"]) else "bounded-only")
