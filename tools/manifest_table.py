# table of claimed properties (exec'd by gen_manifest.py)
claim("C20",
      text="Proof (for all n, past, delay2, with/without X and weights, both same_rows values; delay1=1, use_all_past=False): every clause of the "
           "property is a postcondition of build_ts_X_y / ts_mape discharged from the real source with loop invariants; all obligations must discharge, "
           "canaries must fail. Bounded stand-in on the real code for all n<=8 (14 thorough).",
      note="Assumes A1 (floats are reals), A2, A6, A7 (numpy slicing/full/empty/abs/sum as modelled; ghost Sum lemma instances), A9. "
           "same_rows weight padding and use_all_past=True are not asserted (see evidence not_applicable_clauses).",
      technique="deductive verification: VCs from the real AST + loop invariants, z3")
claim("C17",
      text="Proof for all n>=1, alpha>0, n_estimators>=0, weights: the resampling closure draws round(alpha*n) indices from exactly [0,n) "
           "(randint contract), the same index vector selects X, y and weights, one fit per cloned estimator, fit returns self; predict_all column i "
           "is model i's prediction (also for integer / float32 query batches); predict_sorted rows are non-decreasing permutations of those predictions "
           "(loop invariants); predict[r] is the row sum of the individual predictions divided by their number and lies between any bounds of them, "
           "hence min <= predict <= max (ghost row sum, lemma row_mean_bounds proved in lemmas/Counting.lean). Bounded stand-in with a recording regressor.",
      note="Assumes numpy.random.randint is uniform on [low,high) and raises when high<=low, the estimator protocol (fit returns the receiver, predict is a "
           "function of fitted state and row), numpy.sort = sorted permutation, numpy mean(axis=1) = row sum / number of columns, clone = fresh unfitted copy, "
           "A8 for joblib.",
      technique="deductive verification: contracts on the resampling closure, fit, predict_all, predict, predict_sorted; Lean-checked lemma schema; z3")
claim("C05",
      text="Proof for all q in (0,1), data, weights: _epsilon (residual, per-sign multiplier), score = twice the (weighted) mean pinball loss of the model's own "
           "quantile / mean_absolute_error at q=0.5 (ghost Sum congruence), compute_z = IRLS weight (1-mult)/max(|res|,delta) with the asymmetric weight on the "
           "prescribed side, loop invariant of fit: every re-weighting is IRLS weight x sample_weight, n_iter_ < max_iter, intercept/positive data flow, "
           "hyper-parameters unchanged, fit returns self. Bounded: exact score comparison, weights vs repeated rows at q=0.5.",
      note="A1 (reals; nonlinear arithmetic decided by z3), assumed LinearRegression contract (coef_ has one entry per column, positive=True gives non-negative "
           "coefficients), Sum lemma instances. Optimality / 'fraction q below' are not claimed (not applicable).",
      technique="deductive verification: postconditions + loop invariant from the real AST, z3 (nlsat for q*e)")
claim("C13",
      text="Proof: every entry of the predefined table is paired with a table entry that undoes it on its domain (exp/log axioms, for all y); "
           "FunctionReciprocalTransformer fit/get_fct_inv/transform per name (features untouched, None stays None); TransformedTargetRegressor2 trains a clone "
           "on (X, f(y)) and predicts the inverse function of the inner prediction; permutations: for EVERY permutation of 2 and 3 labels with arbitrary label "
           "values: get_fct_inv is the inverse map, labels are replaced by their image, probability columns move to the rank of their label, classes_[j] is the "
           "label of column j; fit yields a bijection for every target vector of length<=3. Bounded: larger label sets, NaN, agreement with the plain classifier.",
      note="Permutation clauses are bounded in the number of labels (2,3) and complete in the label values; exp/log are uninterpreted with their inverse axioms; "
           "estimator protocol and numpy permutation are assumed contracts; closest=True path not verified.",
      technique="deductive verification: symbolic execution of the real table/lambdas and transformers against contracts, z3")
claim("C01",
      text="Proof over generic keys (parameter NAMES are arbitrary symbolic strings decided by the string solver): SkBase / SkBaseTransformLearner / "
           "SkBaseTransformStacking (12 members: every one- and two-digit index) / ClassifierAfterKMeans: get_params is exactly own+nested keys; set_params returns "
           "self, reports every given key, leaves every other advertised key unchanged, rebinds the bound method; set_params(**other.get_params(True)) makes both "
           "report the same parameters; every exported BaseEstimator-derived constructor stores each parameter as an attribute, keeps given objects and is stable "
           "under klass(**get_params()) (scikit-learn's clone check). Bounded: clone / round trip (incl. outputs) / one key at a time on 27 configured classes.",
      note="Bounded in the number of keys per call (1-2 per family, 12 stacked members), unbounded in names/indices. Wrapped estimators obey the sklearn "
           "get_params/set_params protocol (assumed). QuantileMLPRegressor constructor (super(Class, self) form) is covered by the bounded stand-in only.",
      technique="deductive verification: symbolic execution with generic string keys against contracts, z3 string theory")
claim("C02",
      text="Proof: the real fit of ConstraintKMeans, PiecewiseTreeRegressor, IntervalRegressor, QuantileLinearRegression, ClassifierAfterKMeans, "
           "TransferTransformer, KMeansL1L2 (+ _fit_l1), TransformedTargetRegressor2, DecisionTreeLogisticRegression, PiecewiseRegressor / "
           "PiecewiseClassifier is executed with one exceptional path per call into a dependency / inner estimator; on "
           "EVERY exit (normal or exceptional) each hyper-parameter attribute is the same object/term as before, parameter objects received no set_params, "
           "no in-place write reached the caller's X, y, sample_weight; fit returns self; given estimators are cloned, never fitted, where the class promises "
           "it. Bounded: get_params and byte snapshots around successful and failing fits (NaN, one row, inner estimator failing on k-th fit) on 19 configurations.",
      note="KMeansL1L2._fit_l1 (the real loop over the n_init runs, string and array initialisation) is under the same frame contract; in-repo steps "
           "constraint_kmeans, _fit_reglin, _kmeans_single_lloyd, clone_with_fitted_parameters are opaque (assumed not to touch hyper-parameters; may raise). "
           "Copies made inside scikit-learn are assumed. Remaining estimators only through the bounded stand-in.",
      technique="deductive verification: frame conditions on every exit path incl. exceptional ones (fault-forking symbolic execution), z3")
claim("C03",
      text="Proof (non-interference as a frame condition): fit is executed on an instance whose fitted attributes and private caches hold stale values of an "
           "earlier fit; on every normal exit no stale value survives in a fitted attribute or cache (PermutationReciprocalTransformer's neighbour cache "
           "included), no unseeded RandomState() is drawn from, an integer random_state never uses the global generator where documented. "
           "Bounded: fit(A);fit(B) vs fresh fit(B), two fits under one global seed, integer random_state under two global seeds on 18 configurations; "
           "PiecewiseClassifier with buckets missing a class for random_state in {None,0,1,7}.",
      note="Same assumed contracts as C02; KMeansL1L2._fit_l1 is executed (every fitted attribute overwritten, the seeds of the runs drawn from the "
           "generator built from random_state); DecisionTreeLogisticRegression.fit and PiecewiseRegressor / PiecewiseClassifier.fit are under the refit "
           "contract too (every fitted attribute overwritten, per-bucket generators seeded from random_state). In-repo steps _mapping_train, _fit_piecewise_estimator, the recursive node fit are opaque here "
           "(functional contracts under C08 / C10).",
      technique="deductive verification: stale-state frame conditions + RNG provenance tags on the symbolic trace, z3")
claim("C15",
      text="Proof: SkBaseTransformLearner binds the wrapped model's own method (or the callable), refuses unknown names; transform makes exactly one call of that "
           "method on X and returns its values as a 2-D array; fit is exactly one model.fit(X, y, **kwargs) and returns self; SkBaseTransformStacking wraps "
           "learners with the requested method, keeps transformers, transform is the ordered column concatenation (1-3 members), fit fits each member once; "
           "TransferTransformer.transform is the fitted copy's chosen method; fit: a distinct fitted copy under copy_estimator, no fit reaches any estimator "
           "unless trainable, the original is never fitted under copy_estimator, trainable fits the copy with the arguments its fit accepts (every exit path). "
           "Bounded: 6 real models x methods x options, exact comparison with direct use.",
      note="Estimator protocol and clone_with_fitted_parameters are assumed contracts. Known finding: copy_estimator=True rejects models whose fitted state has "
           "no value equality (trees, KNN) in assert_estimator_equal.",
      technique="deductive verification: Trace clauses on the symbolic call trace + row-wise output postconditions, z3")
claim("C18",
      text="Proof: r2_score_comparable makes exactly one r2_score call on (tr(y), inv_tr(p)) with weights/multioutput passed on and returns its value, 'log'/'exp' "
           "are the NumPy functions, refusals (both missing: ValueError, non-callable: TypeError) - all 24 (tr, inv_tr) kind pairs; non_linear_correlations "
           "(array branch, any n>=2, any number of columns incl. one, any draws>=1): three nested loop invariants give square matrices, every entry in [0,1], "
           "0<=min<=max<=1 and count*min<=sum<=count*max hence min<=mean<=max, input never written, the given model never fitted. "
           "Bounded: DataFrame branch, DataFrame vs array under one seed (incl. integer tables), labels kept.",
      note="Assumed: scale returns a new array, train_test_split returns two non-empty new arrays (n>=2), var>=0, sqrt maps [0,1] to [0,1], corrcoef returns a "
           "scalar for one variable. Unit diagonal is not applicable (depends on the learner). DataFrame branch is bounded only.",
      technique="deductive verification: nested loop invariants (nonlinear count*min<=sum<=count*max), Trace clauses, z3")
claim("C12",
      text="Proof for ALL strictly monotone bins (any length>=1, increasing or decreasing) and ALL real x: the recursive closure add_nodes is verified "
           "against a recursive contract (ghost leafid/final values, decreases clause, every Tree._add_node slot filled once), digitize2tree's prediction equals "
           "numpy.digitize(x, bins, right=True); the descending case by the value-rewriting loop invariant; right=False refused; tree_leave_index lists exactly "
           "the leaves in increasing order (loop invariant with a ghost membership predicate); tree_node_range (with tree_node_parents and "
           "tree_find_path_to_root executed): predict_leaves(model, X)[r] is the leaf the tree routes row r to (any number of nodes and rows); for 5 tree shapes (up to 7 nodes, depth 3) x every leaf and ANY numbering of the nodes (best-first or "
           "depth-first storage), ANY split features, thresholds and point, a point is in the returned box iff the tree routes it to the leaf. Bounded "
           "(compiled code): all monotone bins of length<=4 over a float32-exact grid, fitted trees (depth-first and best-first): predict_leaves=apply, "
           "tree_node_range = box of routed points.",
      note="Over the reals (A1): the float32 cast inside scikit-learn is a recorded known finding. Assumed contract of Tree._add_node/predict. "
           "tree_node_range is bounded in the shape of the tree (not in its numbering); predict_leaves is proved for any tree and batch given "
           "scikit-learn's decision_path / apply consistency (assumed, exercised by the bounded stand-in).",
      technique="deductive verification: recursive contract + loop invariants over ghost tree semantics, z3")
claim("C11",
      text="Per configuration, complete in the input: for each of 128 configurations (n_features<=4, degree<=4, interaction_only, include_bias, kind poly / "
           "poly-slow) the real fit / get_feature_names_out / transform (_transform_iall, _transform_ionly, _transform_poly_slow) are executed with loops unrolled "
           "exactly and every output column is proved equal to its itertools monomial for ALL real matrices with any number of rows; n_output_features_ and the "
           "names denote those monomials in scikit-learn's order; input never written. Bounded: larger configurations (up to 8 columns, degree 6, 12 columns at "
           "degree 2) against PolynomialFeatures itself.",
      note="The configuration space is bounded (that is the bound); no claim for all (n, degree). numpy.multiply(out=) broadcast and itertools order are "
           "assumed. Names are compared as monomials (factor order inside a name is not part of the property: 'x10 x2' for n>=11).",
      technique="deductive verification per configuration: exact unrolling + z3 polynomial identities over symbolic inputs",
      category="other")
claim("C19",
      text="Proof, bounded in the frame shape and complete in the values (category names and cell contents are arbitrary symbolic strings; every cell may "
           "be missing / known / unseen): fit collects exactly the sorted distinct present values per column; _build_schema lays out contiguous disjoint blocks "
           "named column=value (also with removed modalities); transform (single=False) sets exactly the indicator of each present known value and nothing "
           "else in the row, missing gives no indicator, unseen raises ValueError or with skip_errors writes nothing (incl. the unbound/stale position "
           "local), numeric columns and index pass through. Bounded: real pandas frames with 3 categorical columns, remove lists, single=True.",
      note="pandas operations are assumed contracts (pyvc/pdmodel.py). Frame shape bounded (2 categorical columns x 2 categories, 1-3 rows). single=True only "
           "in the bounded stand-in.",
      technique="deductive verification: symbolic strings + dicts with symbolic keys, fork on key equality, z3 string theory")
claim("C08",
      text="Proof, bounded in the number of buckets (1..3) and complete in rows/values: for PiecewiseRegressor.predict, PiecewiseClassifier.predict_proba and "
           "predict every row gets exactly the output of its bucket's local model, or of the global fallback model when its bucket was unseen (boolean-mask "
           "gather/scatter through ghost rank/unrank/count), input never written, no model refitted; _fit_piecewise_estimator (regressor case): one fit of the "
           "given model on exactly the bucket's rows with features, targets and weights selected by the same mask; fit: binner and estimator cloned, one local "
           "model per training bucket trained on its rows, the fallback on the whole set, an integer random_state (0 included) seeds the generator. "
           "Bounded: recording local estimator on 4 data sets x 4 binners (exact training sets, dispatch, unseen discretizer cells), classifier "
           "distributions/labels, n_jobs in {None,1,2,4} incl. repeated fits with borrowed examples.",
      note="transform_bins (tree and discretizer branch) is PROVED: a row's bucket id is mapping_.get(key(row), -1) with key = its tree leaf / "
           "tuple(int32(transform(row))). _mapping_train is PROVED for a tree binner (buckets 0..len-1 without repetition, every training row carries "
           "its leaf's number, leaves_ = all leaves: the well-formedness transform_bins and predict assume); its discretizer branch is bounded only and "
           "fit uses a 1..2-bucket summary of it. "
           "A8: joblib is modelled as a sequential map - real thread interleavings are outside this technique (one schedule-dependence was found by the "
           "bounded stand-in and repaired).",
      technique="deductive verification: mask gather/scatter lemmas (rank/unrank), Trace clauses; z3 5.1 raced with z3 4.8.12")
claim("C10",
      text="Proof (recursive contracts, any tree shape by induction on subtree height, any number of rows): node.predict_proba gives every row the probabilities of "
           "the classifier at which its path ends (ghost P unfolded one level; boolean-mask gather/scatter lemmas); node.predict is 1 iff that probability of "
           "class 1 is >= 0.5; node.decision_path marks in the row's matrix line exactly the node indices on that same path (same test probability > "
           "threshold) and writes nothing else (ghost inverse of the injective row-index vector, derived for masked sub-vectors from the mask's rank); "
           "node.fit (real recursion through the closure _fit_side, decreases max_depth - depth): the subtree is well numbered - indices in [index, "
           "returned value], parents first, all of `above` before all of `below` - with child depth = depth + 1 <= max_depth, and _fit_parallel makes the root "
           "node 0 at depth 1 with n_nodes_ = returned value + 1: by induction all node indices are distinct and below n_nodes_, no node deeper than "
           "max_depth. Bounded: fitted trees for 4 seeds x 4 depths x 3 algorithms: rows sum to one, predict vs classes_, node indices distinct and < n_nodes_, "
           "depth <= max_depth, get_leaves_index, path recomputed from the member classifiers, ties at the threshold (stump members).",
      note="Member classifiers obey the estimator protocol (assumed). fit_improve (intercept search) is an assumed step of fit; get_leaves_index and rows "
           "summing to one are bounded only. The numbering may have gaps (n_nodes_ can exceed the number of nodes) - not a violation of the property.",
      technique="deductive verification: recursive contracts over ghost functions P and onpath, mask lemmas; z3 5.1 raced with z3 4.8.12")
claim("C07",
      text="Proof, for strategy 'distance' (and 'distance_p' of balanced predictions): _constraint_association_distance - the real three nested loops - gives "
           "every point a cluster in [0,k) and every cluster floor(n/k) or floor(n/k)+1 points (postcondition over the ghost counting function cnt: "
           "forall q in [0,k): lim <= cnt(labels,q,n) <= lim+1 with lim*k <= n < (lim+1)*k). Loop invariants: counters[c] = cnt(labels,c,n); a cluster is "
           "open with <= lim points or closed with exactly lim+1; sum(counters) = n - cnt(labels,-1,n); extras left + extras given = leftover; visited points are "
           "assigned (through the ghost inverse of the argsort permutation); the inner loop writes nothing before its break and cannot run out of centres "
           "(pigeonhole); the outer while loop runs at most once. _randomize_index keeps its argument a permutation, _switch_clusters keeps every cluster "
           "size (cnt unchanged by a swap). The property is carried by contracts through the dispatcher _constraint_association, constraint_predictions, "
           "constraint_kmeans (invariant: live and best labels balanced; n_iter <= max_iter; data not written), ConstraintKMeans.fit (labels_ balanced, "
           "max_iter restored, n_iter_ <= max_iter, both kmeans0 settings) and ConstraintKMeans.predict (balanced predictions balanced; otherwise "
           "KMeans.predict). Strategy 'gain' / 'gain_p': _constraint_association_gain - its five real loops, the transfer lists abstracted as sets of listed "
           "points - keeps 'counters[c] = cnt(labels,c,n)', 'sum(counters) = n' and 'a listed point not flagged as moved is still in the cluster it wants to "
           "leave' through every move and every swap, so that on normal return (the function ends by asserting that no counter is below the quota) every "
           "cluster holds at least floor(n/k) and at most floor(n/k) + (n mod k) points: exactly the property when n mod k <= 1; carried through the "
           "dispatcher, constraint_predictions, constraint_kmeans, fit and predict as for 'distance'. linearize_matrix (dense) is proved to give row and "
           "column numbers within the matrix. The lemma schemas of cnt / sumI and the integer-product steps are proved in lemmas/Counting.lean (Lean 4 + "
           "Mathlib, run by the check). Bounded stand-in on the real code: ALL k<=n<=12 (14), k<=5, both strategies, kmeans0 in {T,F}: exact sizes for fit "
           "and balanced predict, label validity, n_iter_, finite centres, nearest-centre predict; 'gain' with n mod k <= 1 and 1..3 iterations on 240 (2400) "
           "random sets; the proved invariant of the 'gain' association observed natively (sys.settrace) at every iteration of its main loop on 40 (400) runs.",
      note="Strategy 'gain' with n mod k >= 2 is a known finding (sizes exceed ceil(n/k); the proof gives the bound floor(n/k) + n mod k), and the final "
           "assertion of the 'gain' association can fire (second known finding, about 1 fit in 300 from unbalanced initial labels): the 'gain' guarantee is "
           "partial correctness - on normal return. The transfer lists are an over-approximating abstraction (set of listed points per key; order and gains not "
           "modelled). numpy.argsort / argmin / min / max / random.permutation / euclidean_distances / KMeans.fit are assumed models; termination "
           "of the association loops is not proved; integers are mathematical.",
      technique="deductive verification (weakest-precondition style VC generation from the real source, loop invariants over ghost counting functions, z3 "
                "4.8.12/5.1) with Lean-checked lemma schemas; bounded enumeration as a labelled stand-in for the end-to-end fit and for strategy 'gain' "
                "outside what is proved")
claim("C04",
      text="Proof: (1) the prediction methods under contract (PiecewiseRegressor.predict, PiecewiseClassifier.predict/predict_proba, the decision-tree-of-"
           "classifiers node methods, SkBaseTransformLearner.transform, TransferTransformer.transform, IntervalRegressor.predict_all) all have a row-wise "
           "postcondition out[r] = G(model, X[r]) - re-verified under this property; (2) a generic lemma over those contracts: a row-wise postcondition "
           "gives any sub-batch, permutation, repetition or single row the same outputs as inside the batch; (3) clone_with_fitted_parameters (estimator / "
           "list / dict, nested estimators): every parameter and fitted or private attribute is deep-copied, nested estimators cloned recursively, argument "
           "untouched. Bounded (compiled code): 18 fitted estimators x {repeat, permutation, sub-batch, single rows incl. unseen buckets, pickle, clone helper}.",
      note="Pickling is not applicable to the proof (bounded only). Row-wise behaviour of scikit-learn estimators themselves is the assumed estimator "
           "protocol. Balanced prediction of ConstraintKMeans is the documented exception.",
      technique="deductive verification: row-wise postconditions + a lemma over contracts, structural recursion of the clone helper; z3")
claim("C14",
      text="Proof: NGramsMixin._word_ngrams is verified against scikit-learn's own _VectorizerMixin._word_ngrams - the same executor runs both sources on the "
           "same symbolic token list / stop-word set / ngram_range: same number of n-grams, each a flat tuple of tokens whose space-join is scikit-learn's "
           "n-gram at the same position; for every token list of length 0..4 and 0..2 stop words with ARBITRARY token strings, 6 ngram ranges. Bounded: "
           "TraceableCountVectorizer / TraceableTfidfVectorizer vs CountVectorizer / TfidfVectorizer on 6 corpora x 12 option sets (matrices, vocabulary_, "
           "transform of new documents).",
      note="Bounded in token count (<=4), stop words (<=2), n (<=3); complete in the strings. The remainder of the vectorizers is scikit-learn code "
           "(assumed to treat tokens as opaque hashables ordered by sorted()).",
      technique="deductive verification against the dependency's own source (relational: two programs, one executor), z3 string theory")
claim("C16",
      text="Proof, bounded in the shape of the pipeline (single estimator, Pipeline, FeatureUnion in a Pipeline, ColumnTransformer with passthrough and a nested "
           "Pipeline; depth <= 3), complete in the nested estimators and data: enumerate_pipeline_models (recursive generator, executed from the real source) "
           "yields exactly the recursive specification enum(p, c) - parents first, each nested model once, distinct coordinates of length depth+1; "
           "alter_pipeline_for_debugging: every replaced method of every leaf returns exactly the saved original's output on the same arguments and records "
           "that input and output; pipeline2str (same shapes x 3 indents): one line per yielded model, indented by indent x depth, naming the class. "
           "Unbounded: the node-name generator of the graph (_pipeline_info._get_name, nested function, real while loop) never returns a name already in "
           "use for ANY set of names in use (membership as a z3 array String -> Bool), adds exactly the new names, records their info, keeps the prefix; "
           "lists of prefixes give pairwise distinct names. Bounded: 8 real pipelines x 3 data schemas: pipeline2str lines, pipeline2dot parsed (declared "
           "endpoints/ports, acyclic, steps and input columns present, outputs reachable, every input port used), wrappers transparent and chaining.",
      note="pipeline2dot / _pipeline_info as a whole are bounded only (dictionary plumbing; only the name generator is under contract). Shape bounded; "
           "estimator protocol assumed; termination of the name search not proved.",
      technique="deductive verification on generic estimators per pipeline shape (generator semantics, closures, MethodType), z3")
claim("C06",
      text="Proof: norm='L2' fit / predict / transform are exactly one KMeans.fit / predict / transform call with the caller's arguments whose result is "
           "kept / returned (identity with scikit-learn by delegation); norm='L1': predict returns an index of a Manhattan-nearest centre for every row, "
           "transform is the matrix of Manhattan distances to all centres, the E-step (_labels_inertia_precompute_dense) labels every point with a "
           "Manhattan-nearest centre, stores those distances and returns their weighted sum as inertia (ghost Sum congruence). Bounded: all sampled "
           "multisets of 3,4,6 points on a 3x3 grid (duplicates, ties, n == k), k<=3, both init modes, float32/64, weights: fit succeeds, labels nearest, "
           "inertia, centres within the data range, predict, transform; L2 equality with KMeans (labels, centres, predict, transform exactly).",
      note="Also proved: KMeansL1L2._fit_l1 (real loop over the runs) keeps labels_/cluster_centers_/inertia_/n_iter_ of ONE run, gives every run the caller's "
           "data, weights, k, max_iter, init and a seed drawn from the generator seeded with random_state, writes no hyper-parameter; "
           "_kmeans_single_lloyd (real loop, break, final E-step): 1 <= n_iter <= max_iter, and whenever the centres still moved in the last iteration "
           "the E-step is run again on the RETURNED centres, so labels are Manhattan-nearest to them - when the last shift is exactly zero the labels rely on "
           "the convergence argument (ghost flag, not proved; bounded). _centers_dense (M-step: three real loops - weights per cluster, relocation of empty "
           "clusters onto data points, medians) returns centres whose every coordinate lies within the range of that coordinate in the data, and that is "
           "carried through the run, _fit_l1 and fit (cluster_centers_). _init_centroids and _tolerance are ASSUMED; numpy.median's bounds are assumed. pairwise_distances_argmin_min / manhattan_distances are assumed contracts. Bounded domain now "
           "includes the same data in units of 1e-9.",
      technique="deductive verification: Trace clauses for delegation, arg-min postconditions over a ghost Manhattan distance; z3")
claim("C09",
      text="Proof of the compiled criteria 'simple' on the Python-subset text extracted mechanically from the .pyx files on every run (pyvc/pyxstrip.py; the "
           "evidence lists everything dropped per file): for SimpleRegressorCriterion AND SimpleRegressorCriterionFast, for every node range [start,end) and "
           "split position, with w[k] = sample_weight[sample_indices[k]] (or 1): node_value = sum w y / sum w; node_impurity and children_impurity = "
           "sum w (y - mean)^2 / sum w around the range's own weighted mean; weighted_n_left/right = the weights of the two sides after update / reset / "
           "reverse_reset; impurity_improvement and its proxy are the stated formulas (NaN at the ends). init_with_X of both classes (3 resp. 1 real loops) "
           "establishes the object invariant (buffers hold w, w y, ids - resp. zero-filled prefix sums of w, w y, w y^2 from start); _mean, _mse, "
           "_update_weights are verified against it (real loops with invariants over the ghost range sum psum; the fast _mse through the weighted "
           "variance identity). Lemma schemas proved in lemmas/Counting.lean (run by the check). Python side: PiecewiseTreeRegressor.predict dispatch, "
           "_predict_reglin (every row is [X[r],1].betas_[leaf(r)]), fit creates the requested criterion, restores the name on every exit, fits the "
           "per-leaf regressions iff 'mselin'. Bounded (compiled code): exact rational oracle for both criteria, ALL (start,pos,end), n<=5 (7), unit/mixed "
           "weights, 3 sample orders; the extracted text executed by CPython against the compiled extension; 'mselin' vs lstsq; leaf means; "
           "max_depth/min_samples_leaf.",
      note="Reading the extracted text as Python assumes mathematical double / integer arithmetic and successful allocation; every index is checked "
           "although the C code disables bounds checks. 'mselin' (LAPACK through raw pointers) and the scikit-learn tree builder are bounded only; "
           "_fit_reglin is proved (leaves_index_ = all leaves in increasing order; for every leaf position one criterion on exactly the training rows of that "
           "position with their targets and weights, its node_beta stored in betas_[i,:]) and predict_leaves is proved (position of the row's own leaf); "
           "with _predict_reglin this chains to: the 'mselin' prediction of a row is [x,1] . node_beta of the criterion built on the training rows sharing its leaf - "
           "node_beta itself (LAPACK) is assumed to be the least-squares fit and checked by the bounded stand-in. Known finding: the fast criterion's prefix sums are in the init order, which the "
           "splitter then re-sorts (the proved invariant is relative to the order given to init).",
      technique="deductive verification of mechanically extracted Cython text (loop invariants over ghost range sums, Lean-checked lemma schemas, z3) and of "
                "the Python side; 'mselin' by bounded enumeration")


# ---- amendments after the third round of seeds (DESIGN.md 11.8): what was added to each claim
def amend(pid, text="", note=""):
    CLAIMED[pid]["text"] += (" " + text) if text else ""
    CLAIMED[pid]["note"] += (" " + note) if note else ""


amend("C01", text="Every constructor stores a user-chosen number unconverted (scikit-learn's clone refuses anything else); SkBaseTransformLearner.set_params re-binds the "
                  "method to a NEW model also when the method given is the one it already has. Bounded: clone after set_params(p=numpy.float64), behaviour of the instance "
                  "itself after the round trip.")
amend("C02", text="The label permutation applied to the caller's targets by TransformedTarget*2.fit writes neither features nor targets (frame clause of "
                  "PermutationReciprocalTransformer.transform, every permutation of 2 and 3 labels); PiecewiseEstimator.fit: an integer random_state - 0 included - "
                  "seeds the generator of the fit and nothing is drawn from numpy's global generator.")
amend("C03", text="PiecewiseEstimator.fit with an integer random_state (any integer, 0 included): the fit's generator is RandomState(random_state), never the global one.")
amend("C06", text="_init_centroids is proved (with at least k points, k == n included, it never raises and returns k centres of the data's dimension: k-means++ "
                  "seeding assumed, k random rows, or the given array) and so is _tolerance (L1): the only assumed in-repo step of the L1 fit is the k-means++ seeding _k_init.")
amend("C08", text="Frame of the queries: transform_bins / predict / predict_proba leave the estimator with exactly the attributes it had (no state kept between calls).")
amend("C09", text="_predict_reglin also for integer-valued batches (evaluated like the same real numbers).")
amend("C10", text="enumerate_leaves_index (recursive generator) on five tree shapes, complete in the node indices: every node lacking a side, once, parents first.")
amend("C12", text="tree_node_parents is proved UNBOUNDED in the number of nodes and for any numbering (dictionary of symbolic size, loop invariant): every child is "
                  "sent to its parent (+ left, - right) and the table holds nothing else.")
amend("C13", text="_common_get_transform: a new transformer for a name, a FRESH clone for a transformer object (never the caller's object), TypeError otherwise.")
amend("C14", text="The delegation of _word_ngrams is proved for ngram_range (1,1), (1,2), (2,3).")
amend("C16", text="_pipeline_info on five Pipeline / FeatureUnion shapes x 1..2 input columns (symbolic node names): every input of a node is a column or an output "
                  "of an earlier node, union members are parallel, the union node collects one output of each; alter_pipeline_for_debugging wraps EVERY output method "
                  "(decision_function included).")
amend("C18", text="non_linear_correlations never returns NaN, also when the Pearson matrix the accumulators are shaped after holds NaN (constant columns).")
amend("C20", text="ts_mape also for forecasts with missing (NaN) entries anywhere - numpy.ma masked sums modelled - the naive forecast being 'the previous value "
                  "where there is a forecast'; precondition: at least one step is scored.")


# ---- amendments after the fourth round of seeds (DESIGN.md 11.9)
_QF = "Every query under contract carries a frame clause: the estimator is left with exactly the attributes it had (no state kept between calls)."
for _p in ("C05", "C06", "C09", "C10", "C11", "C12", "C13", "C14", "C15", "C17", "C19"):
    amend(_p, text=_QF)
amend("C01", text="SkLearnParameters.__init__ (the holder behind SkBase.P) keeps the very objects it is given - lists and dicts included - in the order given.")
amend("C02", text="Also under the frame contract: PredictableTSNE.fit (the caller's normalizer / t-SNE transformer / estimator get no set_params and are never "
                  "fitted, whatever the number of rows), ExtendedFeatures.fit, CategoriesToIntegers.fit (the caller's column list is not modified).")
amend("C03", text="Refit contracts also for PredictableTSNE, ExtendedFeatures, CategoriesToIntegers.")
amend("C05", text="compute_z and fit write none of the caller's arrays (the sample weights above all) and return new arrays.")
amend("C16", text="A second call of a wrapped method on the same array object refilled in place runs the original method again on the new content.")
amend("C18", text="Both branches are proved: numpy array and pandas DataFrame (accumulators written through .iloc; results are new frames labelled by the input's "
                  "columns); every coefficient is fitted on a fresh clone of the model (invariant over the trace of external calls).",
      note="pandas numeric frames are modelled as labelled matrices (pyvc/pdmodel.py).")
amend("C19", text="fit leaves the constructor parameters alone (columns=None means: detect at every fit).")
amend("C20", text="build_ts_X_y is verified for real AND integer series (after the repair of two dtype defects found with this machinery: NaN padding and "
                  "exogenous variables of an integer series).")
amend("C08", text="_mapping_train is proved for the discretizer binner too (three real loops; a set and a dictionary of cell tuples of unbounded symbolic "
                  "size): every training row gets the number of its cell, numbers 0..len-1 without repetition, one bucket per cell that holds a training row.")
amend("C10", text="fit_improve is proved for what its caller relies on (the probabilities returned are those of the node's classifier as it is at return); "
                  "no assumed in-repo step is left in C10.")


# ---- amendments after the fifth round of seeds (DESIGN.md 11.11)
amend("C03", text="One Lloyd run of KMeansL1L2 (_kmeans_single_lloyd) is verified here for: its only random draw - the initial centres - uses the generator built "
                  "from the caller's random_state.")
amend("C13", text="TransformedTargetClassifier2.fit / _apply_transform with an opaque reciprocal transformer: the classifier is trained on the features and the "
                  "TRANSFORMED labels, predictions go back through the reciprocal transformer.")
amend("C15", text="SkBaseTransform.fit_transform passes the extra fit arguments on and returns the transform of the same data.")
amend("C11", text="ExtendedFeatures.fit is also verified starting from stale fitted attributes of another configuration.")
amend("C05", text="_epsilon is verified for real and for integer targets.")
amend("C06", text="_k_init (k-means++ seeding, dense data) is proved: k centres, each a row of the data, no index out of range whatever the random draws "
                  "are; no assumed in-repo step is left in C06.")
