# table of claimed properties (exec'd by gen_manifest.py)
claim("C20",
      text="Proof (for all n, past, delay2, with/without X and weights, both same_rows values; delay1=1, use_all_past=False): every clause of the "
           "property is a postcondition of build_ts_X_y / ts_mape discharged from the real source with loop invariants; all obligations must discharge, "
           "canaries must fail. Bounded stand-in on the real code for all n<=8 (14 thorough).",
      note="Assumes A1 (floats are reals), A2, A6, A7 (numpy slicing/full/empty/abs/sum as modelled; ghost Sum lemma instances), A9. "
           "same_rows weight padding and use_all_past=True are not asserted (see evidence not_applicable_clauses).",
      technique="deductive verification: VCs from the real AST + loop invariants, z3")
