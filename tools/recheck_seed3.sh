#!/bin/bash
# tools/recheck_seed3.sh <id><A|B> : re-runs the (strengthened) check against the round-3 worktree /tmp/seed3/<tag>; keeps the first
# run as check_output_first.txt and writes the new result to check_output.txt of seeded/<id>-agent3<a|b>/
tag=$1; id=${tag:0:3}; ab=${tag:3:1}; wt=/tmp/seed3/$tag; out=/verif/seeded/$id-agent3$(echo $ab | tr 'AB' 'ab')
cd /verif
[ -f $out/check_output_first.txt ] || cp $out/check_output.txt $out/check_output_first.txt
res=$(tools/try_seed_wt.sh $id $wt 2>&1)
echo "$res" | grep "VIOLATION\|UNDECIDED\|failed:\|check exit" | cut -c1-400 > $out/check_output.txt
echo "$tag: $(grep -c 'failed:' $out/check_output.txt) failed ids, $(grep 'check exit' $out/check_output.txt)"
