#!/bin/bash
# tools/try_seed_wt.sh <property> <worktree-with-the-change-applied> [tier] : run the check against a scratch worktree (never /repo),
# then restore the evidence file of the property (committed evidence must come from the unchanged tree)
prop=$1; wt=$2; tier=${3:-quick}
cd /verif
cp evidence/$prop.json /tmp/evidence_$prop.json.keep 2>/dev/null
./check $prop --tier $tier --repo $wt; rc=$?
[ -f /tmp/evidence_$prop.json.keep ] && mv /tmp/evidence_$prop.json.keep evidence/$prop.json
echo "check exit=$rc"
exit $rc
