#!/usr/bin/env python3
"""writes seeded/<id>-agent11/meta.json from the stored check outputs (first run and run after strengthening)"""
import json, os, re, subprocess
HERE = os.path.dirname(os.path.dirname(os.path.abspath(__file__)))
HISTORY = {
    "C04": "first run: UNDECIDED without a bounded catch (exit 2): numpy.flatnonzero was not modelled; the bounded stand-in only compared predict_proba of a "
           "depth-2 tree.  flatnonzero modelled (the proof then stops on an engine error for this change: still undecided); bounded: decision paths of "
           "deeper trees per row, permuted and by sub-batch",
    "C05": "first run: bounded stand-in only (integer features give another fit than the same numbers as floats): coef_ stored in the dtype of X after the "
           "loop.  The fit contract now pins what is stored to the coefficients of the last inner regression, as floats: "
           "post.stored_coefficients_are_those_of_the_last_inner_regression_as_floats fails (sat) on the integer-feature variant",
    "C08": "first run: MISSED (exit 0): the buffer the bucket outputs are written back into takes the dtype of the query batch.  Bounded: int64 batches at "
           "predict time must give the outputs of the same rows as float64 (regressor and classifier); an integer-feature variant of the predict "
           "contract was tried and did not fail on the change - not kept",
    "C12": "proof undecided (digitize2tree restructured), caught by the bounded stand-in",
    "C13": "proof undecided (fancy column gather not modelled), caught by the bounded stand-in (classes vs probability columns)",
    "C15": "caught by the bounded stand-in only (mixed-dtype stacking, added in round 4)",
    "C16": "first run: MISSED (exit 0): the contract of _pipeline_info had no shape with a predictor fed several columns directly.  Shapes 'regressor', "
           "'classifier', 'regressor after a step' added: post.every_input_is_a_column_or_an_output_of_an_earlier_node fails (sat)",
    "C18": "caught by the bounded stand-in only (DataFrame vs array on integer tables): the proof has real-valued tables only",
    "C19": "first run: UNDECIDED without a bounded catch (exit 2): DataFrame.join not modelled, and no bounded frame had a repeated index label.  Bounded: the "
           "same label on both rows - still one output row per input row",
    "C20": "proof undecided (reshape with symbolic sizes), caught by the bounded stand-in (targets)",
}
base = subprocess.run(["git", "-C", "/repo", "rev-parse", "--short", "HEAD"], capture_output=True, text=True).stdout.strip()
for d in sorted(os.listdir(os.path.join(HERE, "seeded"))):
    m = re.match(r"(C\d\d)-agent11$", d)
    if not m:
        continue
    pid = m.group(1)
    p = os.path.join(HERE, "seeded", d)

    def parse(fn):
        if not os.path.exists(os.path.join(p, fn)):
            return None
        t = open(os.path.join(p, fn)).read()
        ex = re.findall(r"check exit=(\d+)", t)
        return dict(check_exit=int(ex[-1]) if ex else None, failed=re.findall(r"failed: (\S+)", t), undecided=[l[:200] for l in t.splitlines() if l.startswith("UNDECIDED")])
    first, last = parse("check_output_first.txt"), parse("check_output.txt")
    meta = dict(property=pid, origin="independent sub-agent (round 11: the computation stays right, the slip is in how the result is assembled or handed back - order of write-back, reshape / transpose, which array is returned or stored, dtype of the buffer) given only the property text and a scratch worktree",
                confirmed_by="tools/confirm_seed11.sh %s: pinned suite 46 passed with the change in the scratch worktree, demo.py exits 0 on /repo and 1 on the worktree" % pid,
                base_commit=base, check_exit=last["check_exit"], caught_by=last["failed"])
    if last["undecided"]:
        meta["undecided"] = last["undecided"]
    if first is not None:
        meta["first_run"] = dict(check_exit=first["check_exit"], caught_by=first["failed"], undecided=first["undecided"])
    meta["history"] = HISTORY.get(pid, "caught on the first run")
    json.dump(meta, open(os.path.join(p, "meta.json"), "w"), indent=1)
    print(d, meta["check_exit"], len(meta["caught_by"]), "proof" if any(not f.startswith("bounded:") for f in meta["caught_by"]) else "bounded-only")
