#!/usr/bin/env python3
"""writes seeded/<id>-agent8/meta.json from the stored check outputs (first run and run after strengthening)"""
import json, os, re, subprocess
HERE = os.path.dirname(os.path.dirname(os.path.abspath(__file__)))
HISTORY = {
    "C06": "proof undecided (the M-step lost a loop), caught by the bounded stand-in - the same change as the one an agent of round 6 had made",
    "C07": "caught on the first run by the proof of the 'gain' association added in this build: with the moved-mark set to a distance that can be exactly 0, "
           "a listed point that has moved may look unmoved - #3.inv-step.a_listed_point_not_flagged_as_moved_is_still_in_the_cluster_it_wants_to_leave fails",
    "C09": "first run: MISSED (exit 0): the 'mselin' criterion reports impurity 0 for ranges with exactly one row more than coefficients.  The compiled linear "
           "criterion (raw pointers, LAPACK) is outside the extracted subset; the bounded stand-in only looked at fitted trees.  Bounded: the criterion "
           "object itself on every node range and split position against numpy.linalg.lstsq (node value, impurity, children impurities)",
    "C12": "proof undecided (digitize2tree lost its loop), caught by the bounded stand-in (one-edge bins)",
    "C13": "caught by the bounded stand-in only (NaN targets are kept as NaN): the contract of PermutationReciprocalTransformer.transform has no NaN variant",
    "C15": "first run: UNDECIDED without a bounded catch (exit 2): numpy.atleast_2d of a vector was not modelled and every bounded batch had more rows than "
           "output columns.  atleast_2d(vector) = one row (a view); the symbolic batch can have as many rows as the output has columns: "
           "post.values_are_the_models_output fails (sat).  Bounded: batches of 1, 2, 3 and exactly-as-many-rows-as-columns",
    "C17": "first run: UNDECIDED without a bounded catch (exit 2): predict_all restructured (no loop, numpy.array of a generator); wrong only for a batch with "
           "exactly n_estimators rows.  Bounded: batches of n_estimators and n_estimators + 1 rows; the proof stays undecided (restructured)",
    "C19": "first run: MISSED (exit 0): the contract of transform only had frames with a numeric column.  Variants without any numeric column: "
           "post.the_rows_keep_the_index_of_the_input fails (sat); bounded: the same with a non-default index",
    "C20": "first run: bounded stand-in only, proof undecided (numpy.errstate not modelled).  errstate / catch_warnings are no-ops; the division by a zero "
           "total variation is then reported (no-raise.ZeroDivisionError: the engine gives scalar division Python semantics - numpy returns nan with a "
           "warning; either way not the documented 0 / inf)",
}
base = subprocess.run(["git", "-C", "/repo", "rev-parse", "--short", "HEAD"], capture_output=True, text=True).stdout.strip()
for d in sorted(os.listdir(os.path.join(HERE, "seeded"))):
    m = re.match(r"(C\d\d)-agent8$", d)
    if not m:
        continue
    pid = m.group(1)
    p = os.path.join(HERE, "seeded", d)

    def parse(fn):
        if not os.path.exists(os.path.join(p, fn)):
            return None
        t = open(os.path.join(p, fn)).read()
        ex = re.findall(r"check exit=(\d+)", t)
        return dict(check_exit=int(ex[-1]) if ex else None, failed=re.findall(r"failed: (\S+)", t), undecided=[l[:200] for l in t.splitlines() if l.startswith("UNDECIDED")])
    first, last = parse("check_output_first.txt"), parse("check_output.txt")
    meta = dict(property=pid, origin="independent sub-agent (round 8: invisible on typical data, wrong on degenerate or boundary inputs - smallest sizes, ties, empty selections, values on a threshold, a parameter at the end of its range) given only the property text and a scratch worktree",
                confirmed_by="tools/confirm_seed8.sh %s: pinned suite 46 passed with the change in the scratch worktree, demo.py exits 0 on /repo and 1 on the worktree" % pid,
                base_commit=base, check_exit=last["check_exit"], caught_by=last["failed"])
    if last["undecided"]:
        meta["undecided"] = last["undecided"]
    if first is not None:
        meta["first_run"] = dict(check_exit=first["check_exit"], caught_by=first["failed"], undecided=first["undecided"])
    meta["history"] = HISTORY.get(pid, "caught on the first run")
    json.dump(meta, open(os.path.join(p, "meta.json"), "w"), indent=1)
    print(d, meta["check_exit"], len(meta["caught_by"]), "proof" if any(not f.startswith("bounded:") for f in meta["caught_by"]) else "bounded-only")
