#!/usr/bin/env python3
"""prints a markdown table of what each check covers, from the evidence files and the contract META (for DESIGN.md)"""
import json, glob, os, sys
HERE = os.path.dirname(os.path.dirname(os.path.abspath(__file__)))
sys.path.insert(0, HERE)
print("| property | functions under contract | obligations (ids) | assumed in-repo / compiled steps | bounded stand-in |")
print("|---|---|---|---|---|")
for f in sorted(glob.glob(os.path.join(HERE, "evidence", "C*.json"))):
    e = json.load(open(f)); c = e["coverage"]; pid = e["property_id"]
    fns = [x["function"].split("::")[1] for x in c["functions_under_contract"]]
    from pyvc.run import load_contracts
    assumed = [k for k, ct in load_contracts(pid).items() if ct.assumed]
    assumed += [t[len("assumed contract: "):] for t in c["trusted_base"] if t.startswith("assumed contract: pyx:")]
    b = c.get("bounded", {})
    print("| %s | %d: %s | %d (%d) | %s | %s evaluations |" % (
        pid, len(fns), ", ".join(sorted(set(fns)))[:400], c["obligations"], c["obligation_ids"],
        "; ".join(a.split("::")[-1] for a in assumed) or "none", b.get("evaluations", "-")))
