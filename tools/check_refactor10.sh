#!/bin/bash
# tools/check_refactor10.sh <id>: a behaviour-preserving refactoring made by a sub-agent in /tmp/seed10/<id> (round 9): suite, equivalence digest, then the
# check of the property against that worktree - a VIOLATION line here would be a false alarm; stores seeded/<id>-refactor10/
id=$1; wt=/tmp/seed10/$id; out=/verif/seeded/$id-refactor10
[ -s $wt/_seed/patch.diff ] || { echo "no patch for $id"; exit 9; }
cd $wt
t=$(/venv/bin/python -m pytest -q -p no:cacheprovider --timeout=900 _unittests/ut_helpers _unittests/ut_metrics _unittests/ut_plotting/test_dot.py _unittests/ut_plotting/test_str.py _unittests/ut_sklapi 2>&1 | tail -1)
d0=$(/venv/bin/python _seed/equiv.py /repo 2>/dev/null | tail -1); d1=$(/venv/bin/python _seed/equiv.py $wt 2>/dev/null | tail -1)
same=no; [ -n "$d0" ] && [ "$d0" = "$d1" ] && same=yes
echo "$id suite: $t ; equivalence digest identical: $same"
cd /verif
res=$(tools/try_seed_wt.sh $id $wt 2>&1)
echo "$res" | grep "^property\|VIOLATION\|UNDECIDED\|BROKEN\|failed:\|check exit" | cut -c1-260
mkdir -p $out
cp $wt/_seed/patch.diff $wt/_seed/notes.md $out/ 2>/dev/null
cp $wt/_seed/equiv.py $out/ 2>/dev/null
{ echo "suite: $t"; echo "equivalence digest identical: $same"; echo "$res" | grep "VIOLATION\|UNDECIDED\|failed:\|check exit"; } > $out/check_output.txt
