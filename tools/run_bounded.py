#!/usr/bin/env python3
"""tools/run_bounded.py <property> [tier] [seed] [repo]: runs ONLY the bounded stand-in of a property (fresh overlay) and prints its summary -
for trying a harness change without touching evidence files"""
import sys, os, json
sys.path.insert(0, os.path.dirname(os.path.dirname(os.path.abspath(__file__))))
from pyvc.check import run_bounded
prop = sys.argv[1]
tier = sys.argv[2] if len(sys.argv) > 2 else "quick"
seed = int(sys.argv[3]) if len(sys.argv) > 3 else 0
repo = sys.argv[4] if len(sys.argv) > 4 else "/repo"
out = run_bounded(prop, tier, seed, repo)
print(prop, tier, "seed", seed, "evaluations", out.get("evaluations"), "failures", len(out.get("failures", [])), "error" if out.get("error") else "")
for f in out.get("failures", [])[:5]:
    print("  ", json.dumps(f)[:300])
if out.get("error"):
    print(out["error"][-800:])
