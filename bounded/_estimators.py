"""Estimator configurations shared by the bounded stand-ins of C02, C03, C04."""
import numpy


FIXED_DIM = {"KMeansL1L2-L1-array-init"}      # configurations tied to the 3 features of datasets()['X']


def datasets(seed=0):
    rs = numpy.random.RandomState(seed)
    X = rs.randn(40, 3)
    X[:, 2] = numpy.abs(X[:, 2])
    y_reg = X[:, 0] * 2 - X[:, 1] + 0.1 * rs.randn(40)
    y_clf = (X[:, 0] + X[:, 1] > 0).astype(int)
    y_pos = numpy.abs(y_reg) + 0.5
    w = rs.randint(1, 4, 40).astype(float)
    X2 = rs.randn(25, 2) * 3 + 1
    y2_reg = X2[:, 0] - X2[:, 1]
    y2_clf = (X2[:, 0] > 1).astype(int) * 2 + 5            # different label set {5, 7}
    return dict(X=X, y_reg=y_reg, y_clf=y_clf, y_pos=y_pos, w=w, X2=X2, y2_reg=y2_reg, y2_clf=y2_clf, y2_pos=numpy.abs(y2_reg) + 0.5)


class FailingRegressor:
    """inner estimator that raises on its k-th fit"""
    pass


def make_failing(kind, k):
    from sklearn.base import BaseEstimator, RegressorMixin, ClassifierMixin
    from sklearn.linear_model import LinearRegression, LogisticRegression
    counter = {"n": 0}
    base = LinearRegression if kind == "reg" else LogisticRegression

    class Failing(base):
        def fit(self, X, y, sample_weight=None):
            counter["n"] += 1
            if counter["n"] == k:
                raise RuntimeError("injected failure on fit #%d" % k)
            return base.fit(self, X, y, sample_weight=sample_weight)
    Failing.__name__ = "Failing" + base.__name__
    return Failing()


def configs(inner=None):
    """name -> (factory, target kind, uses inner estimator?, output method)"""
    from sklearn.linear_model import LinearRegression, LogisticRegression
    from sklearn.tree import DecisionTreeRegressor
    from mlinsights import mlmodel as mm
    reg = (lambda: inner) if inner is not None else (lambda: LinearRegression())
    clf = (lambda: inner) if inner is not None else (lambda: LogisticRegression())
    c = {
        "ConstraintKMeans": (lambda: mm.ConstraintKMeans(3, strategy="distance", random_state=0, max_iter=10), "none", False, "predict"),
        "ConstraintKMeans-nok0": (lambda: mm.ConstraintKMeans(3, strategy="distance", random_state=0, max_iter=10, kmeans0=False), "none", False, "predict"),
        # strategy 'weights' learns per-cluster weights (weights_) that transform / score use
        "ConstraintKMeans-weights": (lambda: mm.ConstraintKMeans(3, strategy="weights", random_state=0, max_iter=10), "none", False, "transform"),
        "KMeansL1L2-L1": (lambda: mm.KMeansL1L2(3, norm="L1", random_state=0, n_init=2), "none", False, "predict"),
        "KMeansL1L2-L2": (lambda: mm.KMeansL1L2(3, norm="L2", random_state=0, n_init=2), "none", False, "predict"),
        # explicit initial centres: n_init is then ignored by the L1 fit (it must not be overwritten)
        "KMeansL1L2-L1-array-init": (lambda: mm.KMeansL1L2(3, norm="L1", random_state=0, n_init=4,
                                                           init=numpy.array([[0., 0., 1.], [1., -1., 0.5], [-1., 1., 0.2]])), "none", False, "predict"),
        "PiecewiseRegressor": (lambda: mm.PiecewiseRegressor(DecisionTreeRegressor(max_depth=2, random_state=0), reg()), "reg", True, "predict"),
        "PiecewiseRegressor-bins": (lambda: mm.PiecewiseRegressor("bins", reg()), "reg", True, "predict"),
        "PiecewiseClassifier": (lambda: mm.PiecewiseClassifier("bins", clf(), random_state=0), "clf", True, "predict_proba"),
        "IntervalRegressor": (lambda: mm.IntervalRegressor(reg(), n_estimators=4), "reg", True, "predict"),
        "QuantileLinearRegression": (lambda: mm.QuantileLinearRegression(quantile=0.3), "reg", False, "predict"),
        "ClassifierAfterKMeans": (lambda: mm.ClassifierAfterKMeans(clf(), c_n_init=1, c_random_state=0), "clf", True, "predict_proba"),
        "DecisionTreeLogisticRegression": (lambda: mm.DecisionTreeLogisticRegression(max_depth=2), "clf", False, "predict_proba"),
        "ExtendedFeatures": (lambda: mm.ExtendedFeatures(poly_degree=2), "none", False, "transform"),
        "TransformedTargetRegressor2": (lambda: mm.TransformedTargetRegressor2(reg(), "log"), "pos", True, "predict"),
        "TransformedTargetClassifier2": (lambda: mm.TransformedTargetClassifier2(clf(), "permute"), "clf", True, "predict"),
        "TransferTransformer": (lambda: mm.TransferTransformer(LinearRegression().fit(numpy.eye(3), numpy.arange(3.)), "predict", trainable=True), "reg", False, "transform"),
        "ApproximateNMFPredictor": (lambda: mm.ApproximateNMFPredictor(n_components=2, max_iter=200, random_state=0), "nmf", False, "predict"),
        "PredictableTSNE": (lambda: mm.PredictableTSNE(t_n_iter=250, t_random_state=0, e_random_state=0) if False else mm.PredictableTSNE(), "tsne", False, "transform"),
    }
    try:
        from mlinsights.mlmodel import PiecewiseTreeRegressor
        c["PiecewiseTreeRegressor"] = (lambda: PiecewiseTreeRegressor(criterion="simple", max_depth=2), "reg", False, "predict")
        c["PiecewiseTreeRegressor-mselin"] = (lambda: PiecewiseTreeRegressor(criterion="mselin", max_depth=2), "reg", False, "predict")
    except Exception:
        pass
    c.pop("PredictableTSNE")       # minutes per fit: excluded from the quick domains
    return c


def target(d, kind, second=False):
    p = "2" if second else ""
    X = d["X" + p]
    if kind == "reg":
        return X, d["y%s_reg" % p]
    if kind == "clf":
        return X, d["y%s_clf" % p]
    if kind == "pos":
        return X, d["y%s_pos" % p]
    if kind == "nmf":
        return numpy.abs(X), None
    return X, None


def fit(est, X, y, w=None):
    import inspect
    pars = inspect.signature(est.fit).parameters
    if w is not None and "sample_weight" in pars:
        return est.fit(X, y, sample_weight=w) if y is not None or "y" in pars else est.fit(X, sample_weight=w)
    if y is None:
        return est.fit(X)
    return est.fit(X, y)


def output(est, method, X):
    return numpy.asarray(getattr(est, method)(X))


def params_snapshot(est):
    out = {}
    for k, v in est.get_params(deep=True).items():
        out[k] = v if isinstance(v, (int, float, str, bool, type(None), tuple)) else (type(v).__name__, id(v))
    return out
