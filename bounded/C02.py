"""Bounded stand-in for C02 (labelled bounded): byte-equality of hyper-parameters and caller data around
successful and failing fits (NaN data, too few samples, inner estimator raising on its k-th fit)."""
NEEDS_CYTHON = True
import sys, os
sys.path.insert(0, os.path.dirname(os.path.dirname(os.path.abspath(__file__))))
import numpy
from bounded.common import main
from bounded import _estimators as EST


def cases(tier, seed):
    names = sorted(EST.configs())
    for n in names:
        yield dict(name=n, fault="none", weights=False)
        yield dict(name=n, fault="none", weights=True)
        yield dict(name=n, fault="nan")
        yield dict(name=n, fault="few")
        for k in ((1, 2) if tier == "quick" else (1, 2, 3, 4)):
            yield dict(name=n, fault="inner", k=k)
    # PredictableTSNE is too slow for the table above; on a handful of rows (fewer than the perplexity, which fit then has to lower
    # for its OWN copy of the transformer) it takes a second
    for rows in (8, 25):
        yield dict(name="PredictableTSNE-small", fault="tsne-small", rows=rows)


def check_tsne_small(c):
    from sklearn.manifold import TSNE
    from sklearn.neighbors import KNeighborsRegressor
    from mlinsights.mlmodel import PredictableTSNE
    rs = numpy.random.RandomState(4)
    X = rs.randn(c["rows"], 3)
    y = (X[:, 0] > 0).astype(int)
    user_tsne = TSNE(random_state=0, max_iter=250, init="random")
    est = PredictableTSNE(transformer=user_tsne, estimator=KNeighborsRegressor(n_neighbors=2))
    p0 = EST.params_snapshot(est)
    Xb = X.copy()
    raised = None
    try:
        if est.fit(X, y) is not est:
            return dict(**{"class": "fit-returns"}, what="fit did not return the estimator")
        est.transform(X)
    except Exception as e:
        raised = e
    if EST.params_snapshot(est) != p0:
        diff = {k: (p0.get(k), v) for k, v in EST.params_snapshot(est).items() if p0.get(k) != v}
        return dict(**{"class": "params-changed" + ("-after-failure" if raised is not None else "")},
                    what="get_params changed: %r (%d rows, fit %s)" % (diff, c["rows"], "raised" if raised is not None else "succeeded"))
    if not numpy.array_equal(X, Xb):
        return dict(**{"class": "input-mutated"}, what="fit/transform wrote into the caller's data")
    return None


def check(c):
    from sklearn.base import clone
    if c.get("fault") == "tsne-small":
        return check_tsne_small(c)
    inner = None
    cfg0 = EST.configs()[c["name"]]
    if c["fault"] == "inner":
        if not cfg0[2]:
            return None
        inner = EST.make_failing("reg" if cfg0[1] in ("reg", "pos") else "clf", c["k"])
    factory, kind, _, method = EST.configs(inner)[c["name"]]
    d = EST.datasets(3)
    X, y = EST.target(d, kind)
    w = d["w"] if c.get("weights") else None
    if c["fault"] == "nan":
        X = X.copy()
        X[5, 1] = numpy.nan
    if c["fault"] == "few":
        X, y = X[:1], (None if y is None else y[:1])
    est = factory()
    p0 = EST.params_snapshot(est)
    Xb, yb, wb = X.copy(), None if y is None else y.copy(), None if w is None else w.copy()
    raised = None
    try:
        r = EST.fit(est, X, y, w)
        if r is not est:
            return dict(**{"class": "fit-returns"}, what="fit returned %r instead of the estimator" % (type(r).__name__,))
        EST.output(est, method, X)
        if hasattr(est, "score") and y is not None:
            try:
                est.score(X, y)
            except Exception:
                pass
    except Exception as e:
        raised = e
    if EST.params_snapshot(est) != p0:
        diff = {k: (p0.get(k), v) for k, v in EST.params_snapshot(est).items() if p0.get(k) != v}
        return dict(**{"class": "params-changed" + ("-after-failure" if raised is not None else "")},
                    what="get_params changed: %r (fit %s)" % (diff, "raised %s" % type(raised).__name__ if raised is not None else "succeeded"))
    same = numpy.array_equal(X, Xb, equal_nan=True) and (y is None or numpy.array_equal(y, yb)) and (w is None or numpy.array_equal(w, wb))
    if not same:
        return dict(**{"class": "input-mutated"}, what="fit/predict wrote into the caller's data")
    if raised is not None and c["fault"] in ("nan", "inner"):
        # a later successful fit gives the same model as fitting a fresh clone
        factory2, _, _, _ = EST.configs()[c["name"]]
        fresh = factory2()
        Xg, yg = EST.target(d, kind)
        try:
            if inner is not None:
                # replace the failing inner estimator by the healthy one of the fresh object before refitting
                return None
            numpy.random.seed(11)
            EST.fit(est, Xg, yg)
            numpy.random.seed(11)
            EST.fit(fresh, Xg, yg)
            if not numpy.allclose(EST.output(est, method, Xg), EST.output(fresh, method, Xg), rtol=0, atol=1e-9, equal_nan=True):
                return dict(**{"class": "refit-after-failure-differs"}, what="refit after a failed fit differs from a fresh estimator")
        except Exception as e:
            return dict(**{"class": "refit-after-failure-raises"}, what="%s: %s" % (type(e).__name__, e))
    return None


def replay(cex):
    if "case" in cex and "inputs" not in cex:
        f = check(cex["case"])
        return dict(fails=f is not None, observed=f)
    for c in cases("quick", 0):
        try:
            f = check(c)
        except Exception as e:
            f = dict(**{"class": "exception:" + type(e).__name__}, what=str(e))
        if f is not None:
            return dict(fails=True, observed=f, lifted_case=c)
    return dict(fails=False, note="no failing input on the quick domain")


if __name__ == "__main__":
    main("C02", cases, check, replay,
         rule="every configured estimator class x {successful fit with/without weights, NaN in X, a single training row, inner estimator raising on "
              "its k-th fit}; compares get_params snapshots and the bytes of X, y, w before/after; non-trivial = the class uses the injected fault")
