"""Bounded stand-in for C06 (labelled bounded): KMeansL1L2 on small grids (duplicates, ties, n == k, one cluster, float32)."""
NEEDS_CYTHON = False
import sys, os, itertools
sys.path.insert(0, os.path.dirname(os.path.dirname(os.path.abspath(__file__))))
import numpy
from bounded.common import main

GRID = [(x, y) for x in (10.0, 11.0, 12.0) for y in (10.0, 11.0, 12.0)]      # the origin is outside the data range


def cases(tier, seed):
    rs = numpy.random.RandomState(seed)
    sizes = (3, 4, 6) if tier == "quick" else (2, 3, 4, 5, 6)
    for n in sizes:
        combos = list(itertools.combinations_with_replacement(range(len(GRID)), n))
        rs.shuffle(combos)
        for comb in combos[: (12 if tier == "quick" else 60)]:
            pts = [GRID[i] for i in comb]
            distinct = len(set(pts))
            for k in (1, 2, 3):
                if distinct < k:
                    continue
                if k >= 2:
                    # explicit initial centres that coincide (all equal to one data point, or to a point beside the data): clusters stay
                    # empty over several iterations and are relocated - the labels have to follow the centres that are returned
                    yield dict(kind="L1", points=pts, k=k, init="array:first", seed=seed + k, dtype="float64", weights=False)
                    yield dict(kind="L1", points=pts, k=k, init="array:corner", seed=seed + k, dtype="float64", weights=(n % 2 == 0))
                for init in ("k-means++", "random"):
                    yield dict(kind="L1", points=pts, k=k, init=init, seed=seed + len(comb) + k, dtype="float64" if (k + n) % 2 else "float32", weights=(n % 2 == 0))
                    if (k + n) % 2 and init == "random":
                        # the same data in units of 1e-9 (every absolute tolerance of the code meets data of that magnitude)
                        yield dict(kind="L1", points=pts, k=k, init=init, seed=seed + len(comb) + k, dtype="float64", weights=False, scale=1e-9)
    # one-dimensional series with many repeated values (empty clusters, relocations, zero-distance ties), one run per fit
    for s in range(60 if tier == "quick" else 300):
        r1 = numpy.random.RandomState(1000 * seed + s)
        n = int(r1.randint(3, 12))
        vals = r1.choice([3.0, 8.0, 13.0, 18.0], size=n, p=[0.2, 0.1, 0.1, 0.6]).tolist()
        k = 2 + (s % 2)
        if len(set(vals)) < k:
            continue
        yield dict(kind="L1", points=[[v] for v in vals], k=k, init="random" if s % 3 else "array:first", seed=int(r1.randint(0, 1000)), dtype="float64",
                   weights=False, n_init=1)
    for s in range(3 if tier == "quick" else 8):
        yield dict(kind="L2", seed=seed + s, k=3)


def check(c):
    from sklearn.cluster import KMeans
    from mlinsights.mlmodel import KMeansL1L2
    if c["kind"] == "L2":
        rs = numpy.random.RandomState(c["seed"])
        X = rs.randn(40, 2)
        a = KMeansL1L2(c["k"], norm="L2", random_state=c["seed"], n_init=3).fit(X)
        b = KMeans(c["k"], random_state=c["seed"], n_init=3).fit(X)
        Q = rs.randn(10, 2)
        if not (numpy.array_equal(a.labels_, b.labels_) and numpy.array_equal(a.cluster_centers_, b.cluster_centers_) and
                abs(a.inertia_ - b.inertia_) <= 1e-9 and numpy.array_equal(a.predict(Q), b.predict(Q)) and numpy.array_equal(a.transform(Q), b.transform(Q))):
            return dict(**{"class": "L2-differs-from-KMeans"}, what="norm='L2' differs from scikit-learn's KMeans")
        return None
    sc = c.get("scale", 1.0)
    X = numpy.array(c["points"], dtype=c["dtype"]) * (sc if sc != 1.0 else 1)
    X0 = X.copy()
    w = numpy.full(len(X), 2.0) if c["weights"] else None
    init = c["init"]
    if init.startswith("array:"):
        row = X[0] if init == "array:first" else numpy.array([10.0] * X.shape[1], dtype=X.dtype) * (sc if sc != 1.0 else 1)
        init = numpy.vstack([row] * c["k"]).astype(X.dtype)
    try:
        m = KMeansL1L2(c["k"], norm="L1", init=init, random_state=c["seed"], n_init=c.get("n_init", 2)).fit(X, sample_weight=w)
    except Exception as e:
        return dict(**{"class": "L1-fit-fails"}, what="fit fails on finite data with >= k distinct points: %s: %s" % (type(e).__name__, str(e)[:120]))
    C = numpy.asarray(m.cluster_centers_, dtype=float)
    if not numpy.all(numpy.isfinite(C)) or numpy.any(C < X.min(axis=0) - 1e-9 * sc) or numpy.any(C > X.max(axis=0) + 1e-9 * sc):
        return dict(**{"class": "L1-centre-out-of-range"}, what="centres %r outside the data range" % C.tolist())
    D = numpy.abs(X[:, None, :].astype(float) - C[None, :, :]).sum(axis=2)
    lab = numpy.asarray(m.labels_)
    if not numpy.allclose(D[numpy.arange(len(X)), lab], D.min(axis=1), rtol=0, atol=1e-9 * sc):
        return dict(**{"class": "L1-label-not-nearest"}, what="a training point does not carry the label of a Manhattan-nearest centre")
    ww = numpy.ones(len(X)) if w is None else w
    if abs(m.inertia_ - float((D.min(axis=1) * ww).sum())) > 1e-6 * max(sc, abs(m.inertia_)):
        return dict(**{"class": "L1-inertia"}, what="inertia_ %r is not the (weighted) sum of Manhattan distances %r" % (m.inertia_, float((D.min(axis=1) * ww).sum())))
    Q = numpy.array([[10.5, 11.5], [12.0, 10.0], [9.0, 13.0]], dtype=c["dtype"])[:, :X.shape[1]] * (sc if sc != 1.0 else 1)
    DQ = numpy.abs(Q[:, None, :].astype(float) - C[None, :, :]).sum(axis=2)
    p = m.predict(Q)
    if not numpy.allclose(DQ[numpy.arange(len(Q)), p], DQ.min(axis=1), rtol=0, atol=1e-9 * sc):
        return dict(**{"class": "L1-predict"}, what="predict does not return a Manhattan-nearest centre")
    if not numpy.allclose(m.transform(Q), DQ, rtol=0, atol=(1e-5 if c["dtype"] == "float32" else 1e-9) * sc):
        return dict(**{"class": "L1-transform"}, what="transform is not the Manhattan distance to every centre")
    if not numpy.array_equal(X, X0):
        return dict(**{"class": "input-mutated"}, what="training data modified")
    return None


def replay(cex):
    if "case" in cex and "inputs" not in cex:
        f = check(cex["case"])
        return dict(fails=f is not None, observed=f)
    for c in cases("quick", 0):
        try:
            f = check(c)
        except Exception as e:
            f = dict(**{"class": "exception:" + type(e).__name__}, what=str(e))
        if f is not None:
            return dict(fails=True, observed=f, lifted_case=c)
    return dict(fails=False, note="no failing input on the quick domain")


if __name__ == "__main__":
    main("C06", cases, check, replay,
         rule="multisets of 3,4,6 (2..6) points on a 3x3 grid away from the origin (duplicates, ties, n == k) with >= k distinct points, k in {1,2,3}, both "
              "init modes, float32/float64, uniform weights 1 or 2: fit succeeds, labels nearest, inertia, centres in range, predict, transform; L2 vs KMeans")
