"""Bounded stand-in for C10 (labelled bounded): DecisionTreeLogisticRegression on the real code."""
NEEDS_CYTHON = False
import sys, os
sys.path.insert(0, os.path.dirname(os.path.dirname(os.path.abspath(__file__))))
import numpy
from bounded.common import main


def cases(tier, seed):
    for s in range(4 if tier == "quick" else 8):
        for depth in (1, 2, 3, 5):
            for algo in ("auto", "none", "intercept_sort_always"):
                yield dict(seed=seed * 10 + s, max_depth=depth, algo=algo, labels=[0, 1] if s % 2 == 0 else ["no", "yes"], base="logreg")
    for depth in (2, 3):
        yield dict(seed=1, max_depth=depth, algo="none", labels=[3, 7], base="stump")
    # non-default stopping rules: nodes with fewer rows than min_samples_split exist (as leaves) and have to answer like every other node
    for s, mss in enumerate((3, 6, 12, 50)):
        yield dict(seed=seed * 10 + s, max_depth=4, algo="auto" if s % 2 else "none", labels=[0, 1], base="logreg", min_samples_split=mss)
    # single-precision features: thresholds placed on a training row's own probability ('intercept_sort_always') are exact ties in float32,
    # predict_proba and decision_path have to break them the same way
    for s in range(3 if tier == "quick" else 8):
        for algo in ("intercept_sort_always", "auto"):
            yield dict(seed=seed * 10 + s, max_depth=3, algo=algo, labels=[0, 1], base="logreg", dtype="float32")


def nodes(t):
    out = [t]
    for ch in (t.above, t.below):
        if ch is not None:
            out.extend(nodes(ch))
    return out


def check(c):
    from sklearn.linear_model import LogisticRegression
    from sklearn.tree import DecisionTreeClassifier
    from mlinsights.mlmodel import DecisionTreeLogisticRegression
    rs = numpy.random.RandomState(c["seed"])
    if c["base"] == "stump":
        X = numpy.array([[a, b] for a in (0., 1.) for b in (0., 1.)] * 4)
        yb = (X[:, 0].astype(int) ^ X[:, 1].astype(int))
        est = DecisionTreeClassifier(max_depth=1, random_state=0)
    else:
        X = rs.randn(80, 2)
        yb = ((X[:, 0] ** 2 + X[:, 1] > 0.3)).astype(int)
        est = LogisticRegression()
    if c.get("dtype"):
        X = X.astype(c["dtype"])
    y = numpy.array(c["labels"], dtype=object if isinstance(c["labels"][0], str) else None)[yb]
    m = DecisionTreeLogisticRegression(estimator=est, max_depth=c["max_depth"], fit_improve_algo=c["algo"], min_samples_leaf=2,
                                       min_samples_split=c.get("min_samples_split", 2))
    if m.fit(X, y) is not m:
        return dict(**{"class": "fit-returns"}, what="fit does not return self")
    Q = numpy.vstack([X, (rs.randn(30, 2) * 2).astype(X.dtype)]) if c["base"] != "stump" else X
    P = m.predict_proba(Q)
    if P.shape != (len(Q), 2) or not numpy.allclose(P.sum(axis=1), 1, atol=1e-9):
        return dict(**{"class": "proba-sum"}, what="rows of predict_proba do not sum to one")
    pred = m.predict(Q)
    if not numpy.array_equal(pred, numpy.asarray(m.classes_)[(P[:, 1] >= 0.5).astype(int)]):
        return dict(**{"class": "predict-vs-proba"}, what="predict is not classes_ taken at probability >= 0.5")
    allnodes = nodes(m.tree_)
    idx = [n.index for n in allnodes]
    if len(set(idx)) != len(idx) or max(idx) >= m.n_nodes_ or min(idx) < 0:
        return dict(**{"class": "node-indices"}, what="node indices %r, n_nodes_=%d" % (idx, m.n_nodes_))
    if max(n.depth for n in allnodes) > c["max_depth"] or m.tree_depth_ > c["max_depth"]:
        return dict(**{"class": "max-depth"}, what="depth %d exceeds max_depth %d" % (max(n.depth for n in allnodes), c["max_depth"]))
    leaves = sorted(n.index for n in allnodes if n.above is None or n.below is None)
    if list(m.get_leaves_index()) != leaves:
        return dict(**{"class": "leaves-index"}, what="get_leaves_index %r, terminal nodes %r" % (list(m.get_leaves_index()), leaves))
    path = m.decision_path(Q).toarray()
    tol = 1e-9 if Q.dtype == numpy.float64 else 2e-6       # batch vs single-row evaluation of a member classifier rounds differently
    byindex = {n.index: n for n in allnodes}
    for r in range(len(Q)):
        node, expected = m.tree_, []
        while True:
            expected.append(node.index)
            p = node.estimator.predict_proba(Q[r:r + 1])
            nxt = node.above if p[0, 1] > node.threshold else node.below
            if abs(p[0, 1] - node.threshold) <= tol:
                # tie within rounding: the code evaluates the member classifier on a batch, this harness on one row, and BLAS
                # may round the two differently (thresholds of 'intercept_sort_always' ARE training probabilities): either side
                # is accepted - the side the code took is read off the marks (a missing child on that side ends the path)
                marked_children = [ch for ch in (node.above, node.below) if ch is not None and path[r, ch.index] != 0]
                nxt = marked_children[0] if marked_children else None
                if nxt is None:
                    # the path the code took ends here; probabilities are then those of this node, up to the same rounding
                    break
            if nxt is None:
                break
            node = nxt
        marked = sorted(numpy.where(path[r] != 0)[0].tolist())
        if marked != sorted(expected):
            return dict(**{"class": "decision-path"}, what="row %d: marked nodes %r, path %r" % (r, marked, expected))
        if not numpy.allclose(P[r], p[0], rtol=0, atol=tol):
            return dict(**{"class": "proba-vs-path"}, what="row %d: predict_proba is not the classifier ending its path (node %d)" % (r, node.index))
    return None


def replay(cex):
    if "case" in cex and "inputs" not in cex:
        f = check(cex["case"])
        return dict(fails=f is not None, observed=f)
    for c in cases("quick", 0):
        try:
            f = check(c)
        except Exception as e:
            f = dict(**{"class": "exception:" + type(e).__name__}, what=str(e))
        if f is not None:
            return dict(fails=True, observed=f, lifted_case=c)
    return dict(fails=False, note="no failing input on the quick domain")


if __name__ == "__main__":
    main("C10", cases, check, replay,
         rule="4 (8) seeds x max_depth in {1,2,3,5} x 3 fit_improve_algo values x label sets, plus XOR data with decision-stump members (probability ties "
              "at the threshold); path recomputed node by node from the member classifiers")
