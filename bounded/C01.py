"""Bounded stand-in for C01 (labelled bounded): get_params/set_params/clone on the real classes."""
NEEDS_CYTHON = False
import sys, os
sys.path.insert(0, os.path.dirname(os.path.dirname(os.path.abspath(__file__))))
import numpy
from bounded.common import main


def configs():
    from sklearn.linear_model import LogisticRegression, LinearRegression, Ridge
    from sklearn.tree import DecisionTreeClassifier, DecisionTreeRegressor
    from sklearn.cluster import KMeans, MiniBatchKMeans
    from sklearn.preprocessing import KBinsDiscretizer
    from mlinsights.sklapi import SkBaseTransformLearner, SkBaseTransformStacking
    from mlinsights.sklapi.sklearn_base import SkBase
    from mlinsights import mlmodel as mm
    from mlinsights.timeseries.ar import ARTimeSeriesRegressor
    from mlinsights.timeseries.dummies import DummyTimeSeriesRegressor
    out = []

    def add(name, a, b, kind=None):
        out.append((name, a, b, kind))
    add("SkBase", lambda: SkBase(pa1=1, pa2="z"), lambda: SkBase(pa1=5, pa2="y"))
    add("Learner", lambda: SkBaseTransformLearner(LogisticRegression(C=3.0), "predict", extra=1),
        lambda: SkBaseTransformLearner(DecisionTreeClassifier(max_depth=2), "predict_proba", extra=2), "clf-transform")
    for m in (1, 3, 10, 12):
        add("Stacking%d" % m, lambda m=m: SkBaseTransformStacking([Ridge(alpha=float(i + 1)) for i in range(m)], "predict", extra=1),
            lambda m=m: SkBaseTransformStacking([Ridge(alpha=float(10 * i + 7)) for i in range(m)], "predict", extra=3), "reg-transform")
    # the parameters of an instance with MORE (fewer) members given to one with fewer (more): the models list and the members' parameters at once
    add("Stacking2<-3", lambda: SkBaseTransformStacking([Ridge(alpha=float(i + 1)) for i in range(2)], "predict", extra=1),
        lambda: SkBaseTransformStacking([Ridge(alpha=float(10 * i + 7)) for i in range(3)], "predict", extra=3), "reg-transform")
    add("Stacking3<-2", lambda: SkBaseTransformStacking([Ridge(alpha=float(i + 1)) for i in range(3)], "predict", extra=1),
        lambda: SkBaseTransformStacking([Ridge(alpha=float(10 * i + 7)) for i in range(2)], "predict", extra=3), "reg-transform")
    add("ClassifierAfterKMeans", lambda: mm.ClassifierAfterKMeans(LogisticRegression(C=2.0), MiniBatchKMeans(n_clusters=2, n_init=1, random_state=0)),
        lambda: mm.ClassifierAfterKMeans(LogisticRegression(C=0.5), MiniBatchKMeans(n_clusters=3, n_init=1, random_state=1)), "clf")
    add("ClassifierAfterKMeans-default", lambda: mm.ClassifierAfterKMeans(c_n_clusters=3, c_random_state=0, c_n_init=1), lambda: mm.ClassifierAfterKMeans(e_C=4.0), "clf")
    add("IntervalRegressor", lambda: mm.IntervalRegressor(LinearRegression(), n_estimators=3, alpha=1),
        lambda: mm.IntervalRegressor(Ridge(), n_estimators=5, alpha=0.5))
    add("QuantileLinearRegression", lambda: mm.QuantileLinearRegression(quantile=0.3, max_iter=4), lambda: mm.QuantileLinearRegression(), "reg")
    add("QuantileMLPRegressor", lambda: mm.QuantileMLPRegressor(hidden_layer_sizes=(3,), max_iter=5), lambda: mm.QuantileMLPRegressor())
    add("KMeansL1L2", lambda: mm.KMeansL1L2(3, norm="L1", random_state=0, n_init=2), lambda: mm.KMeansL1L2(2, norm="L2"))
    add("ConstraintKMeans", lambda: mm.ConstraintKMeans(3, strategy="distance", random_state=0, max_iter=8), lambda: mm.ConstraintKMeans(2))
    add("PiecewiseRegressor", lambda: mm.PiecewiseRegressor(DecisionTreeRegressor(max_depth=1), LinearRegression()),
        lambda: mm.PiecewiseRegressor("bins"), "reg")
    add("PiecewiseClassifier", lambda: mm.PiecewiseClassifier("bins", LogisticRegression(C=2.0), random_state=3), lambda: mm.PiecewiseClassifier())
    add("DecisionTreeLogisticRegression", lambda: mm.DecisionTreeLogisticRegression(max_depth=2, fit_improve_algo="none"),
        lambda: mm.DecisionTreeLogisticRegression(), "clf")
    add("ExtendedFeatures", lambda: mm.ExtendedFeatures(poly_degree=3, poly_interaction_only=True), lambda: mm.ExtendedFeatures())
    add("CategoriesToIntegers", lambda: mm.CategoriesToIntegers(columns=["a"], single=True), lambda: mm.CategoriesToIntegers())
    add("PredictableTSNE", lambda: mm.PredictableTSNE(normalizer=None, keep_tsne_outputs=True), lambda: mm.PredictableTSNE())
    add("TransferTransformer", lambda: mm.TransferTransformer(LogisticRegression(), "predict_proba"), lambda: mm.TransferTransformer(Ridge()))
    add("TransformedTargetRegressor2", lambda: mm.TransformedTargetRegressor2(Ridge(), "log"), lambda: mm.TransformedTargetRegressor2(transformer="exp"))
    add("TransformedTargetClassifier2", lambda: mm.TransformedTargetClassifier2(LogisticRegression(), "permute"), lambda: mm.TransformedTargetClassifier2(transformer="permute"))
    add("FunctionReciprocalTransformer", lambda: mm.FunctionReciprocalTransformer("log"), lambda: mm.FunctionReciprocalTransformer("exp"))
    add("PermutationReciprocalTransformer", lambda: mm.PermutationReciprocalTransformer(3, closest=True), lambda: mm.PermutationReciprocalTransformer())
    add("ApproximateNMFPredictor", lambda: mm.ApproximateNMFPredictor(n_components=2, max_iter=50), lambda: mm.ApproximateNMFPredictor())
    add("ARTimeSeriesRegressor", lambda: ARTimeSeriesRegressor(LinearRegression(), past=2), lambda: ARTimeSeriesRegressor())
    add("DummyTimeSeriesRegressor", lambda: DummyTimeSeriesRegressor(past=2), lambda: DummyTimeSeriesRegressor())
    try:
        from mlinsights.mlmodel import PiecewiseTreeRegressor
        add("PiecewiseTreeRegressor", lambda: PiecewiseTreeRegressor(criterion="simple", max_depth=2), lambda: PiecewiseTreeRegressor())
    except Exception:
        pass
    return out


def cases(tier, seed):
    for name, _, _, _ in configs():
        for op in ("clone", "roundtrip", "each-key"):
            yield dict(name=name, op=op)


def same_params(p, q):
    if set(p) != set(q):
        return "key sets differ: %r" % sorted(set(p) ^ set(q))
    for k in p:
        a, b = p[k], q[k]
        if a is b:
            continue
        if hasattr(a, "get_params") and hasattr(b, "get_params"):
            if type(a) is not type(b):
                return "%s: %s vs %s" % (k, type(a).__name__, type(b).__name__)
            r = same_params(a.get_params(), b.get_params())
            if r:
                return "%s.%s" % (k, r)
        elif isinstance(a, list) and isinstance(b, list):
            if len(a) != len(b):
                return "%s: list length" % k
            for x, y in zip(a, b):
                if hasattr(x, "get_params"):
                    r = same_params(x.get_params(), y.get_params())
                    if r:
                        return "%s[].%s" % (k, r)
                elif x != y:
                    return "%s: list item" % k
        else:
            try:
                if not (a == b) and not (a != a and b != b):
                    return "%s: %r != %r" % (k, a, b)
            except Exception:
                if repr(a) != repr(b):
                    return "%s: %r != %r" % (k, a, b)
    return None


def outputs(est, kind):
    rs = numpy.random.RandomState(0)
    X = rs.randn(30, 3)
    y = (X[:, 0] + X[:, 1] > 0).astype(int)
    yr = X[:, 0] * 2 + 1
    if kind == "clf":
        est.fit(X, y)
        return est.predict(X)
    if kind == "reg":
        est.fit(X, yr)
        return est.predict(X)
    if kind == "clf-transform":
        est.fit(X, y)
        return est.transform(X)
    if kind == "reg-transform":
        est.fit(X, yr)
        return est.transform(X)
    return None


def check(c):
    from sklearn.base import clone
    cfg = [x for x in configs() if x[0] == c["name"]][0]
    name, mk_a, mk_b, kind = cfg
    a = mk_a()
    if c["op"] == "clone":
        b = clone(a)
        if b is a:
            return dict(**{"class": "clone-not-fresh"}, what="clone returned the object itself")
        r = same_params(a.get_params(), b.get_params())
        if r:
            return dict(**{"class": "clone-params"}, what="clone reports different parameters: " + r)
        # a real-valued parameter given as a numpy scalar (what numpy.linspace / a parameter grid yields): the constructor must keep
        # the object it is given, otherwise scikit-learn's clone refuses the estimator (RuntimeError "... modifies parameter")
        for k, v in sorted(a.get_params(deep=False).items()):
            if isinstance(v, float) and not isinstance(v, bool):
                a2 = mk_a()
                given = numpy.float64(v)
                a2.set_params(**{k: given})
                try:
                    b2 = clone(a2)
                except RuntimeError as e:
                    return dict(**{"class": "clone-refuses-numpy-scalar"}, what="clone after set_params(%s=numpy.float64(%r)): %s" % (k, v, str(e)[:160]))
                if b2.get_params(deep=False)[k] != given:
                    return dict(**{"class": "clone-params"}, what="clone reports %s=%r, given numpy.float64(%r)" % (k, b2.get_params(deep=False)[k], v))
        return None
    if c["op"] == "roundtrip":
        b = mk_b()
        r0 = b.set_params(**a.get_params(deep=True))
        if r0 is not b:
            return dict(**{"class": "set_params-returns"}, what="set_params does not return the estimator")
        r = same_params(a.get_params(deep=True), b.get_params(deep=True))
        if r:
            return dict(**{"class": "roundtrip-params"}, what="after set_params(**get_params) the parameters differ: " + r)
        if kind is not None:
            oa, ob = outputs(clone(a), kind), outputs(clone(b), kind)
            if not numpy.array_equal(numpy.asarray(oa), numpy.asarray(ob)):
                return dict(**{"class": "roundtrip-behaviour"}, what="outputs differ after the round trip")
            # the instance itself (not a clone rebuilt from its parameters) behaves like the source, whatever it was configured with
            # before: a differently configured one (b) and one with the same configuration but its own objects (b2)
            b2 = mk_a()
            b2.set_params(**mk_a().get_params(deep=True))
            for who, inst in (("a differently configured instance", b), ("an instance of the same configuration", b2)):
                try:
                    oi = outputs(inst, kind)
                except Exception as e:
                    return dict(**{"class": "roundtrip-behaviour"}, what="%s fails after the round trip: %s: %s" % (who, type(e).__name__, str(e)[:120]))
                if not numpy.array_equal(numpy.asarray(oa), numpy.asarray(oi)):
                    return dict(**{"class": "roundtrip-behaviour"}, what="outputs of %s differ after the round trip" % who)
        return None
    # each-key: setting one advertised key to the value another instance reports changes that key only
    src = mk_a().get_params(deep=True)
    for k in sorted(src):
        b = mk_b()
        before = b.get_params(deep=True)
        if k not in before:
            continue
        if "__" in k and hasattr(before.get(k.split("__")[0]), "get_params") and \
                type(before.get(k.split("__")[0])) is not type(src.get(k.split("__")[0])):
            continue          # nested parameter of a different inner class
        try:
            r0 = b.set_params(**{k: src[k]})
        except Exception as e:
            return dict(**{"class": "set_params-rejects-advertised-key"}, what="key %r advertised by get_params is rejected: %s: %s" % (k, type(e).__name__, e))
        if r0 is not b:
            return dict(**{"class": "set_params-returns"}, what="set_params(%s=) does not return the estimator" % k)
        after = b.get_params(deep=True)
        r = same_params({k: src[k]}, {k: after.get(k)})
        if r:
            return dict(**{"class": "key-not-set"}, what="set_params(%s=) not reported by get_params: %s" % (k, r))
        if not hasattr(src[k], "get_params") and not isinstance(src[k], list):
            rest_b = {x: v for x, v in before.items() if x != k}
            rest_a = {x: v for x, v in after.items() if x != k}
            r = same_params(rest_b, rest_a)
            if r:
                return dict(**{"class": "other-key-changed"}, what="set_params(%s=) changed another key: %s" % (k, r))
    return None


def replay(cex):
    if "case" in cex and "inputs" not in cex:
        f = check(cex["case"])
        return dict(fails=f is not None, observed=f)
    for c in cases("quick", 0):
        try:
            f = check(c)
        except Exception as e:
            f = dict(**{"class": "exception:" + type(e).__name__}, what=str(e))
        if f is not None:
            return dict(fails=True, observed=f, lifted_case=c)
    return dict(fails=False, note="no failing input on the bounded domain")


if __name__ == "__main__":
    main("C01", cases, check, replay,
         rule="every exported estimator class (2 configurations each; stacking of 1, 3, 10, 12 members) x {clone, set_params(**get_params) "
              "round trip incl. behaviour, one advertised key at a time}; each (class, operation) is a distinct non-trivial case")
