"""Bounded stand-in for C17 (labelled bounded): IntervalRegressor on the real code with a recording base regressor."""
NEEDS_CYTHON = False
import sys, os
sys.path.insert(0, os.path.dirname(os.path.dirname(os.path.abspath(__file__))))
import numpy
from sklearn.base import BaseEstimator, RegressorMixin
from bounded.common import main, to_array


class Rec(BaseEstimator, RegressorMixin):
    """records its training set; predicts mean(y) + first feature (deterministic, model dependent)"""

    def __init__(self, tag=0):
        self.tag = tag

    def fit(self, X, y, sample_weight=None):
        self.X_, self.y_, self.w_ = numpy.array(X), numpy.array(y), None if sample_weight is None else numpy.array(sample_weight)
        self.m_ = float(numpy.mean(y)) if len(y) else 0.0
        return self

    def predict(self, X):
        return self.m_ + numpy.asarray(X)[:, 0]


def cases(tier, seed):
    ns = (1, 2, 3, 10) if tier == "quick" else (1, 2, 3, 4, 5, 10, 25)
    for n in ns:
        for alpha in (0.5, 1.0, 2.0):
            for has_w in (False, True):
                for n_est in ((1, 40) if tier == "quick" else (1, 3, 40, 120)):
                    yield dict(n=n, alpha=alpha, has_w=has_w, n_estimators=n_est, seed=seed)


def check(c):
    from mlinsights.mlmodel import IntervalRegressor
    n = c["n"]
    X = numpy.arange(n * 2, dtype=float).reshape(n, 2) + 1
    y = numpy.arange(n, dtype=float) * 10 + 5
    w = (numpy.arange(n, dtype=float) + 100) if c["has_w"] else None
    X0, y0 = X.copy(), y.copy()
    numpy.random.seed(c["seed"] + 7)
    base = Rec()
    m = IntervalRegressor(base, alpha=c["alpha"], n_estimators=c["n_estimators"])
    r = m.fit(X, y, sample_weight=w)
    if r is not m:
        return dict(**{"class": "fit-returns"}, what="fit does not return self")
    if len(m.estimators_) != c["n_estimators"] or m.n_estimators_ != c["n_estimators"]:
        return dict(**{"class": "n_estimators"}, what="%d models" % len(m.estimators_))
    if hasattr(base, "X_"):
        return dict(**{"class": "base-fitted"}, what="the given estimator was fitted in place")
    size = int(n * c["alpha"] + 0.5)
    seen = set()
    for e in m.estimators_:
        if e.X_.shape[0] != size or len(e.y_) != size:
            return dict(**{"class": "sample-size"}, what="replicate has %d rows, expected %d" % (e.X_.shape[0], size))
        for k in range(size):
            idx = int(round((e.y_[k] - 5) / 10))
            if not (0 <= idx < n) or not numpy.array_equal(e.X_[k], X0[idx]) or e.y_[k] != y0[idx] or \
                    (w is not None and e.w_[k] != w[idx]) or (w is None and e.w_ is not None):
                return dict(**{"class": "row-kept-together"}, what="row %d of a replicate is not a training row with its target/weight" % k)
            seen.add(idx)
    if c["n_estimators"] * size >= 40 * max(n, 1) and size > 0 and len(seen) != n:
        return dict(**{"class": "row-not-eligible"}, what="rows %r never drawn in %d draws" % (sorted(set(range(n)) - seen), c["n_estimators"] * size))
    Q = numpy.array([[0.5, 1.0], [2.0, -1.0], [7.0, 3.0]])
    allp = m.predict_all(Q)
    exp = numpy.array([e.predict(Q) for e in m.estimators_]).T
    if allp.shape != (3, c["n_estimators"]) or not numpy.array_equal(allp, exp):
        return dict(**{"class": "predict_all"}, what="predict_all is not the matrix of individual predictions")
    # a batch with exactly as many rows as there are estimators (and one more): the matrix must not be read the other way round
    for nb in (c["n_estimators"], c["n_estimators"] + 1):
        Qs = numpy.column_stack([numpy.linspace(0, 7, nb), numpy.linspace(1, -2, nb)])
        alls, exps = m.predict_all(Qs), numpy.array([e.predict(Qs) for e in m.estimators_]).T
        if alls.shape != (nb, c["n_estimators"]) or not numpy.array_equal(alls, exps):
            return dict(**{"class": "predict_all"}, what="a batch of %d rows, %d estimators: predict_all is not the matrix of individual predictions" % (nb, c["n_estimators"]))
        if not numpy.allclose(m.predict(Qs), exps.mean(axis=1), rtol=0, atol=1e-9):
            return dict(**{"class": "predict-mean"}, what="a batch of %d rows, %d estimators: predict is not the mean" % (nb, c["n_estimators"]))
    p = m.predict(Q)
    if not numpy.allclose(p, exp.mean(axis=1), rtol=0, atol=1e-9):
        return dict(**{"class": "predict-mean"}, what="predict is not the mean")
    s = m.predict_sorted(Q)
    if not numpy.array_equal(s, numpy.sort(exp, axis=1)):
        return dict(**{"class": "predict_sorted"}, what="predict_sorted is not the sorted individual predictions")
    if not (numpy.all(s[:, 0] <= p + 1e-9) and numpy.all(p <= s[:, -1] + 1e-9)):
        return dict(**{"class": "min-mean-max"}, what="min <= predict <= max violated")
    for Qi in (numpy.array([[1, 2], [3, -1], [7, 3]], dtype=numpy.int64), numpy.array([[0.25, 1.0], [2.5, -1.0]], dtype=numpy.float32)):
        # the dtype of the query batch must not change what is stored (m_ is rarely an integer: an integer container truncates)
        expi = numpy.array([e.predict(Qi) for e in m.estimators_], dtype=float).T
        alli = m.predict_all(Qi)
        if alli.shape != expi.shape or not numpy.allclose(alli, expi, rtol=0, atol=1e-4):
            return dict(**{"class": "predict_all-dtype"}, what="predict_all on a %s batch is not the matrix of individual predictions" % Qi.dtype)
    if not (numpy.array_equal(X, X0) and numpy.array_equal(y, y0)):
        return dict(**{"class": "input-mutated"}, what="training data modified")
    return None


def replay(cex):
    if "case" in cex and "inputs" not in cex:
        f = check(cex["case"])
        return dict(fails=f is not None, observed=f)
    inp = cex.get("inputs") or {}
    fn = cex.get("function", "")
    if fn.endswith("_fit_piecewise_estimator") or fn.endswith("IntervalRegressor.fit"):
        # lift to the public API: same n (and weights) as the counterexample, many replicates
        X = to_array(inp["X"])
        n = X.shape[0]
        alpha = inp.get("alpha", 1.0)
        if isinstance(alpha, dict) or alpha is None or not alpha or alpha <= 0:
            alpha = 1.0
        c = dict(n=int(n), alpha=max(float(alpha), 1.0), has_w=inp.get("sample_weight") is not None, n_estimators=40, seed=0)
        try:
            f = check(c)
        except Exception as e:
            f = dict(**{"class": "exception:" + type(e).__name__}, what=str(e))
        return dict(fails=f is not None, observed=f, lifted_case=c)
    return dict(fails=False, note="no replay for %r" % fn)


if __name__ == "__main__":
    main("C17", cases, check, replay,
         rule="n in {1,2,3,10[,..]} x alpha in {.5,1,2} x weights x n_estimators; recording base regressor with identifiable rows; "
              "non-trivial when at least one row is drawn (size>=1)",
         nontrivial=lambda c: int(c["n"] * c["alpha"] + 0.5) >= 1)
