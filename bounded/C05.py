"""Bounded stand-in for C05 (labelled bounded): QuantileLinearRegression on the real code."""
NEEDS_CYTHON = False
import sys, os
sys.path.insert(0, os.path.dirname(os.path.dirname(os.path.abspath(__file__))))
import numpy
from bounded.common import main, to_array


def cases(tier, seed):
    seeds = range(2) if tier == "quick" else range(6)
    for s in seeds:
        for q in (0.1, 0.25, 0.5, 0.75, 0.9):
            for has_w in (False, True):
                for fi in (True, False):
                    for n in ((12, 40) if tier == "quick" else (5, 12, 40, 100)):
                        yield dict(seed=seed * 100 + s, q=q, has_w=has_w, fit_intercept=fi, n=n, positive=(s % 2 == 1))
    for s in seeds:
        for q in (0.2, 0.5, 0.8):
            # features stored as integers, real-valued targets: the same fit as with the same numbers stored as floats
            yield dict(seed=seed * 100 + s, q=q, has_w=(s % 2 == 1), fit_intercept=True, n=30, positive=False, int_features=True)


def pinball2(q, y, f, w):
    e = y - f
    l = q * numpy.maximum(e, 0) + (1 - q) * numpy.maximum(-e, 0)
    if w is None:
        return 2 * l.mean()
    return 2 * (l * w).sum() / w.sum()


def check(c):
    from mlinsights.mlmodel import QuantileLinearRegression
    from sklearn.metrics import mean_absolute_error
    rs = numpy.random.RandomState(c["seed"])
    n = c["n"]
    X = rs.randn(n, 2)
    if c.get("int_features"):
        X = rs.randint(-4, 5, (n, 2)).astype(numpy.int64)
    y = X[:, 0] * 2 - X[:, 1] + 0.5 + rs.randn(n)
    if (c["seed"] + n) % 2 == 1 and not c.get("int_features"):
        y = numpy.round(y * 3).astype(numpy.int64)      # targets stored as integers: scored like the same real numbers
    w = rs.randint(1, 4, n).astype(float) if c["has_w"] else None
    X0, y0, w0 = X.copy(), y.copy(), None if w is None else w.copy()
    m = QuantileLinearRegression(quantile=c["q"], fit_intercept=c["fit_intercept"], positive=c["positive"])
    p0 = m.get_params()
    r = m.fit(X, y, sample_weight=w)
    if r is not m:
        return dict(**{"class": "fit-returns"}, what="fit does not return self")
    if not (0 <= m.n_iter_ < m.max_iter):
        return dict(**{"class": "n_iter"}, what="n_iter_=%r" % m.n_iter_)
    if not c["fit_intercept"] and m.intercept_ != 0:
        return dict(**{"class": "intercept"}, what="intercept_=%r with fit_intercept=False" % m.intercept_)
    if c["positive"] and not numpy.all(m.coef_ >= 0):
        return dict(**{"class": "positive"}, what="negative coefficient with positive=True")
    sc = m.score(X, y, sample_weight=w)
    f = m.predict(X)
    exp = pinball2(c["q"], y, f, w) if c["q"] != 0.5 else mean_absolute_error(y, f, sample_weight=w)
    if not abs(sc - exp) <= 1e-9 * max(1.0, abs(exp)):
        return dict(**{"class": "score-is-twice-pinball"}, what="score=%r, twice the mean pinball loss of q=%r is %r" % (sc, c["q"], exp))
    if c["q"] == 0.5 and not abs(sc - pinball2(0.5, y, f, w)) <= 1e-9:
        return dict(**{"class": "score-mae"}, what="MAE differs from twice the 0.5-pinball loss")
    if m.get_params() != p0:
        return dict(**{"class": "params-changed"}, what="get_params changed by fit/score")
    if not (numpy.array_equal(X, X0) and numpy.array_equal(y, y0) and (w is None or numpy.array_equal(w, w0))):
        return dict(**{"class": "input-mutated"}, what="training data modified")
    if c.get("int_features"):
        mf = QuantileLinearRegression(quantile=c["q"], fit_intercept=c["fit_intercept"], positive=c["positive"]).fit(X.astype(float), y, sample_weight=w)
        if not numpy.allclose(mf.coef_, m.coef_, rtol=0, atol=1e-9) or abs(mf.intercept_ - m.intercept_) > 1e-9:
            return dict(**{"class": "integer-features-fit-differs"}, what="features stored as int64: coef %r intercept %r, as float64: %r %r"
                        % (m.coef_.tolist(), float(m.intercept_), mf.coef_.tolist(), float(mf.intercept_)))
    # integer weights == repeated rows: both runs execute the same number of IRLS steps from data that
    # are equivalent for every weighted least-squares step, so coefficients agree up to rounding
    if w is not None and c["q"] == 0.5 and not c["positive"]:
        rep = numpy.repeat(numpy.arange(n), w.astype(int))
        m2 = QuantileLinearRegression(quantile=c["q"], fit_intercept=c["fit_intercept"]).fit(X[rep], y[rep])
        if not numpy.allclose(m2.coef_, m.coef_, rtol=0, atol=1e-6) or abs(m2.intercept_ - m.intercept_) > 1e-6:
            return dict(**{"class": "weights-vs-repeated-rows"}, what="weighted %r vs repeated rows %r" % (m.coef_.tolist(), m2.coef_.tolist()))
    return None


def replay(cex):
    if "case" in cex and "inputs" not in cex:
        f = check(cex["case"])
        return dict(fails=f is not None, observed=f)
    inp = cex.get("inputs") or {}
    fn = cex.get("function", "")
    from mlinsights.mlmodel import QuantileLinearRegression
    try:
        if fn.endswith("_epsilon"):
            y, p = to_array(inp["y_true"]).astype(float), to_array(inp["y_pred"]).astype(float)
            q = float(inp["quantile"])
            w = None if inp.get("sample_weight") is None else to_array(inp["sample_weight"]).astype(float)
            eps, mult = QuantileLinearRegression._epsilon(y, p, q, w)
            exp_e = numpy.abs(p - y) * (1 if w is None else w)
            ok = numpy.allclose(eps, exp_e)
            if q != 0.5:
                exp_m = numpy.where(p > y, q, numpy.where(p < y, 1 - q, 1.0))
                ok = ok and mult is not None and numpy.allclose(mult, exp_m)
            else:
                ok = ok and mult is None
            return dict(fails=not ok, observed=dict(eps=eps.tolist(), mult=None if mult is None else mult.tolist()))
        # anything else: lift to the public API on the bounded domain
        for c in cases("quick", 0):
            f = check(c)
            if f is not None:
                return dict(fails=True, observed=f, lifted_case=c)
        return dict(fails=False, note="no failing input found on the quick domain")
    except Exception as e:
        return dict(fails=True, observed="%s: %s" % (type(e).__name__, e))


if __name__ == "__main__":
    main("C05", cases, check, replay,
         rule="seeds x q in {.1,.25,.5,.75,.9} x weights x fit_intercept x n; exact comparison of score with twice the (weighted) mean "
              "pinball loss of the fitted model; every case is a distinct data set (non-trivial: n > number of coefficients)")
