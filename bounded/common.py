"""Shared driver of the bounded stand-ins (run under /venv/bin/python inside a fresh overlay of
/repo's working tree).  A stand-in enumerates an explicit finite domain, evaluates *exact*
predicates taken from the property text on the real code, and reports:
evaluations, distinct non-trivial cases, samples, failures (each with a `class` string used to
match KNOWN_FINDINGS.json), and the re-run of pinned known-finding witnesses.
Bounded results are labelled bounded in the evidence and are never counted as proved."""
import argparse
import json
import os
import sys
import traceback
import warnings

HERE = os.path.dirname(os.path.dirname(os.path.abspath(__file__)))


def known_findings(prop):
    p = os.path.join(HERE, "KNOWN_FINDINGS.json")
    if not os.path.exists(p):
        return []
    with open(p) as f:
        return [k for k in json.load(f)["findings"] if k["property"] == prop and k.get("status") == "known"]


def jsonable(x):
    import numpy
    if isinstance(x, numpy.ndarray):
        return x.tolist()
    if isinstance(x, (numpy.integer,)):
        return int(x)
    if isinstance(x, (numpy.floating,)):
        return float(x)
    if isinstance(x, (numpy.bool_,)):
        return bool(x)
    if isinstance(x, dict):
        return {str(k): jsonable(v) for k, v in x.items()}
    if isinstance(x, (list, tuple)):
        return [jsonable(v) for v in x]
    if isinstance(x, (int, float, str, bool)) or x is None:
        return x
    return repr(x)


def to_array(v):
    """inverse of pyvc.run.concretize for ndarrays"""
    import numpy
    if isinstance(v, dict) and "ndarray" in v:
        def conv(x):
            if isinstance(x, list):
                return [conv(y) for y in x]
            return float("nan") if x == "nan" else x
        dt = {"real": float, "int": numpy.int64, "bool": bool}[v.get("kind", "real")]
        a = numpy.array(conv(v["ndarray"]), dtype=dt)
        return a.reshape(v["shape"]) if a.size == 0 else a
    return v


def main(prop, cases, check, replay=None, rule="", nontrivial=None, key=None):
    """cases(tier, seed) yields case dicts; check(case) returns None or a failure dict
    {class:..., what:...}; replay(inputs) -> {fails: bool, ...}"""
    ap = argparse.ArgumentParser()
    ap.add_argument("--tier", default="quick")
    ap.add_argument("--seed", type=int, default=0)
    ap.add_argument("--out", required=True)
    ap.add_argument("--replay", default=None)
    args = ap.parse_args()
    warnings.simplefilter("ignore")
    out = {}
    try:
        if args.replay:
            with open(args.replay) as f:
                case = json.load(f)
            out = replay(case) if replay is not None else dict(fails=False, note="no replay function")
            out = jsonable(out)
        else:
            n = 0
            distinct = set()
            samples = []
            failures = []
            for case in cases(args.tier, args.seed):
                n += 1
                try:
                    fail = check(case)
                except Exception as e:     # an exception of the real code on a valid input is a failure
                    fail = dict(**{"class": "exception:" + type(e).__name__},
                                what="%s: %s" % (type(e).__name__, e), tb=traceback.format_exc()[-1200:])
                k = json.dumps(jsonable(key(case) if key else case), sort_keys=True, default=str)
                if nontrivial is None or nontrivial(case):
                    distinct.add(k)
                if len(samples) < 5 and (n % 7 == 1):
                    samples.append(jsonable(case))
                if fail is not None:
                    fail = dict(fail)
                    fail["case"] = jsonable(case)
                    failures.append(jsonable(fail))
            kw = []
            for k in known_findings(prop):
                if "witness" in k and k.get("bounded_class"):
                    try:
                        f = check(k["witness"])
                    except Exception as e:
                        f = dict(**{"class": "exception:" + type(e).__name__}, what=str(e))
                    kw.append(dict(**{"class": k["bounded_class"]}, still_fails=f is not None,
                                   observed=jsonable(f)))
            out = dict(label="bounded", evaluations=n, distinct_nontrivial=len(distinct), rule=rule,
                       samples=samples, failures=failures[:50], n_failures=len(failures), known_witnesses=kw,
                       tier=args.tier, seed=args.seed)
    except Exception as e:
        out = dict(error="%s: %s\n%s" % (type(e).__name__, e, traceback.format_exc()[-2500:]))
    with open(args.out, "w") as f:
        json.dump(out, f, default=str)
