"""Bounded stand-in for C15 (labelled bounded): wrappers on real scikit-learn models."""
NEEDS_CYTHON = False
import sys, os
sys.path.insert(0, os.path.dirname(os.path.dirname(os.path.abspath(__file__))))
import numpy
from bounded.common import main


def models():
    from sklearn.linear_model import LogisticRegression, LinearRegression
    from sklearn.tree import DecisionTreeClassifier
    from sklearn.decomposition import PCA
    from sklearn.neighbors import KNeighborsRegressor
    from sklearn.preprocessing import StandardScaler
    return {"logreg": (LogisticRegression, ["predict", "predict_proba", "decision_function"], "clf"),
            "tree": (lambda: DecisionTreeClassifier(random_state=0), ["predict", "predict_proba"], "clf"),
            "linreg": (LinearRegression, ["predict"], "reg"),
            "knn": (lambda: KNeighborsRegressor(n_neighbors=2), ["predict"], "reg"),
            "pca": (lambda: PCA(n_components=2), ["transform"], "none"),
            "scaler": (StandardScaler, ["transform"], "none")}


def cases(tier, seed):
    for name, (_, methods, _) in models().items():
        for m in methods:
            yield dict(kind="learner", model=name, method=m)
            for copy in (True, False):
                for trainable in (True, False):
                    yield dict(kind="transfer", model=name, method=m, copy=copy, trainable=trainable)
    yield dict(kind="learner-callable")
    for k in (1, 2, 3):
        yield dict(kind="stacking", k=k)
    for order in ("int-first", "float-first"):
        yield dict(kind="stacking-mixed", order=order)
    for supervised in (False, True):
        yield dict(kind="fit-transform-kwargs", supervised=supervised)


def data(kind):
    rs = numpy.random.RandomState(0)
    X = rs.randn(30, 3)
    y = (X[:, 0] > 0).astype(int) if kind == "clf" else X[:, 0] * 2 + 1
    X2 = rs.randn(20, 3) + 1
    y2 = (X2[:, 1] > 1).astype(int) if kind == "clf" else X2[:, 1] - 3
    return X, y, X2, y2


def check(c):
    from mlinsights.sklapi import SkBaseTransformLearner, SkBaseTransformStacking
    from mlinsights.mlmodel import TransferTransformer
    if c["kind"] == "learner-callable":
        from sklearn.linear_model import LinearRegression
        X, y, _, _ = data("reg")
        m = LinearRegression()
        w = SkBaseTransformLearner(m, method=lambda A: A[:, :2] * 2)
        w.fit(X, y)
        if not numpy.array_equal(w.transform(X), X[:, :2] * 2):
            return dict(**{"class": "callable"}, what="callable output altered")
        return None
    if c["kind"] == "stacking":
        from sklearn.linear_model import LogisticRegression
        from sklearn.tree import DecisionTreeClassifier
        from sklearn.preprocessing import StandardScaler
        X, y, _, _ = data("clf")
        members = [LogisticRegression(), StandardScaler(), DecisionTreeClassifier(random_state=0)][:c["k"]]
        st = SkBaseTransformStacking(members, "predict_proba")
        if st.fit(X, y) is not st:
            return dict(**{"class": "fit-returns"}, what="fit does not return self")
        direct = [LogisticRegression().fit(X, y).predict_proba(X), StandardScaler().fit(X, y).transform(X),
                  DecisionTreeClassifier(random_state=0).fit(X, y).predict_proba(X)][:c["k"]]
        if not numpy.allclose(st.transform(X), numpy.hstack(direct), rtol=0, atol=1e-12):
            return dict(**{"class": "stacking-concat"}, what="transform is not the column concatenation of the members' outputs")
        return None
    if c["kind"] == "fit-transform-kwargs":
        # fit_transform (what a Pipeline calls on a step) trains the wrapped model like a direct fit: targets and fit arguments included
        from sklearn.preprocessing import StandardScaler
        from sklearn.linear_model import LinearRegression
        X, y, _, _ = data("reg")
        w = numpy.linspace(0.1, 3.0, len(X))
        if c["supervised"]:
            got = SkBaseTransformLearner(LinearRegression(), "predict").fit_transform(X, y, sample_weight=w)
            exp = LinearRegression().fit(X, y, sample_weight=w).predict(X).reshape(len(X), -1)
        else:
            got = SkBaseTransformLearner(StandardScaler(), "transform").fit_transform(X, sample_weight=w)
            exp = StandardScaler().fit(X, sample_weight=w).transform(X)
        if got.shape != exp.shape or not numpy.allclose(got, exp, rtol=0, atol=1e-12):
            return dict(**{"class": "fit-transform"}, what="fit_transform(%s, sample_weight=w) differs from fit(...).transform" % ("X, y" if c["supervised"] else "X"))
        return None
    if c["kind"] == "stacking-mixed":
        # members whose outputs have different dtypes (integer class labels, real-valued predictions): the concatenation keeps every value
        from sklearn.linear_model import LinearRegression
        from sklearn.tree import DecisionTreeClassifier
        X, y, _, _ = data("clf")
        mk = [lambda: DecisionTreeClassifier(random_state=0, max_depth=2), lambda: LinearRegression()]
        if c["order"] == "float-first":
            mk.reverse()
        st = SkBaseTransformStacking([f() for f in mk], "predict")
        st.fit(X, y)
        direct = [f().fit(X, y).predict(X).reshape(len(X), -1) for f in mk]
        out = st.transform(X)
        if out.shape != (len(X), 2) or not numpy.allclose(out, numpy.hstack(direct), rtol=0, atol=1e-12):
            return dict(**{"class": "stacking-concat"}, what="members of different dtypes (%s): transform is not the column concatenation of their outputs" % c["order"])
        return None
    factory, _, kind = models()[c["model"]]
    X, y, X2, y2 = data(kind)
    if c["kind"] == "learner":
        m = factory()
        w = SkBaseTransformLearner(m, c["method"])
        if w.fit(X, y) is not w:
            return dict(**{"class": "fit-returns"}, what="fit does not return self")
        direct = getattr(factory().fit(X, y), c["method"])(X)
        out = w.transform(X)
        if out.ndim != 2 or not numpy.allclose(out, direct.reshape(len(X), -1), rtol=0, atol=1e-12):
            return dict(**{"class": "learner-output"}, what="transform differs from the model's %s" % c["method"])
        # batches of 1, 2, 3 rows and of exactly as many rows as the output has columns (a square output must not be read the other way round)
        for nb in sorted({1, 2, 3, out.shape[1]}):
            Xb = X[5:5 + nb]
            db = getattr(factory().fit(X, y), c["method"])(Xb)
            ob = w.transform(Xb)
            if ob.shape != (nb, out.shape[1]) or not numpy.allclose(ob, numpy.asarray(db).reshape(nb, -1), rtol=0, atol=1e-12):
                return dict(**{"class": "learner-output"}, what="a batch of %d rows: transform differs from the model's %s" % (nb, c["method"]))
        return None
    orig = factory().fit(X, y)
    before = getattr(orig, c["method"])(X)
    t = TransferTransformer(orig, c["method"], copy_estimator=c["copy"], trainable=c["trainable"])
    try:
        r = t.fit(X2, y2)
    except AssertionError as e:
        import traceback
        if c["copy"] and "assert_estimator_equal" in traceback.format_exc():
            # the self-check of the copy cannot compare fitted attributes that have no value equality
            return dict(**{"class": "copy-self-check-rejects-model:" + c["model"]}, what="fit raises AssertionError in assert_estimator_equal: %s" % str(e)[:200])
        raise
    if r is not t:
        return dict(**{"class": "fit-returns"}, what="fit does not return self")
    after = getattr(orig, c["method"])(X)
    if c["copy"] and not numpy.array_equal(before, after):
        return dict(**{"class": "original-modified"}, what="copy_estimator=True but the original estimator changed")
    if not c["trainable"]:
        if not numpy.array_equal(t.transform(X), before.reshape(before.shape)):
            return dict(**{"class": "frozen-changed"}, what="trainable=False but the output changed after fit")
    else:
        direct = getattr(factory().fit(X2, y2), c["method"])(X)
        if not numpy.allclose(t.transform(X), direct, rtol=0, atol=1e-12):
            return dict(**{"class": "trainable-not-trained"}, what="trainable=True: output differs from a direct fit on the new data")
    return None


def replay(cex):
    if "case" in cex and "inputs" not in cex:
        f = check(cex["case"])
        return dict(fails=f is not None, observed=f)
    for c in cases("quick", 0):
        try:
            f = check(c)
        except Exception as e:
            f = dict(**{"class": "exception:" + type(e).__name__}, what=str(e))
        if f is not None:
            return dict(fails=True, observed=f, lifted_case=c)
    return dict(fails=False, note="no failing input on the quick domain")


if __name__ == "__main__":
    main("C15", cases, check, replay,
         rule="6 wrapped models x their methods x {learner wrapper, TransferTransformer with copy/trainable in {T,F}^2}, a callable, stacking of 1..3 members; "
              "exact comparison with the direct model; each (model, method, option) is distinct and non-trivial")
