"""Bounded stand-in for C18 (labelled bounded): non_linear_correlations and r2_score_comparable on the real code."""
NEEDS_CYTHON = False
import sys, os
sys.path.insert(0, os.path.dirname(os.path.dirname(os.path.abspath(__file__))))
import numpy
from bounded.common import main


def tables(seed):
    rs = numpy.random.RandomState(seed)
    a = rs.randn(40, 3)
    b = numpy.hstack([a[:, :2], (a[:, 0] * 2 + 1).reshape(-1, 1), numpy.ones((40, 1))])      # collinear + constant column
    c = rs.randint(0, 10, size=(40, 3))                                                       # integer table
    c[:, 2] = c[:, 0] * 3 + rs.randint(0, 2, 40)
    d = rs.randn(30, 1)
    return {"float3": a, "collinear+constant": b, "integer": c, "single-column": d}


def cases(tier, seed):
    for name in tables(seed):
        for model in ("linreg", "tree"):
            for minmax in (False, True):
                yield dict(kind="corr", table=name, model=model, minmax=minmax, seed=seed)
    for tr, inv in (("log", "log"), ("log", "exp"), (None, "exp"), ("exp", None), ("callable", "callable"), (None, None), ("sqrt", None), (5, None)):
        yield dict(kind="r2", tr=tr, inv_tr=inv)


def check(c):
    import pandas
    from mlinsights.metrics import non_linear_correlations
    from mlinsights.metrics.scoring_metrics import r2_score_comparable
    from sklearn.metrics import r2_score
    if c["kind"] == "r2":
        rs = numpy.random.RandomState(0)
        y, p = rs.rand(20) + 0.5, rs.rand(20) + 0.5
        fns = {"log": numpy.log, "exp": numpy.exp, "callable": numpy.sqrt, None: None}
        tr, inv = c["tr"], c["inv_tr"]
        args = dict(tr=numpy.sqrt if tr == "callable" else tr, inv_tr=numpy.sqrt if inv == "callable" else inv)
        try:
            v = r2_score_comparable(y, p, **args)
        except ValueError:
            return None if (tr is None and inv is None) else dict(**{"class": "r2-refused"}, what="valid call refused with ValueError")
        except TypeError:
            return None if (tr in ("sqrt", 5)) else dict(**{"class": "r2-refused"}, what="valid call refused with TypeError")
        if tr is None and inv is None or tr in ("sqrt", 5):
            return dict(**{"class": "r2-not-refused"}, what="invalid call accepted")
        f, g = fns[tr], fns[inv]
        exp = r2_score(y if f is None else f(y), p if g is None else g(p))
        if v != exp:
            return dict(**{"class": "r2-value"}, what="%r != r2_score(f(y), g(p)) = %r" % (v, exp))
        return None
    from sklearn.linear_model import LinearRegression
    from sklearn.tree import DecisionTreeRegressor
    t = tables(c["seed"])[c["table"]]
    mk = (lambda: LinearRegression()) if c["model"] == "linreg" else (lambda: DecisionTreeRegressor(max_depth=3, random_state=0))
    t0 = t.copy()
    df = pandas.DataFrame(t, columns=["c%d" % i for i in range(t.shape[1])])
    df0 = df.copy()
    numpy.random.seed(5)
    ra = non_linear_correlations(t, mk(), draws=3, minmax=c["minmax"])
    numpy.random.seed(5)
    rd = non_linear_correlations(df, mk(), draws=3, minmax=c["minmax"])
    ra = ra if isinstance(ra, tuple) else (ra,)
    rd = rd if isinstance(rd, tuple) else (rd,)
    k = t.shape[1]
    for m, mdf in zip(ra, rd):
        if m.shape != (k, k) or mdf.shape != (k, k):
            return dict(**{"class": "shape"}, what="shape %r" % (m.shape,))
        if not (numpy.all(m >= 0) and numpy.all(m <= 1 + 1e-12)):
            return dict(**{"class": "range"}, what="entries outside [0,1]")
        if list(mdf.columns) != list(df.columns) or list(mdf.index) != list(df.columns):
            return dict(**{"class": "labels"}, what="labels not kept")
        if not numpy.allclose(numpy.asarray(mdf.values, dtype=float), numpy.asarray(m, dtype=float), rtol=0, atol=1e-12):
            return dict(**{"class": "dataframe-vs-array"}, what="different values for a DataFrame and for its array under the same seed")
    if c["minmax"]:
        mean, mi, ma = [numpy.asarray(x, dtype=float) for x in ra]
        if not (numpy.all(mi <= mean + 1e-12) and numpy.all(mean <= ma + 1e-12)):
            return dict(**{"class": "min-mean-max"}, what="min <= mean <= max violated")
    if not numpy.array_equal(t, t0) or not df.equals(df0):
        return dict(**{"class": "input-mutated"}, what="input modified")
    if c["model"] == "linreg" and not c["minmax"]:
        # a learner that keeps what it learnt when fitted a second time (warm start): every coefficient is computed with its own copy
        # of the model, so the result is the one of the plain learner
        from sklearn.base import BaseEstimator, RegressorMixin

        class KeepsFirstFit(BaseEstimator, RegressorMixin):
            def fit(self, X, y):
                if not hasattr(self, "inner_"):
                    self.inner_ = LinearRegression().fit(X, y)
                return self

            def predict(self, X):
                return self.inner_.predict(X)
        numpy.random.seed(5)
        rk = non_linear_correlations(t, KeepsFirstFit(), draws=3)
        if not numpy.allclose(numpy.asarray(rk, dtype=float), numpy.asarray(ra[0], dtype=float), rtol=0, atol=1e-12):
            return dict(**{"class": "model-shared-between-coefficients"}, what="a learner that keeps state between fits gives other correlations: one model object is refitted")
    return None


def replay(cex):
    if "case" in cex and "inputs" not in cex:
        f = check(cex["case"])
        return dict(fails=f is not None, observed=f)
    for c in cases("quick", 0):
        try:
            f = check(c)
        except Exception as e:
            f = dict(**{"class": "exception:" + type(e).__name__}, what=str(e))
        if f is not None:
            return dict(fails=True, observed=f, lifted_case=c)
    return dict(fails=False, note="no failing input on the quick domain")


if __name__ == "__main__":
    main("C18", cases, check, replay,
         rule="4 tables (float, collinear+constant, integer dtype, single column) x 2 models x minmax; array and DataFrame under the same seed; "
              "8 (tr, inv_tr) pairs incl. refusals; each case distinct and non-trivial")
