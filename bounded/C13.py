"""Bounded stand-in for C13 (labelled bounded): reciprocal target transformations on the real code."""
NEEDS_CYTHON = False
import sys, os
sys.path.insert(0, os.path.dirname(os.path.dirname(os.path.abspath(__file__))))
import numpy
from bounded.common import main

NAMES = ["log", "exp", "log(1+x)", "log1p", "exp(x)-1", "expm1"]
VECS = {"log": [[0.5, 1.0, 2.0, 7.5], [1e-3, 3.0]], "log(1+x)": [[-0.5, 0.0, 2.0, 7.5]], "log1p": [[-0.5, 0.0, 2.0]],
        "exp": [[-2.0, 0.0, 0.5, 3.0]], "exp(x)-1": [[-2.0, 0.0, 0.5, 3.0], [0.5, 1.0, 2.0]], "expm1": [[-2.0, 0.0, 0.5, 3.0]]}


def cases(tier, seed):
    for name in NAMES:
        for v in VECS[name]:
            yield dict(kind="function", name=name, y=v)
            yield dict(kind="regressor", name=name, y=v)
    label_sets = [[0, 1], [10, 20, 30], [3, 1, 2, 7], [-5, 0, 5, 9, 11]] if tier == "quick" else \
        [[0, 1], [10, 20, 30], [3, 1, 2, 7], [-5, 0, 5, 9, 11], [100, 7, 42, 8, 9, 1]]
    for labels in label_sets:
        for rs in range(4 if tier == "quick" else 12):
            yield dict(kind="permutation", labels=labels, random_state=rs + seed)
            for clf in ("logreg", "tree"):
                yield dict(kind="classifier", labels=labels, random_state=rs + seed, clf=clf)


def check(c):
    from mlinsights.mlmodel import (FunctionReciprocalTransformer, PermutationReciprocalTransformer,
                                    TransformedTargetRegressor2, TransformedTargetClassifier2)
    if c["kind"] == "function":
        y = numpy.array(c["y"])
        X = numpy.arange(len(y) * 2, dtype=float).reshape(len(y), 2)
        X0 = X.copy()
        tr = FunctionReciprocalTransformer(c["name"])
        if tr.fit() is not tr:
            return dict(**{"class": "fit-returns"}, what="fit does not return self")
        X1, y1 = tr.transform(X, y)
        inv = tr.get_fct_inv()
        X2, y2 = inv.transform(X1, y1)
        if not numpy.allclose(y2, y, rtol=1e-12, atol=1e-12):
            return dict(**{"class": "function-round-trip"}, what="%s then its reciprocal gives %r for %r" % (c["name"], y2.tolist(), y.tolist()))
        if X1 is not X or not numpy.array_equal(X, X0) or tr.transform(X, None)[1] is not None:
            return dict(**{"class": "features-touched"}, what="features modified or None target not kept")
        return None
    if c["kind"] == "regressor":
        from sklearn.linear_model import LinearRegression
        y = numpy.array(c["y"] * 3)
        X = numpy.arange(len(y) * 2, dtype=float).reshape(len(y), 2) % 5
        m = TransformedTargetRegressor2(LinearRegression(), transformer=c["name"]).fit(X, y)
        f = FunctionReciprocalTransformer(c["name"]).fit()
        inner = m.regressor_.predict(X)
        with numpy.errstate(all="ignore"):
            back = f.transform(X, m.predict(X))[1]
        ok = numpy.isfinite(back)
        if not numpy.allclose(back[ok], inner[ok], rtol=1e-9, atol=1e-9):
            return dict(**{"class": "regressor-inverse"}, what="transform(predict) differs from the inner regressor's prediction")
        return None
    labels = numpy.array(c["labels"])
    rs = numpy.random.RandomState(c["random_state"])
    y = labels[rs.randint(0, len(labels), 60)]
    y[:len(labels)] = labels
    if c["kind"] == "permutation":
        tr = PermutationReciprocalTransformer(random_state=c["random_state"])
        if tr.fit(None, y) is not tr:
            return dict(**{"class": "fit-returns"}, what="fit does not return self")
        p = tr.permutation_
        if sorted(p) != sorted(labels.tolist()) or sorted(p.values()) != list(range(len(labels))):
            return dict(**{"class": "not-a-bijection"}, what="permutation_=%r" % (p,))
        _, y1 = tr.transform(None, y)
        _, y2 = tr.get_fct_inv().transform(None, y1)
        if not numpy.array_equal(y2, y):
            return dict(**{"class": "permutation-round-trip"}, what="labels not restored")
        # the same instance fitted again on other labels (after it was used): nothing of the first fit may survive
        y_b = (labels[::-1] * 2 + 1)[rs.randint(0, len(labels), 40)]
        y_b[:len(labels)] = labels[::-1] * 2 + 1
        tr.fit(None, y_b)
        _, yb1 = tr.transform(None, y_b)
        _, yb2 = tr.get_fct_inv().transform(None, yb1)
        if not numpy.array_equal(yb2, y_b):
            return dict(**{"class": "refit-round-trip"}, what="labels not restored after the instance was fitted a second time")
        yf = y.astype(float)
        yf[3] = numpy.nan
        tf = PermutationReciprocalTransformer(random_state=c["random_state"]).fit(None, yf)
        _, y3 = tf.get_fct_inv().transform(None, tf.transform(None, yf)[1])
        if not (numpy.isnan(y3[3]) and numpy.array_equal(numpy.delete(y3, 3), numpy.delete(yf, 3))):
            return dict(**{"class": "nan-not-kept"}, what="NaN not preserved")
        return None
    from sklearn.linear_model import LogisticRegression
    from sklearn.tree import DecisionTreeClassifier
    X = numpy.zeros((len(y), len(labels)))
    for i, v in enumerate(y):
        X[i, list(labels).index(v)] = 1.0 + 0.01 * (i % 7)
    base = LogisticRegression() if c["clf"] == "logreg" else DecisionTreeClassifier(random_state=0)
    user_tr = PermutationReciprocalTransformer(random_state=c["random_state"])
    m = TransformedTargetClassifier2(base, transformer=user_tr)
    m.fit(X, y)
    pred = m.predict(X)
    if not set(pred.tolist()) <= set(labels.tolist()):
        return dict(**{"class": "not-original-labels"}, what="predict returns %r" % sorted(set(pred.tolist())))
    proba = m.predict_proba(X)
    cl = numpy.asarray(m.classes_)
    if not numpy.array_equal(cl[numpy.argmax(proba, axis=1)], pred):
        return dict(**{"class": "classes-vs-proba-columns"}, what="classes_[argmax(predict_proba)] != predict; classes_=%r" % cl.tolist())
    plain = (LogisticRegression() if c["clf"] == "logreg" else DecisionTreeClassifier(random_state=0)).fit(X, y)
    if not numpy.array_equal(plain.predict(X), pred):
        return dict(**{"class": "differs-from-plain"}, what="predictions differ from the plain classifier")
    if not numpy.array_equal(plain.classes_, cl) or not numpy.allclose(plain.predict_proba(X), proba, atol=1e-6):
        return dict(**{"class": "proba-differs-from-plain"}, what="probabilities / classes_ differ from the plain classifier")
    # ownership of the fitted state: the caller's transformer object handed to a second model (fitted on other labels, other seed)
    # must leave this model's predictions alone
    user_tr.random_state = None if c["random_state"] is None else c["random_state"] + 1
    y_b = (labels[::-1] * 2 + 1)[rs.randint(0, len(labels), len(y))]
    y_b[:len(labels)] = labels[::-1] * 2 + 1
    m2 = TransformedTargetClassifier2(LogisticRegression() if c["clf"] == "logreg" else DecisionTreeClassifier(random_state=0), transformer=user_tr)
    m2.fit(X, y_b)
    if not numpy.array_equal(m.predict(X), pred) or not numpy.allclose(m.predict_proba(X), proba):
        return dict(**{"class": "shared-transformer"}, what="predictions change once the caller's transformer object is fitted inside another model")
    return None


def replay(cex):
    if "case" in cex and "inputs" not in cex:
        f = check(cex["case"])
        return dict(fails=f is not None, observed=f)
    # verifier counterexamples are lifted to the public API over the quick domain
    for c in cases("quick", 0):
        try:
            f = check(c)
        except Exception as e:
            f = dict(**{"class": "exception:" + type(e).__name__}, what=str(e))
        if f is not None:
            return dict(fails=True, observed=f, lifted_case=c)
    return dict(fails=False, note="no failing input on the quick domain")


if __name__ == "__main__":
    main("C13", cases, check, replay,
         rule="6 function names x target vectors in their domain (round trip, regressor); label sets of 2..6 labels x seeds "
              "(permutation bijection, round trip, NaN) x {LogisticRegression, tree}; each (kind, name/labels, seed) is distinct and non-trivial")
