"""Bounded stand-in for C20 (labelled bounded): build_ts_X_y and ts_mape on the real code.
Domain: all n <= N, past <= 3, delay2 in 2..4 with nrow >= 0, with/without X and weights, both same_rows."""
NEEDS_CYTHON = False
import sys, os
sys.path.insert(0, os.path.dirname(os.path.dirname(os.path.abspath(__file__))))
import numpy
from bounded.common import main, to_array


def cases(tier, seed):
    N = 8 if tier == "quick" else 14
    for n in range(1, N + 1):
        for past in (1, 2, 3):
            for delay2 in (2, 3, 4):
                if n - delay2 - past + 2 < 0:
                    continue
                for has_x in (False, True):
                    for has_w in (False, True):
                        for same_rows in (False, True):
                            yield dict(kind="build", n=n, past=past, delay2=delay2, has_x=has_x, has_w=has_w,
                                       same_rows=same_rows)
    rs = numpy.random.RandomState(seed)
    for n in range(2, N + 1):
        for k in range(3):
            yield dict(kind="mape", y=(rs.randint(0, 5, n) * 1.0).tolist(), p=(rs.randint(0, 5, n) * 1.0).tolist(),
                       w=None if k == 0 else (rs.randint(1, 4, n) * 1.0).tolist())
        yield dict(kind="mape", y=[3.0] * n, p=[3.0] * n, w=None)
        yield dict(kind="mape", y=[3.0] * n, p=[4.0] * n, w=None)


def build_inputs(c):
    n = c["n"]
    y = numpy.arange(n) * 10.0 + 1
    # the series as it often arrives: a column of a table, every other observation, a float32 / integer vector (same values)
    layout = ("contiguous", "column-of-a-table", "every-other", "float32", "int64")[(c["n"] + c["past"] + c["delay2"] + int(c["has_x"]) + 2 * int(c["has_w"])) % 5]
    if layout == "column-of-a-table":
        table = numpy.full((n, 3), -7.0)
        table[:, 1] = y
        y = table[:, 1]
    elif layout == "every-other":
        buf = numpy.full(2 * n, -7.0)
        buf[::2] = y
        y = buf[::2]
    elif layout == "float32":
        y = y.astype(numpy.float32)
    elif layout == "int64":
        y = y.astype(numpy.int64)
    X = (numpy.arange(n * 2).reshape(n, 2) * 1.0 + 1000.5) if c["has_x"] else None       # fractional: a truncation would show
    w = (numpy.arange(n) * 1.0 + 500) if c["has_w"] else None
    return X, y, w


def check_build(model_args, X, y, w, same_rows):
    from mlinsights.timeseries.utils import build_ts_X_y
    from mlinsights.timeseries.base import BaseTimeSeries
    past, delay2 = model_args
    bs = BaseTimeSeries(past=past, delay1=1, delay2=delay2)
    y0, X0, w0 = y.copy(), None if X is None else X.copy(), None if w is None else w.copy()
    nx, ny, nw = build_ts_X_y(bs, X, y, w, same_rows=same_rows)
    n = len(y)
    nrow = n - delay2 - past + 2
    ncol = 0 if X is None else X.shape[1]
    off = n - nrow if same_rows else 0
    rows = n if same_rows else nrow
    if nx.shape != (rows, ncol + past) or ny.shape != (rows, delay2 - 1):
        return dict(**{"class": "shape"}, what="shapes %r %r" % (nx.shape, ny.shape))
    for r in range(nrow):
        for i in range(past):
            if not nx[off + r, ncol + i] == y0[r + i]:
                return dict(**{"class": "lags"}, what="row %d lag %d is %r, expected y[%d]=%r" % (r, i, nx[off + r, ncol + i], r + i, y0[r + i]))
        for t in range(delay2 - 1):
            if not ny[off + r, t] == y0[r + past + t]:
                return dict(**{"class": "targets"}, what="row %d target %d is %r, expected y[%d]=%r" % (r, t, ny[off + r, t], r + past + t, y0[r + past + t]))
        for c in range(ncol):
            if not nx[off + r, c] == X0[r + past - 1, c]:
                return dict(**{"class": "exog"}, what="row %d exogenous %d misaligned" % (r, c))
        if not same_rows and w is not None:
            if nw is None or len(nw) != nrow or not nw[r] == w0[r + past - 1]:
                return dict(**{"class": "weights"}, what="weights misaligned at row %d" % r)
    if not same_rows and w is None and nw is not None:
        return dict(**{"class": "weights"}, what="weights invented")
    if same_rows:
        if not (numpy.all(numpy.isnan(nx[:off])) and numpy.all(numpy.isnan(ny[:off]))):
            return dict(**{"class": "padding"}, what="left padding is not NaN")
    if not numpy.array_equal(y, y0) or (X is not None and not numpy.array_equal(X, X0)):
        return dict(**{"class": "input-mutated"}, what="inputs modified")
    return None


def check_mape(y, p, w):
    from mlinsights.timeseries.metrics import ts_mape
    y, p = numpy.array(y), numpy.array(p)
    w = None if w is None else numpy.array(w)
    v = ts_mape(y, p, sample_weight=w)
    if not (v >= 0):
        return dict(**{"class": "mape-negative"}, what="ts_mape=%r" % (v,))
    naive = numpy.empty(len(y))
    naive[0] = y[0]
    naive[1:] = y[:-1]
    v1 = ts_mape(y, naive, sample_weight=w)
    ww = numpy.ones(len(y)) if w is None else w
    const = numpy.sum(numpy.abs(y[1:] - y[:-1]) * ww[1:]) == 0
    if not const and v1 != 1:
        return dict(**{"class": "mape-naive"}, what="naive forecast scores %r" % (v1,))
    # the naive forecast with missing entries (no previous value for the first step, gaps): steps whose forecast and
    # previous forecast both exist are scored; whenever they carry some variation the score is still exactly 1
    n = len(y)
    for missing in ([0], [0, 1], [n // 2], [0, n - 1]):
        if max(missing) >= n:
            continue
        nv = naive.copy()
        nv[missing] = numpy.nan
        nan = numpy.isnan(nv)
        scored = ~nan[1:] & ~nan[:-1]
        if not scored.any():
            continue
        var = numpy.sum((numpy.abs(y[1:] - y[:-1]) * ww[1:])[scored])
        v2 = ts_mape(y, nv, sample_weight=w)
        if var != 0 and v2 != 1:
            return dict(**{"class": "mape-naive-missing"}, what="naive forecast with NaN at %r scores %r" % (missing, v2))
        if not (v2 >= 0):
            return dict(**{"class": "mape-negative"}, what="ts_mape=%r with NaN at %r" % (v2, missing))
    return None


def check(c):
    if c["kind"] == "build":
        X, y, w = build_inputs(c)
        return check_build((c["past"], c["delay2"]), X, y, w, c["same_rows"])
    return check_mape(c["y"], c["p"], c["w"])


def replay(cex):
    """inputs of a finite-scope counterexample of the verifier, evaluated on the real code"""
    inp = cex.get("inputs") or cex.get("case") or {}
    if "case" in cex and "inputs" not in cex:
        f = check(cex["case"])
        return dict(fails=f is not None, observed=f)
    fn = cex.get("function", "")
    if fn.endswith("build_ts_X_y"):
        m = inp["model"]["fields"]
        y = to_array(inp["y"]).astype(float)
        X = None if inp.get("X") is None else to_array(inp["X"]).astype(float)
        w = None if inp.get("weights") is None else to_array(inp["weights"]).astype(float)
        try:
            f = check_build((m["past"], m["delay2"]), X, y, w, bool(inp["same_rows"]))
        except Exception as e:
            f = dict(**{"class": "exception:" + type(e).__name__}, what=str(e))
        return dict(fails=f is not None, observed=f, inputs=dict(past=m["past"], delay2=m["delay2"], y=y.tolist()))
    if fn.endswith("ts_mape"):
        y = to_array(inp["expected_y"]).astype(float)
        p = to_array(inp["predicted_y"]).astype(float)
        w = None if inp.get("sample_weight") is None else to_array(inp["sample_weight"]).astype(float)
        try:
            f = check_mape(y, p, w)
        except Exception as e:
            f = dict(**{"class": "exception:" + type(e).__name__}, what=str(e))
        return dict(fails=f is not None, observed=f)
    return dict(fails=False, note="unknown function %r" % fn)


if __name__ == "__main__":
    main("C20", cases, check, replay,
         rule="build: every (n,past,delay2,X?,w?,same_rows) with n<=N, past<=3, delay2 in 2..4, nrow>=0 and "
              "identifiable values (y=10i+1): each is a distinct non-trivial case when nrow>=1; mape: random integer "
              "series plus constant series",
         nontrivial=lambda c: c["kind"] == "mape" or c["n"] - c["delay2"] - c["past"] + 2 >= 1)
