"""Bounded stand-in for C07 (labelled bounded): cluster sizes of ConstraintKMeans on the real code."""
NEEDS_CYTHON = False
import sys, os
sys.path.insert(0, os.path.dirname(os.path.dirname(os.path.abspath(__file__))))
import numpy
from bounded.common import main


def cases(tier, seed):
    nmax = 12 if tier == "quick" else 14
    for k in range(1, 6):
        for n in range(k, nmax + 1):
            for strategy in ("distance", "gain"):
                for d in ((1, 2) if tier != "quick" else (2,)):
                    for kmeans0 in ((True, False) if (n + k) % 2 == 0 or tier != "quick" else (True,)):
                        yield dict(n=n, k=k, strategy=strategy, d=d, kmeans0=kmeans0, seed=seed)
    for j in range(40 if tier == "quick" else 400):
        rs = numpy.random.RandomState(77 * seed + j)
        k = int(rs.randint(2, 7))
        yield dict(kind="gain-invariants", n=k * int(rs.randint(1, 7)) + int(rs.randint(0, k)), k=k, d=int(rs.randint(1, 4)), seed=1000 * seed + j)
    # 'gain' on the part of the domain where the unchanged code keeps the sizes (n mod k <= 1): few iterations, so that the labels
    # of an early association pass are the ones returned (transfer lists, swaps with a partner that has already moved)
    for j in range(240 if tier == "quick" else 2400):
        rs = numpy.random.RandomState(1000 * seed + j)
        k = int(rs.randint(3, 7))
        n = k * int(rs.randint(2, 8)) + int(rs.randint(0, 2))
        yield dict(n=n, k=k, strategy="gain", d=int(rs.randint(1, 4)), kmeans0=bool(j % 3), seed=seed + j, max_iter=1 + j % 3,
                   gauss=True, only_fit=True)


def gain_invariants(c):
    """native cross-check of the loop invariant PROVED for _constraint_association_gain (contracts/C07.py _gain_book): the real function runs
    on random data under sys.settrace and, at the head of every iteration of its main loop, the counters must count the labels and a
    listed point that is not flagged as moved must still be in the cluster it wants to leave"""
    import ast, inspect, sys, textwrap
    import mlinsights.mlmodel._kmeans_constraint_ as M
    fn = M._constraint_association_gain
    src = textwrap.dedent(inspect.getsource(fn))
    loops = [nd for nd in ast.walk(ast.parse(src)) if isinstance(nd, (ast.For, ast.While))]
    loops.sort(key=lambda nd: nd.lineno)
    heads = [nd for nd in loops if isinstance(nd, ast.For) and "sorted_distances" in ast.unparse(nd.iter)]
    if len(heads) != 1:
        return None                                   # the function was restructured: nothing to cross-check here
    head = fn.__code__.co_firstlineno + heads[0].lineno - 1
    n, k, d = c["n"], c["k"], c["d"]
    rs = numpy.random.RandomState(c["seed"])
    X = rs.randn(n, d)
    if c["seed"] % 2:
        X = numpy.round(X * 2) / 2
    centers = X[rs.permutation(n)[:k]] + 0.01 * rs.randn(k, d)
    labels = rs.randint(0, k, n).astype(numpy.int32)
    counters = numpy.empty((k,), dtype=numpy.int32)
    leftclose = numpy.empty((k,), dtype=numpy.int32)
    dclose = numpy.empty((n,), dtype=X.dtype)
    limit = n // k
    bad = []

    def tracer(frame, event, arg):
        if frame.f_code is not fn.__code__:
            return None
        if event == "line" and frame.f_lineno == head and not bad:
            loc = frame.f_locals
            lab, cnt, tr, flag = loc["labels"], loc["counters"], loc.get("transfer"), loc["distances_close"]
            if tr is None:
                return tracer
            if numpy.bincount(lab, minlength=k).tolist() != cnt.tolist():
                bad.append("counters %r do not count the labels %r" % (cnt.tolist(), numpy.bincount(lab, minlength=k).tolist()))
            for (a_, b_), lst in tr.items():
                for g_, p_ in lst:
                    if not (0 <= p_ < n) or (flag[p_] == 0 and lab[p_] != a_):
                        bad.append("transfer[%r, %r] lists point %r which is not flagged and has label %r" % (a_, b_, p_, int(lab[p_])))
        return tracer
    old = sys.gettrace()
    sys.settrace(tracer)
    try:
        M._constraint_association(n - limit * k, counters, labels, leftclose, dclose, centers, X, (X ** 2).sum(axis=1), limit, "gain",
                                  state=numpy.random.RandomState(c["seed"]))
    except AssertionError as e:
        if not str(e).startswith("The algorithm failed, counters="):
            raise
    finally:
        sys.settrace(old)
    if bad:
        return dict(**{"class": "gain-proved-invariant-fails-natively"}, what=bad[0])
    cnt = numpy.bincount(labels, minlength=k)
    if labels.min() < 0 or labels.max() >= k:
        return dict(**{"class": "labels-invalid"}, what="labels %r" % labels.tolist())
    return None


def sizes_ok(labels, n, k):
    cnt = numpy.bincount(labels, minlength=k)
    return len(cnt) == k and cnt.min() >= n // k and cnt.max() <= -(-n // k), cnt.tolist()


def check(c):
    from mlinsights.mlmodel import ConstraintKMeans
    if c.get("kind") == "gain-invariants":
        return gain_invariants(c)
    n, k = c["n"], c["k"]
    rs = numpy.random.RandomState(c["seed"] * 1000 + n * 10 + k)
    X = numpy.round(rs.rand(n, c["d"]) * 10, 1)
    if c.get("gauss"):
        X = rs.randn(n, c["d"])
        if c["seed"] % 2:
            X = numpy.round(X * 2) / 2     # ties
    if n > 3:
        X[1] = X[0]                    # duplicates
    numpy.random.seed(c["seed"] + 1)
    m = ConstraintKMeans(n_clusters=k, strategy=c["strategy"], kmeans0=c["kmeans0"], random_state=c["seed"], max_iter=c.get("max_iter", 20))
    try:
        m.fit(X)
    except AssertionError as e:
        if c["strategy"] == "gain" and str(e).startswith("The algorithm failed, counters="):
            # known finding: a cluster stays under its quota because the points that could fill it were already flagged as moved
            return dict(**{"class": "gain-assert-under-filled-cluster"}, what="n=%d k=%d strategy=gain kmeans0=%s: fit raises AssertionError %s" % (n, k, c["kmeans0"], e))
        raise
    lab = numpy.asarray(m.labels_)
    if lab.shape != (n,) or lab.min() < 0 or lab.max() >= k:
        return dict(**{"class": "labels-invalid"}, what="labels %r" % lab.tolist())
    ok, cnt = sizes_ok(lab, n, k)
    gain_known = c["strategy"] == "gain" and n % k >= 2
    if not ok:
        return dict(**{"class": "sizes-gain-n-mod-k-ge-2" if gain_known else "sizes"}, what="n=%d k=%d strategy=%s: cluster sizes %r" % (n, k, c["strategy"], cnt))
    if not (0 <= m.n_iter_ <= m.max_iter):
        return dict(**{"class": "n_iter"}, what="n_iter_=%r max_iter=%r" % (m.n_iter_, m.max_iter))
    if not numpy.all(numpy.isfinite(m.cluster_centers_)):
        return dict(**{"class": "centres-not-finite"}, what="non-finite centre")
    if c.get("only_fit"):
        return None
    Q = numpy.round(rs.rand(max(n, k + 1), c["d"]) * 10, 1)
    near = m.predict(Q)
    dist = ((Q[:, None, :] - m.cluster_centers_[None, :, :]) ** 2).sum(axis=2)
    if not numpy.allclose(dist[numpy.arange(len(Q)), near], dist.min(axis=1), rtol=1e-9, atol=1e-12):
        return dict(**{"class": "predict-nearest"}, what="predict does not return a nearest centre")
    mb = ConstraintKMeans(n_clusters=k, strategy=c["strategy"], kmeans0=c["kmeans0"], random_state=c["seed"], max_iter=20, balanced_predictions=True).fit(X)
    pb = numpy.asarray(mb.predict(Q))
    okb, cntb = sizes_ok(pb, len(Q), k)
    gain_known_b = c["strategy"] == "gain" and len(Q) % k >= 2
    if not okb:
        return dict(**{"class": "sizes-gain-n-mod-k-ge-2" if gain_known_b else "balanced-predict-sizes"},
                    what="balanced predict on %d rows, k=%d strategy=%s: sizes %r" % (len(Q), k, c["strategy"], cntb))
    return None


def replay(cex):
    if "case" in cex and "inputs" not in cex:
        f = check(cex["case"])
        return dict(fails=f is not None, observed=f)
    for c in cases("quick", 0):
        try:
            f = check(c)
        except Exception as e:
            f = dict(**{"class": "exception:" + type(e).__name__}, what=str(e))
        if f is not None and f.get("class") not in ("sizes-gain-n-mod-k-ge-2", "gain-assert-under-filled-cluster"):
            return dict(fails=True, observed=f, lifted_case=c)
    return dict(fails=False, note="no failing input (other than the known finding) on the quick domain")


if __name__ == "__main__":
    main("C07", cases, check, replay,
         rule="all k <= n <= 12 (14), k <= 5, strategies distance and gain, kmeans0 in {T,F}, data with duplicates; exact cluster sizes, label validity, "
              "n_iter_ <= max_iter, finite centres, nearest-centre predict, sizes of balanced predict; non-trivial when n > k")
