"""Bounded stand-in for C19 (labelled bounded): CategoriesToIntegers on real pandas frames."""
NEEDS_CYTHON = False
import sys, os, itertools
sys.path.insert(0, os.path.dirname(os.path.dirname(os.path.abspath(__file__))))
import numpy
from bounded.common import main

TRAIN = dict(color=["red", "blue", "green", "blue", None], shape=["sq", "ci", "tr", "sq", "ci"], size=["S", "L", "S", None, "L"],
             x=[0.5, 1.5, 2.5, 3.5, 4.5])
VALUES = dict(color=["red", "blue", "green", None, "purple"], shape=["sq", "tr", "hex"], size=["S", "L", float("nan"), "XL"])


def cases(tier, seed):
    for skip in (False, True):
        for remove in (None, ["color=green"], ["shape=ci", "size=L"]):
            rows = list(itertools.product(VALUES["color"], VALUES["shape"], VALUES["size"]))
            step = 1 if tier != "quick" else 3
            for k in range(0, len(rows), step):
                r1 = rows[k]
                r2 = rows[(k * 7 + 3) % len(rows)]
                yield dict(single=False, skip_errors=skip, remove=remove, rows=[list(r1), list(r2)])
                if k % 9 == 3:
                    # the same index label on both rows (stacked batches, bootstrap samples): still one output row per input row, in order
                    yield dict(single=False, skip_errors=skip, remove=remove, rows=[list(r1), list(r2)], same_label=True)
                if k % 9 == 0:
                    # frames made of categorical columns only (no numeric column to carry the index along)
                    yield dict(single=False, skip_errors=skip, remove=remove, rows=[list(r1), list(r2)], no_numeric=True)
    for skip in (False, True):
        for k, r in enumerate(itertools.product(VALUES["color"], VALUES["shape"])):
            yield dict(single=True, skip_errors=skip, remove=None, rows=[[r[0], r[1], "S"], ["red", "sq", "L"]])
    for single in (False, True):
        yield dict(kind="refit-detects-again", single=single)


def check_refit(c):
    """columns=None means: the categorical columns are detected at EVERY fit (the estimator fitted on a second frame with other
    categorical columns encodes those)"""
    import pandas
    from mlinsights.mlmodel import CategoriesToIntegers
    obj = lambda v: pandas.Series(v, dtype=object)
    a = pandas.DataFrame({"color": obj(["red", "blue", "red"]), "x": [1.0, 2.0, 3.0]})
    b = pandas.DataFrame({"x": [4.0, 5.0, 6.0], "shape": obj(["sq", "ci", "sq"]), "size": obj(["S", "S", "L"])})
    m = CategoriesToIntegers(single=c["single"])
    p0 = dict(m.get_params())
    m.fit(a)
    m.transform(a)
    if dict(m.get_params()) != p0:
        return dict(**{"class": "params-changed"}, what="fit changed the constructor parameters: %r -> %r" % (p0, m.get_params()))
    try:
        m.fit(b)
        out = m.transform(b)
    except Exception as e:
        return dict(**{"class": "refit-other-columns"}, what="refit on a frame with other categorical columns fails: %s: %s" % (type(e).__name__, str(e)[:100]))
    fresh = CategoriesToIntegers(single=c["single"]).fit(b).transform(b)
    if list(out.columns) != list(fresh.columns) or not numpy.array_equal(numpy.asarray(out.values, dtype=float), numpy.asarray(fresh.values, dtype=float), equal_nan=True):
        return dict(**{"class": "refit-other-columns"}, what="refit differs from a fresh estimator: columns %r vs %r" % (list(out.columns), list(fresh.columns)))
    return None


def check(c):
    import pandas
    from mlinsights.mlmodel import CategoriesToIntegers
    if c.get("kind") == "refit-detects-again":
        return check_refit(c)
    cats = ["color", "shape", "size"]
    train = pandas.DataFrame({k: pandas.Series(v, dtype=object if k != "x" else float) for k, v in TRAIN.items()})
    idx = [100 + (0 if c.get("same_label") else i) for i in range(len(c["rows"]))]
    test = pandas.DataFrame({"color": pandas.Series([r[0] for r in c["rows"]], dtype=object, index=idx), "x": pandas.Series([10.0 + i for i in range(len(c["rows"]))], index=idx),
                             "shape": pandas.Series([r[1] for r in c["rows"]], dtype=object, index=idx), "size": pandas.Series([r[2] for r in c["rows"]], dtype=object, index=idx)})
    if c.get("no_numeric"):
        train, test = train.drop(columns=["x"]), test.drop(columns=["x"])
    test0 = test.copy()
    m = CategoriesToIntegers(columns=cats, remove=c["remove"], skip_errors=c["skip_errors"], single=c["single"])
    if m.fit(train) is not m:
        return dict(**{"class": "fit-returns"}, what="fit does not return self")
    known = {k: sorted(set(v for v in TRAIN[k] if v is not None)) for k in cats}

    def missing(v):
        return v is None or (isinstance(v, float) and v != v)
    unseen = any((not missing(v)) and v not in known[k] for r in c["rows"] for k, v in zip(cats, r))
    # a removed modality of a seen category: the property does not say whether it is refused like an unseen one (the code does
    # refuse it) - such a ValueError is not counted, exactly as such rows are skipped by the indicator comparison below
    removed_hit = any("%s=%s" % (k, v) in set(c["remove"] or []) for r in c["rows"] for k, v in zip(cats, r))
    try:
        out = m.transform(test)
    except ValueError:
        return None if ((unseen or removed_hit) and not c["skip_errors"]) else dict(**{"class": "unexpected-error"}, what="ValueError although every category was seen or skip_errors=True")
    if unseen and not c["skip_errors"]:
        return dict(**{"class": "unseen-not-refused"}, what="unseen category accepted without skip_errors")
    if len(out) != len(test):
        return dict(**{"class": "passthrough"}, what="%d rows in, %d rows out" % (len(test), len(out)))
    if list(out.index) != list(test.index) or (not c.get("no_numeric") and not numpy.array_equal(out["x"].values, test0["x"].values)):
        return dict(**{"class": "passthrough"}, what="numeric column or index not kept (index %r, expected %r)" % (list(out.index), list(test.index)))
    if c["single"]:
        for i, r in enumerate(c["rows"]):
            for k, v in zip(cats, r):
                got = out[k].iloc[i]
                if missing(v) or v not in known[k]:
                    if not (got != got):
                        return dict(**{"class": "single-missing"}, what="row %d %s=%r gives %r, expected NaN" % (i, k, v, got))
                elif got != known[k].index(v):
                    return dict(**{"class": "single-rank"}, what="row %d %s=%r gives %r, expected rank %d" % (i, k, v, got, known[k].index(v)))
        return None
    removed = set(c["remove"] or [])
    expected_cols = ["%s=%s" % (k, v) for k in cats for v in known[k] if "%s=%s" % (k, v) not in removed]
    ind_cols = [col for col in out.columns if col != "x"]
    if ind_cols != expected_cols:
        return dict(**{"class": "schema"}, what="indicator columns %r, expected %r" % (ind_cols, expected_cols))
    for i, r in enumerate(c["rows"]):
        want = set()
        for k, v in zip(cats, r):
            if not missing(v) and v in known[k] and "%s=%s" % (k, v) not in removed:
                want.add("%s=%s" % (k, v))
        got = set(col for col in ind_cols if out[col].iloc[i] == 1.0)
        other = [col for col in ind_cols if not (out[col].iloc[i] == 1.0 or out[col].iloc[i] != out[col].iloc[i])]
        if got != want or other:
            if any("%s=%s" % (k, v) in removed for k, v in zip(cats, r)):
                continue          # a removed modality of a seen category: behaviour not specified by the property
            return dict(**{"class": "indicators"}, what="row %d %r: indicators %r, expected %r" % (i, r, sorted(got), sorted(want)))
    if not test.equals(test0):
        return dict(**{"class": "input-mutated"}, what="input frame modified")
    return None


def replay(cex):
    if "case" in cex and "inputs" not in cex:
        f = check(cex["case"])
        return dict(fails=f is not None, observed=f)
    for c in cases("quick", 0):
        try:
            f = check(c)
        except Exception as e:
            f = dict(**{"class": "exception:" + type(e).__name__}, what=str(e))
        if f is not None:
            return dict(fails=True, observed=f, lifted_case=c)
    return dict(fails=False, note="no failing input on the quick domain")


if __name__ == "__main__":
    main("C19", cases, check, replay,
         rule="3 categorical columns + 1 numeric, explicit object columns; 2-row test frames enumerating known / missing (None, NaN) / unseen values in "
              "every column x skip_errors x remove lists x single; each frame is a distinct non-trivial case")
