"""Bounded stand-in for C08 (labelled bounded): PiecewiseRegressor / PiecewiseClassifier on the real code with a recording local estimator."""
NEEDS_CYTHON = False
import sys, os
sys.path.insert(0, os.path.dirname(os.path.dirname(os.path.abspath(__file__))))
import numpy
from bounded.common import main


def binners():
    from sklearn.tree import DecisionTreeRegressor
    from sklearn.preprocessing import KBinsDiscretizer
    return {"tree1": lambda: DecisionTreeRegressor(max_depth=1, random_state=0), "tree2": lambda: DecisionTreeRegressor(max_depth=2, random_state=0),
            "tree3": lambda: DecisionTreeRegressor(max_depth=3, min_samples_leaf=2, random_state=0),
            "kbins": lambda: KBinsDiscretizer(n_bins=3, encode="onehot", strategy="uniform")}


def cases(tier, seed):
    for ds in range(4 if tier == "quick" else 8):
        for b in binners():
            for w in (False, True):
                yield dict(kind="regressor", data=seed * 10 + ds, binner=b, weights=w)
            yield dict(kind="classifier", data=seed * 10 + ds, binner=b)
    for nj in (None, 1, 2, 4):
        for b in ("tree2", "kbins"):
            yield dict(kind="n_jobs", n_jobs=nj, binner=b)


def make_rec():
    from sklearn.base import BaseEstimator, RegressorMixin

    class Rec(BaseEstimator, RegressorMixin):
        """records its training set; prediction identifies the model (its mean target) and the row (first feature)"""

        def fit(self, X, y, sample_weight=None):
            self.X_, self.y_ = numpy.array(X), numpy.array(y)
            self.w_ = None if sample_weight is None else numpy.array(sample_weight)
            self.m_ = float(numpy.mean(y))
            return self

        def predict(self, X):
            return self.m_ * 1000 + numpy.asarray(X)[:, 0]
    return Rec


def data(k):
    rs = numpy.random.RandomState(k)
    X = numpy.round(rs.rand(40, 2) * 10, 1)
    X[:5, 0] = numpy.array([0.0, 0.1, 9.9, 10.0, 5.0])
    X[5:10, 0] = X[5:10, 0] * 0.1                      # a gap in the middle of feature 0: an empty uniform bin combination
    if k % 2 == 1:
        # training rows near the diagonal only: most discretizer cells are EMPTY at training time, yet every one of them shares a bin (on one
        # feature) with a training cell - at predict time the rows of such cells must go to the global fallback model, not to a neighbour
        X[:, 1] = numpy.clip(numpy.round(X[:, 0] + rs.rand(40) * 0.4 - 0.2, 1), 0, 10)
    y = numpy.round(X[:, 0] * 3 + X[:, 1], 2) + numpy.arange(40) * 0.001
    w = rs.randint(1, 4, 40).astype(float)
    Q = numpy.vstack([X[:10], numpy.round(rs.rand(30, 2) * 10, 1), numpy.array([[0.0, 10.0], [10.0, 0.0], [5.0, 5.0], [-3.0, 20.0]])])
    return X, y, w, Q


def buckets_of(m, X):
    return numpy.asarray(m.transform_bins(X)).astype(int)


def check(c):
    from mlinsights.mlmodel import PiecewiseRegressor, PiecewiseClassifier
    from sklearn.linear_model import LogisticRegression
    if c["kind"] == "n_jobs":
        X, y, w, Q = data(3)
        outs = []
        for _ in range(2):
            m = PiecewiseRegressor(binners()[c["binner"]](), n_jobs=c["n_jobs"]).fit(X, y, sample_weight=w)
            outs.append(m.predict(Q))
        ref = PiecewiseRegressor(binners()[c["binner"]](), n_jobs=None).fit(X, y, sample_weight=w).predict(Q)
        if not (numpy.array_equal(outs[0], ref) and numpy.array_equal(outs[1], ref)):
            return dict(**{"class": "n_jobs"}, what="results depend on n_jobs=%r" % c["n_jobs"])
        yc = (y > numpy.median(y)).astype(int)
        pa = PiecewiseClassifier(binners()[c["binner"]](), random_state=0, n_jobs=c["n_jobs"]).fit(X, yc).predict_proba(Q)
        pb = PiecewiseClassifier(binners()[c["binner"]](), random_state=0, n_jobs=None).fit(X, yc).predict_proba(Q)
        if not numpy.array_equal(pa, pb):
            return dict(**{"class": "n_jobs"}, what="classifier results depend on n_jobs=%r" % c["n_jobs"])
        if c["n_jobs"] in (2, 4) and c["binner"] == "tree2":
            # buckets missing a class borrow random examples: must not depend on the thread schedule (repeated fits; a
            # schedule-dependent implementation differs in roughly 1 fit out of 20 here, so this is a probabilistic detector)
            from sklearn.tree import DecisionTreeRegressor
            rs = numpy.random.RandomState(5)
            X2 = rs.randn(400, 2)
            y2 = (X2[:, 0] > 0).astype(int)

            def coefs(nj):
                mm = PiecewiseClassifier(DecisionTreeRegressor(max_depth=4, random_state=0), LogisticRegression(), random_state=0, n_jobs=nj).fit(X2, y2)
                return numpy.concatenate([e.coef_.ravel() for e in mm.estimators_])
            ref2 = coefs(None)
            for _ in range(12):
                if not numpy.array_equal(coefs(c["n_jobs"]), ref2):
                    return dict(**{"class": "n_jobs-borrowed-examples"}, what="borrowed examples depend on the thread schedule (n_jobs=%r)" % c["n_jobs"])
        return None
    X, y, w, Q = data(c["data"])
    if c["kind"] == "regressor":
        Rec = make_rec()
        m = PiecewiseRegressor(binners()[c["binner"]](), Rec())
        ww = w if c["weights"] else None
        if m.fit(X, y, sample_weight=ww) is not m:
            return dict(**{"class": "fit-returns"}, what="fit does not return self")
        a = buckets_of(m, X)
        nb = len(m.estimators_)
        if set(a.tolist()) != set(range(nb)):
            return dict(**{"class": "buckets"}, what="training buckets %r, %d estimators" % (sorted(set(a.tolist())), nb))
        for i, e in enumerate(m.estimators_):
            rows = numpy.where(a == i)[0]
            if not (numpy.array_equal(e.X_, X[rows]) and numpy.array_equal(e.y_, y[rows]) and
                    (ww is None and e.w_ is None or ww is not None and numpy.array_equal(e.w_, ww[rows]))):
                return dict(**{"class": "bucket-training-set"}, what="local model %d not trained on exactly its bucket's rows, targets and weights" % i)
        g = m.mean_estimator_
        if not (numpy.array_equal(g.X_, X) and numpy.array_equal(g.y_, y)):
            return dict(**{"class": "fallback-training-set"}, what="global model not trained on the whole training set")
        aq = buckets_of(m, Q)
        pred = m.predict(Q)
        exp = numpy.array([(m.estimators_[b] if b >= 0 else g).predict(Q[r:r + 1])[0] for r, b in enumerate(aq)])
        if not numpy.array_equal(pred, exp):
            r = int(numpy.argmax(pred != exp))
            return dict(**{"class": "dispatch"}, what="row %d (bucket %d): got %r, its bucket's model gives %r" % (r, aq[r], pred[r], exp[r]))
        # features given as integers at predict time: the outputs are those of the same numbers given as floats
        Qi = numpy.round(Q).astype(numpy.int64)
        if not numpy.allclose(m.predict(Qi), m.predict(Qi.astype(float)), rtol=0, atol=1e-12):
            return dict(**{"class": "integer-batch"}, what="predict on an int64 batch differs from the same rows as float64")
        # the same array object refilled in place between two calls: every row still goes to ITS bucket's model
        buf = Q.copy()
        m.predict(buf)
        buf[:] = Q[::-1]
        if not numpy.array_equal(m.predict(buf), exp[::-1]):
            return dict(**{"class": "dispatch"}, what="second call on the same array object (refilled in place): rows do not get their bucket's model")
        # one bucket per row, unseen buckets at -1: a row of an unseen discretizer cell must not borrow another bucket
        if c["binner"] == "kbins":
            tr = m.binner_.transform(Q).toarray().astype(int)
            trX = m.binner_.transform(X).toarray().astype(int)
            seen = {tuple(t) for t in trX}
            for r in range(len(Q)):
                if (tuple(tr[r]) in seen) != (aq[r] >= 0):
                    return dict(**{"class": "unseen-bucket"}, what="row %d: cell seen at training=%r but bucket id %d" % (r, tuple(tr[r]) in seen, aq[r]))
        return None
    yc = (y > numpy.percentile(y, 60)).astype(int) * 2 + 3          # labels {3, 5}
    m = PiecewiseClassifier(binners()[c["binner"]](), LogisticRegression(), random_state=0).fit(X, yc)
    P = m.predict_proba(Q)
    if P.shape != (len(Q), 2) or not numpy.allclose(P.sum(axis=1), 1.0, atol=1e-9) or numpy.any(P < 0):
        return dict(**{"class": "proba"}, what="predict_proba rows are not distributions over classes_")
    Qi = numpy.round(Q).astype(numpy.int64)
    Pi = m.predict_proba(Qi)
    if not numpy.allclose(Pi, m.predict_proba(Qi.astype(float)), rtol=0, atol=1e-12) or not numpy.allclose(Pi.sum(axis=1), 1.0, atol=1e-9):
        return dict(**{"class": "integer-batch"}, what="predict_proba on an int64 batch differs from the same rows as float64 / is not a distribution")
    lab = m.predict(Q)
    if not set(lab.tolist()) <= set(m.classes_.tolist()):
        return dict(**{"class": "labels"}, what="predicted labels %r not in classes_ %r" % (sorted(set(lab.tolist())), m.classes_.tolist()))
    aq = buckets_of(m, Q)
    for r, b in enumerate(aq):
        e = m.estimators_[b] if b >= 0 else m.mean_estimator_
        if not numpy.allclose(P[r], e.predict_proba(Q[r:r + 1])[0], rtol=0, atol=1e-12):   # batch vs single-row BLAS rounding
            return dict(**{"class": "dispatch"}, what="row %d: probabilities are not those of its bucket's model" % r)
    return None


def replay(cex):
    if "case" in cex and "inputs" not in cex:
        f = check(cex["case"])
        return dict(fails=f is not None, observed=f)
    for c in cases("quick", 0):
        try:
            f = check(c)
        except Exception as e:
            f = dict(**{"class": "exception:" + type(e).__name__}, what=str(e))
        if f is not None:
            return dict(fails=True, observed=f, lifted_case=c)
    return dict(fails=False, note="no failing input on the quick domain")


if __name__ == "__main__":
    main("C08", cases, check, replay,
         rule="4 (8) data sets with a gap (unseen discretizer cells) x binners {tree depth 1,2,3, KBinsDiscretizer} x weights; recording local regressor: "
              "exact training sets per bucket, exact dispatch incl. unseen buckets; classifier: distributions, labels, dispatch; n_jobs in {None,1,2,4}")
