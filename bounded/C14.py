"""Bounded stand-in for C14 (labelled bounded): traceable vectorizers against scikit-learn's on small corpora."""
NEEDS_CYTHON = False
import sys, os
sys.path.insert(0, os.path.dirname(os.path.dirname(os.path.abspath(__file__))))
import numpy
from bounded.common import main

CORPORA = [
    ["the cat sat on the mat", "the dog sat", "", "cat"],
    ["hello world", "hello", "world hello world hello"],
    ["a b c d e f", "f e d c b a", "a a a a", "b"],
    ["one", "two words", "three words here", "four words are here"],
    ["This is a sentence.", "Another SENTENCE here, this one!", "is is is"],
    ["x y", "y z", "z x", ""],
    ["The Cat and THE dog", "Is it A cat", "the the The", "AND"],          # upper-case forms of stop words (kept when lowercase=False)
]
OPTIONS = [dict(), dict(ngram_range=(1, 2)), dict(ngram_range=(2, 2)), dict(ngram_range=(1, 3)), dict(ngram_range=(2, 3)),
           dict(ngram_range=(1, 2), stop_words=["the", "is", "a"]), dict(stop_words="english", ngram_range=(1, 2)), dict(lowercase=False, ngram_range=(1, 2)),
           dict(min_df=2), dict(max_df=0.7, ngram_range=(1, 2)), dict(max_features=5, ngram_range=(1, 2)), dict(binary=True, ngram_range=(1, 2)),
           dict(stop_words=["the", "is", "a", "hello"]), dict(stop_words="english"), dict(ngram_range=(3, 3)), dict(binary=True, lowercase=False),
           dict(ngram_range=(2, 2), stop_words=["the", "words", "x"]),
           dict(lowercase=False, stop_words=["the", "is", "a", "and"]), dict(lowercase=False, stop_words=["the", "is", "a", "and"], ngram_range=(1, 2)),
           dict(lowercase=False, stop_words="english", ngram_range=(1, 2))]


def cases(tier, seed):
    for ci in range(len(CORPORA)):
        for oi in range(len(OPTIONS)):
            for kind in ("count", "tfidf"):
                yield dict(corpus=ci, options=oi, kind=kind)


def check(c):
    from sklearn.feature_extraction.text import CountVectorizer, TfidfVectorizer
    from mlinsights.mlmodel import TraceableCountVectorizer, TraceableTfidfVectorizer
    corpus, opts = CORPORA[c["corpus"]], OPTIONS[c["options"]]
    sk_cls, ml_cls = (CountVectorizer, TraceableCountVectorizer) if c["kind"] == "count" else (TfidfVectorizer, TraceableTfidfVectorizer)
    try:
        sk = sk_cls(**opts)
        Ms = sk.fit_transform(corpus)
    except ValueError:
        try:
            ml_cls(**opts).fit_transform(corpus)
        except ValueError:
            return None
        return dict(**{"class": "accepts-what-sklearn-refuses"}, what="scikit-learn refuses this corpus/options, the traceable vectorizer does not")
    ml = ml_cls(**opts)
    Mm = ml.fit_transform(corpus)
    if Mm.shape != Ms.shape:
        missing = sorted(set(sk.vocabulary_) - {" ".join(k) if isinstance(k, tuple) else k for k in ml.vocabulary_})
        return dict(**{"class": "matrix-shape"}, what="document-term matrix %r vs scikit-learn %r; missing n-grams %r" % (Mm.shape, Ms.shape, missing[:5]))
    if not numpy.allclose(Mm.toarray(), Ms.toarray(), rtol=0, atol=1e-12):
        return dict(**{"class": "matrix-values"}, what="document-term matrices differ")
    for key, col in ml.vocabulary_.items():
        if not (isinstance(key, tuple) and all(isinstance(t, str) for t in key)):
            return dict(**{"class": "vocabulary-key"}, what="vocabulary_ key %r is not a flat tuple of tokens" % (key,))
        if sk.vocabulary_.get(" ".join(key)) != col:
            return dict(**{"class": "vocabulary-column"}, what="%r maps to column %r, scikit-learn's %r to %r" % (key, col, " ".join(key), sk.vocabulary_.get(" ".join(key))))
    T = ["the cat", "unseen words only", ""]
    if not numpy.allclose(ml.transform(T).toarray(), sk.transform(T).toarray(), rtol=0, atol=1e-12):
        return dict(**{"class": "transform"}, what="transform of new documents differs")
    return None


def replay(cex):
    if "case" in cex and "inputs" not in cex:
        f = check(cex["case"])
        return dict(fails=f is not None, observed=f)
    for c in cases("quick", 0):
        try:
            f = check(c)
        except Exception as e:
            f = dict(**{"class": "exception:" + type(e).__name__}, what=str(e))
        if f is not None:
            return dict(fails=True, observed=f, lifted_case=c)
    return dict(fails=False, note="no failing input on the quick domain")


if __name__ == "__main__":
    main("C14", cases, check, replay,
         rule="6 corpora (empty documents, repeats, documents shorter than n, exactly n tokens) x 12 option sets (ngram_range, stop words, lowercase, "
              "min_df/max_df/max_features, binary) x {Count, Tfidf}: matrices, vocabulary_ keys/columns and transform of new documents compared with scikit-learn")
