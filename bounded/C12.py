"""Bounded stand-in for C12 (labelled bounded): tree utilities on the real (compiled) code."""
NEEDS_CYTHON = True
import sys, os, itertools
sys.path.insert(0, os.path.dirname(os.path.dirname(os.path.abspath(__file__))))
import numpy
from bounded.common import main, to_array

GRID = [-2.0, -0.5, 0.0, 0.25, 1.0, 1.5, 3.0]        # float32-exact values


def cases(tier, seed):
    maxlen = 4 if tier == "quick" else 6
    for L in range(1, maxlen + 1):
        for comb in itertools.combinations(GRID, L):
            yield dict(kind="digitize", bins=list(comb))
            if L >= 2:
                yield dict(kind="digitize", bins=list(reversed(comb)))
    for s in range(3 if tier == "quick" else 8):
        for depth in (1, 2, 4, None):
            yield dict(kind="tree", seed=seed + s, depth=depth, clf=(s % 2 == 0))
        for mln in (4, 7):
            # best-first growth: nodes are NOT stored depth-first (a left child is not always its parent's successor)
            yield dict(kind="tree", seed=seed + s, depth=None, clf=(s % 2 == 0), max_leaf_nodes=mln)
    yield dict(kind="tree-threshold-minus-2")


def check(c):
    from mlinsights.mltree import digitize2tree, tree_leave_index, tree_node_range, predict_leaves
    if c["kind"] == "digitize-float32":
        # pinned witness of the known finding: values that are not float32-exact
        bins = numpy.array(c["bins"])
        got = digitize2tree(bins, right=True).predict(numpy.array([[c["x"]]]))[0]
        exp = numpy.digitize(c["x"], bins, right=True)
        return None if got == exp else dict(**{"class": "digitize-mismatch-float32"}, what="tree %r vs numpy %r" % (got, exp))
    if c["kind"] == "digitize":
        bins = numpy.array(c["bins"])
        xs = sorted(set(GRID + [b + d for b in c["bins"] for d in (-0.125, 0.125)] + [-10.0, 10.0]))
        x = numpy.array(xs)
        exp = numpy.digitize(x, bins, right=True)
        tree = digitize2tree(bins, right=True)
        got = tree.predict(x.reshape(-1, 1))
        if not numpy.array_equal(got, exp):
            k = int(numpy.argmax(got != exp))
            return dict(**{"class": "digitize-mismatch"}, what="bins=%r x=%r: tree %r, numpy.digitize %r" % (c["bins"], x[k], got[k], exp[k]))
        try:
            digitize2tree(bins, right=False)
            return dict(**{"class": "right-false-accepted"}, what="right=False accepted")
        except RuntimeError:
            pass
        return None
    from sklearn.tree import DecisionTreeClassifier, DecisionTreeRegressor
    if c["kind"] == "tree-threshold-minus-2":
        X = numpy.array([[-3.0], [-1.0], [0.0], [5.0]])
        y = numpy.array([0, 1, 2, 3])
        m = DecisionTreeClassifier(random_state=0).fit(X, y)
        Q = X
    else:
        rs = numpy.random.RandomState(c["seed"])
        X = rs.randint(-3, 4, size=(40, 2)).astype(float)
        y = (X[:, 0] * 2 - X[:, 1]).astype(int) if c["clf"] else X[:, 0] * 2 - X[:, 1] + rs.rand(40)
        m = (DecisionTreeClassifier if c["clf"] else DecisionTreeRegressor)(max_depth=c["depth"], random_state=0,
                                                                            max_leaf_nodes=c.get("max_leaf_nodes")).fit(X, y)
        Q = numpy.vstack([X, rs.randint(-5, 6, size=(30, 2)).astype(float) + 0.5])
    t = m.tree_
    leaves = [i for i in range(t.node_count) if t.children_left[i] == -1]
    got = tree_leave_index(m)
    if list(got) != leaves:
        return dict(**{"class": "leave-index"}, what="tree_leave_index %r, leaves %r" % (list(got), leaves))
    pl = predict_leaves(m, Q)
    ap = m.apply(Q)
    if not numpy.array_equal(numpy.asarray(pl), ap):
        return dict(**{"class": "predict-leaves"}, what="predict_leaves differs from apply")
    for leaf in leaves:
        box = tree_node_range(m, leaf)
        inside = numpy.ones(len(Q), dtype=bool)
        for f in range(box.shape[0]):
            lo, hi = box[f]
            if not numpy.isnan(lo):
                inside &= Q[:, f] > lo
            if not numpy.isnan(hi):
                inside &= Q[:, f] <= hi
        if not numpy.array_equal(inside, ap == leaf):
            return dict(**{"class": "node-range"}, what="tree_node_range of leaf %d is not the box of the points routed to it" % leaf)
    # the same estimator object fitted again (other depth, other targets): every function reads the tree it is given NOW
    if c["kind"] == "tree":
        m.set_params(max_depth=(c["depth"] or 3) + 2, max_leaf_nodes=None)
        m.fit(X[::-1] * numpy.array([1.0, -1.0]), y)
        t = m.tree_
        leaves2 = [i for i in range(t.node_count) if t.children_left[i] == -1]
        if list(tree_leave_index(m)) != leaves2:
            return dict(**{"class": "leave-index"}, what="after a refit of the same estimator: tree_leave_index is not the list of leaves")
        if not numpy.array_equal(numpy.asarray(predict_leaves(m, Q)), m.apply(Q)):
            return dict(**{"class": "predict-leaves"}, what="after a refit of the same estimator: predict_leaves differs from apply")
    return None


def replay(cex):
    if "case" in cex and "inputs" not in cex:
        f = check(cex["case"])
        return dict(fails=f is not None, observed=f)
    for c in cases("quick", 0):
        try:
            f = check(c)
        except Exception as e:
            f = dict(**{"class": "exception:" + type(e).__name__}, what=str(e))
        if f is not None:
            return dict(fails=True, observed=f, lifted_case=c)
    return dict(fails=False, note="no failing input on the quick domain")


if __name__ == "__main__":
    main("C12", cases, check, replay,
         rule="all strictly monotone bins of length 1..4 (6 thorough) over a 7-value float32-exact grid, both directions, x on / between / beyond "
              "the edges; fitted classifier and regressor trees of depth 1,2,4,unbounded on integer grids (leaf list, predict_leaves vs apply, "
              "node range = box of routed points); a tree with threshold exactly -2")
