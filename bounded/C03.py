"""Bounded stand-in for C03 (labelled bounded): refit vs fresh clone, two fits under one global seed,
integer random_state under different global seeds."""
NEEDS_CYTHON = True
import sys, os
sys.path.insert(0, os.path.dirname(os.path.dirname(os.path.abspath(__file__))))
import numpy
from bounded.common import main
from bounded import _estimators as EST

SEEDED = {"KMeansL1L2-L1": "norm L1 derives all seeds from random_state", "KMeansL1L2-L2": "KMeans", "PiecewiseClassifier": "random_state documented",
          "ClassifierAfterKMeans": "inner random states given"}


def cases(tier, seed):
    for n in sorted(EST.configs()):
        if n in EST.FIXED_DIM:
            continue            # the refit below changes the number of features
        yield dict(name=n, op="refit")
        yield dict(name=n, op="same-global-seed")
        if n in SEEDED:
            yield dict(name=n, op="int-random-state-vs-global-seed")
    for rs in (None, 0, 1, 7):
        yield dict(name="PiecewiseClassifier-missing-class", op="reproducible", random_state=rs)
    # an integer seed is an integer seed whatever its type (numpy.random.randint / numpy.arange yield numpy integers)
    for rs in ("numpy.int64:7", "numpy.int32:0"):
        yield dict(name="PiecewiseClassifier-missing-class", op="reproducible", random_state=rs)
    yield dict(name="PermutationReciprocalTransformer", op="refit-closest")


def piecewise_missing_class(random_state, gseed):
    from sklearn.linear_model import LogisticRegression
    from sklearn.tree import DecisionTreeRegressor
    from mlinsights.mlmodel import PiecewiseClassifier
    rs = numpy.random.RandomState(5)
    X = rs.randn(60, 2)
    y = (X[:, 0] > 0).astype(int)          # the tree binner on y separates the classes: buckets miss a class
    numpy.random.seed(gseed)
    m = PiecewiseClassifier(DecisionTreeRegressor(max_depth=2, random_state=0), LogisticRegression(), random_state=random_state)
    m.fit(X, y)
    return numpy.concatenate([e.coef_.ravel() for e in m.estimators_])


def check(c):
    d = EST.datasets(1)
    if c["op"] == "reproducible":
        if isinstance(c["random_state"], str):
            tname, v_ = c["random_state"].split(":")
            c = dict(c, random_state=getattr(numpy, tname.split(".")[1])(int(v_)))
        a = piecewise_missing_class(c["random_state"], 3)
        b = piecewise_missing_class(c["random_state"], 3)
        if not numpy.array_equal(a, b):
            return dict(**{"class": "not-reproducible-under-global-seed"}, what="two fits under numpy.random.seed(3) differ (random_state=%r)" % c["random_state"])
        if c["random_state"] is not None:
            b2 = piecewise_missing_class(c["random_state"], 99)
            if not numpy.array_equal(a, b2):
                return dict(**{"class": "int-random-state-depends-on-global-seed"},
                            what="PiecewiseClassifier(random_state=%r) depends on the global seed" % c["random_state"])
        return None
    if c["op"] == "refit-closest":
        from mlinsights.mlmodel import PermutationReciprocalTransformer
        t = PermutationReciprocalTransformer(random_state=0, closest=True)
        t.fit(None, numpy.array([1., 2., 3., 4.]))
        t.transform(None, numpy.array([2.2]))
        y2 = numpy.array([10., 20., 30.])
        t.fit(None, y2)
        f = PermutationReciprocalTransformer(random_state=0, closest=True).fit(None, y2)
        a, b = t.transform(None, numpy.array([19., 31.]))[1], f.transform(None, numpy.array([19., 31.]))[1]
        if not numpy.array_equal(a, b):
            return dict(**{"class": "stale-cache"}, what="refit differs from fresh: %r vs %r" % (a, b))
        # the SAME unseen values asked before and after a refit on labels that contain the old ones and more (an answer remembered per value
        # would still be a valid label, silently the wrong one)
        t = PermutationReciprocalTransformer(random_state=0, closest=True)
        t.fit(None, numpy.array([0., 10., 20.]))
        q = numpy.array([6., 13., 6.])
        t.transform(None, q)
        y3 = numpy.array([0., 4., 10., 14., 20.])
        t.fit(None, y3)
        f = PermutationReciprocalTransformer(random_state=0, closest=True).fit(None, y3)
        a, b = t.transform(None, q)[1], f.transform(None, q)[1]
        if not numpy.array_equal(a, b):
            return dict(**{"class": "stale-cache"}, what="same unseen values after a refit: %r, a fresh instance gives %r" % (a.tolist(), b.tolist()))
        return None
    factory, kind, _, method = EST.configs()[c["name"]]
    X1, y1 = EST.target(d, kind, second=True)
    X, y = EST.target(d, kind)
    if c["op"] == "refit":
        a, b = factory(), factory()
        numpy.random.seed(4)
        EST.fit(a, X1[:, :X1.shape[1]], y1)           # another training set: other size, dimension, labels
        numpy.random.seed(9)
        EST.fit(a, X, y)
        numpy.random.seed(9)
        EST.fit(b, X, y)
        oa, ob = EST.output(a, method, X), EST.output(b, method, X)
        if oa.shape != ob.shape or not numpy.allclose(oa, ob, rtol=0, atol=1e-9, equal_nan=True):
            return dict(**{"class": "refit-differs-from-fresh"}, what="fit(A); fit(B) differs from a fresh fit(B)")
        return None
    if c["op"] == "same-global-seed":
        outs = []
        for _ in range(2):
            e = factory()
            numpy.random.seed(21)
            EST.fit(e, X, y)
            outs.append(EST.output(e, method, X))
        if not numpy.array_equal(outs[0], outs[1], equal_nan=True):
            return dict(**{"class": "not-reproducible-under-global-seed"}, what="two fits under the same global seed differ")
        return None
    outs = []
    for g in (1, 2):
        e = factory()
        numpy.random.seed(g)
        EST.fit(e, X, y)
        outs.append(EST.output(e, method, X))
    if not numpy.array_equal(outs[0], outs[1], equal_nan=True):
        return dict(**{"class": "int-random-state-depends-on-global-seed"}, what="fitted model depends on the global seed despite integer random_state")
    return None


def replay(cex):
    if "case" in cex and "inputs" not in cex:
        f = check(cex["case"])
        return dict(fails=f is not None, observed=f)
    for c in cases("quick", 0):
        try:
            f = check(c)
        except Exception as e:
            f = dict(**{"class": "exception:" + type(e).__name__}, what=str(e))
        if f is not None:
            return dict(fails=True, observed=f, lifted_case=c)
    return dict(fails=False, note="no failing input on the quick domain")


if __name__ == "__main__":
    main("C03", cases, check, replay,
         rule="every configured estimator class x {fit(A);fit(B) vs fresh fit(B) with A of other size/dimension/labels, two fits under one global "
              "seed, integer random_state under two global seeds}; PiecewiseClassifier with buckets missing a class x random_state in {None,0,1,7}")
