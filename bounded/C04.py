"""Bounded stand-in for C04 (labelled bounded): batch / sub-batch / permutation / single-row independence, pickle and
clone_with_fitted_parameters round trips on fitted models (compiled criteria included)."""
NEEDS_CYTHON = True
import sys, os, pickle
sys.path.insert(0, os.path.dirname(os.path.dirname(os.path.abspath(__file__))))
import numpy
from bounded.common import main
from bounded import _estimators as EST


def cases(tier, seed):
    for name in sorted(EST.configs()):
        for op in ("rows", "pickle", "clone-fitted"):
            yield dict(name=name, op=op, seed=seed)
    yield dict(name="PiecewiseRegressor-bins", op="rows-unseen-buckets", seed=seed)
    yield dict(name="PiecewiseClassifier", op="rows-unseen-buckets", seed=seed)
    # the decision path of the tree of classifiers (a per-row output too): deeper trees, so that sub-batches reach nodes of depth >= 2
    for depth in (3, 4):
        yield dict(name="DecisionTreeLogisticRegression", op="decision-path-rows", seed=seed, depth=depth)


def close(a, b):
    a, b = numpy.asarray(a, dtype=float), numpy.asarray(b, dtype=float)
    return a.shape == b.shape and numpy.allclose(a, b, rtol=0, atol=1e-9, equal_nan=True)


def check_decision_path(c):
    from mlinsights.mlmodel import DecisionTreeLogisticRegression
    rs = numpy.random.RandomState(c["seed"] + 11)
    X = rs.randn(120, 2)
    y = ((X[:, 0] * X[:, 1] > 0) ^ (X[:, 0] > 0.8)).astype(int)          # xor-like: the tree needs several levels
    m = DecisionTreeLogisticRegression(max_depth=c["depth"], min_samples_leaf=3).fit(X, y)
    Q = rs.randn(25, 2)
    dense = lambda M: numpy.asarray(M.todense() if hasattr(M, "todense") else M)
    full = dense(m.decision_path(Q))
    if full.shape[0] != len(Q):
        return dict(**{"class": "decision-path-shape"}, what="decision_path has %d rows for %d observations" % (full.shape[0], len(Q)))
    perm = rs.permutation(len(Q))
    if not numpy.array_equal(dense(m.decision_path(Q[perm])), full[perm]):
        return dict(**{"class": "decision-path-permutation"}, what="decision_path of a permuted batch is not the permuted decision_path")
    for r in range(len(Q)):
        one = dense(m.decision_path(Q[r:r + 1]))
        if not numpy.array_equal(one[0], full[r]):
            return dict(**{"class": "decision-path-single-row"}, what="row %d alone: path %r, inside the batch %r" % (r, one[0].tolist(), full[r].tolist()))
    for a_, b_ in ((3, 9), (10, 25), (0, 2)):
        if not numpy.array_equal(dense(m.decision_path(Q[a_:b_])), full[a_:b_]):
            return dict(**{"class": "decision-path-sub-batch"}, what="rows %d..%d alone give other paths than inside the batch" % (a_, b_))
    return None


def check(c):
    from mlinsights.mlmodel.sklearn_testing import clone_with_fitted_parameters
    if c["op"] == "decision-path-rows":
        return check_decision_path(c)
    factory, kind, _, method = EST.configs()[c["name"]]
    d = EST.datasets(2)
    X, y = EST.target(d, kind)
    est = factory()
    numpy.random.seed(3)
    EST.fit(est, X, y)
    rs = numpy.random.RandomState(c["seed"] + 5)
    Q = numpy.vstack([X[:12], X[:3]])
    if c["op"] == "rows-unseen-buckets":
        Q = numpy.vstack([X[:10], rs.randn(15, X.shape[1]) * 4, numpy.array([[50.0, -50.0, 50.0][:X.shape[1]]])])
    if kind == "nmf":
        Q = numpy.abs(Q)
    full = EST.output(est, method, Q)
    if c["op"] in ("rows", "rows-unseen-buckets"):
        if c["name"].startswith("ConstraintKMeans") and getattr(est, "balanced_predictions", False):
            return None
        if not close(EST.output(est, method, Q), full):
            return dict(**{"class": "repeated-call"}, what="two calls on the same batch differ")
        perm = rs.permutation(len(Q))
        if not close(EST.output(est, method, Q[perm]), full[perm]):
            return dict(**{"class": "permutation"}, what="outputs depend on the order of the rows")
        sub = numpy.sort(rs.choice(len(Q), size=len(Q) // 3, replace=False))
        if not close(EST.output(est, method, Q[sub]), full[sub]):
            return dict(**{"class": "sub-batch"}, what="outputs of a sub-batch differ from the same rows inside the batch")
        if c["op"] == "rows-unseen-buckets":
            tail = numpy.arange(10, len(Q))       # the far-away rows: (mostly) buckets unseen at training time, alone in a batch
            if not close(EST.output(est, method, Q[tail]), full[tail]):
                return dict(**{"class": "sub-batch-unseen-only"}, what="the rows of unseen buckets alone give other outputs than inside the batch")
            for a_, b_ in ((10, 12), (12, 15), (len(Q) - 3, len(Q))):
                if not close(EST.output(est, method, Q[a_:b_]), full[a_:b_]):
                    return dict(**{"class": "sub-batch-unseen-only"}, what="rows %d..%d alone give other outputs than inside the batch" % (a_, b_))
        # the same array OBJECT whose content changed between two calls (buffers are reused): outputs follow the content
        buf = Q.copy()
        if not close(EST.output(est, method, buf), full):
            return dict(**{"class": "repeated-call"}, what="a copy of the batch gives other outputs")
        buf[:] = Q[perm]
        if not close(EST.output(est, method, buf), full[perm]):
            return dict(**{"class": "same-array-new-content"}, what="a second call on the same array object, refilled in place, does not follow the new content")
        for r in list(range(0, len(Q), 4)) + [len(Q) - 1]:
            one = EST.output(est, method, Q[r:r + 1])
            if not close(one[0], full[r]):
                return dict(**{"class": "single-row"}, what="row %d alone gives %r, inside the batch %r" % (r, numpy.asarray(one[0]).tolist(), numpy.asarray(full[r]).tolist()))
        return None
    if c["op"] == "pickle":
        est2 = pickle.loads(pickle.dumps(est))
        if not close(EST.output(est2, method, Q), full):
            return dict(**{"class": "pickle"}, what="outputs differ after a pickle round trip")
        return None
    try:
        est3 = clone_with_fitted_parameters(est)
    except RuntimeError as e:
        if "Cannot migrate trained parameters" in str(e):
            return None        # documented refusal (callable attribute)
        raise
    if est3 is est or not close(EST.output(est3, method, Q), full):
        return dict(**{"class": "clone-fitted"}, what="clone_with_fitted_parameters gives a model with different outputs")
    return None


def replay(cex):
    if "case" in cex and "inputs" not in cex:
        f = check(cex["case"])
        return dict(fails=f is not None, observed=f)
    for c in cases("quick", 0):
        try:
            f = check(c)
        except Exception as e:
            f = dict(**{"class": "exception:" + type(e).__name__}, what=str(e))
        if f is not None:
            return dict(fails=True, observed=f, lifted_case=c)
    return dict(fails=False, note="no failing input on the quick domain")


if __name__ == "__main__":
    main("C04", cases, check, replay,
         rule="every configured fitted estimator (18, compiled criteria included) x {repeated call, permutation, sub-batch, single rows incl. rows of "
              "unseen buckets; pickle round trip; clone_with_fitted_parameters}; outputs compared to 1e-9")
