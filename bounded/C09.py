"""Bounded stand-in for C09 (labelled bounded): the compiled criteria against an exact rational oracle, per-leaf least squares."""
NEEDS_CYTHON = True
import sys, os, itertools
from fractions import Fraction
sys.path.insert(0, os.path.dirname(os.path.dirname(os.path.abspath(__file__))))
import numpy
from bounded.common import main


def cases(tier, seed):
    nmax = 5 if tier == "quick" else 7
    for crit in ("fast", "slow"):
        for n in range(2, nmax + 1):
            for wk in ("unit", "mixed"):
                for order in ("identity", "reversed", "shuffled"):
                    yield dict(kind="criterion", crit=crit, n=n, weights=wk, order=order, seed=seed)
    for s in range(4 if tier == "quick" else 10):
        yield dict(kind="mselin", seed=seed + s, depth=1 + s % 3)
        yield dict(kind="simple-leaf-mean", seed=seed + s, depth=1 + s % 3)
    yield dict(kind="simple-tree-vs-true-mse", seed=0)
    # the 'mselin' criterion object itself, every node range and split position: impurity = mean squared residual of the least-squares linear
    # fit for ranges with more rows than coefficients (unit weights), weighted mean as node value
    for d in (1, 2):
        for order in ("identity", "shuffled"):
            yield dict(kind="linear-criterion", d=d, n=(7 if tier == "quick" else 10), order=order, seed=seed)
    # the text extracted from the .pyx files (what the proof reads) executed by CPython, against the compiled extension
    for crit in ("fast", "slow"):
        for s in range(3 if tier == "quick" else 8):
            yield dict(kind="extracted-vs-compiled", crit=crit, seed=seed * 7 + s, n=4 + s)


def wmean(y, w):
    return sum(a * b for a, b in zip(y, w)) / sum(w)


def wmse(y, w):
    m = wmean(y, w)
    return sum(b * (a - m) ** 2 for a, b in zip(y, w)) / sum(w)


def _extracted(root):
    """the Python-subset text of the three .pyx files (pyvc.pyxstrip), as modules of a throw-away package"""
    import types
    from pyvc.pyxstrip import strip
    pkg = types.ModuleType("_px")
    pkg.__path__ = []
    sys.modules["_px"] = pkg
    out = {}
    for name in ("_piecewise_tree_regression_common", "piecewise_tree_regression_criterion", "piecewise_tree_regression_criterion_fast"):
        st = strip(open(os.path.join(root, "mlinsights", "mlmodel", name + ".pyx")).read())
        m = types.ModuleType("_px." + name)
        m.__package__ = "_px"
        sys.modules["_px." + name] = m
        exec(compile(st.text, name + ".pyx", "exec"), m.__dict__)
        out[name] = m
    return out


def check(c):
    from mlinsights.mlmodel import _piecewise_tree_regression_common as C
    if c["kind"] == "extracted-vs-compiled":
        import mlinsights
        from mlinsights.mlmodel.piecewise_tree_regression_criterion import SimpleRegressorCriterion
        from mlinsights.mlmodel.piecewise_tree_regression_criterion_fast import SimpleRegressorCriterionFast
        ex = _extracted(os.path.dirname(os.path.dirname(mlinsights.__file__)))
        n = c["n"]
        rs = numpy.random.RandomState(c["seed"])
        y = numpy.round(rs.randn(n) * 3, 2)
        w = rs.randint(1, 5, n).astype(float)
        samples = numpy.arange(n, dtype=numpy.intp)
        rs.shuffle(samples)
        comp_cls = SimpleRegressorCriterionFast if c["crit"] == "fast" else SimpleRegressorCriterion
        ext_cls = (ex["piecewise_tree_regression_criterion_fast"].SimpleRegressorCriterionFast if c["crit"] == "fast"
                   else ex["piecewise_tree_regression_criterion"].SimpleRegressorCriterion)
        for start in range(0, n - 1):
            for end in range(start + 2, n + 1):
                a = comp_cls(1, n)
                C._test_criterion_init(a, y.reshape(-1, 1).copy(), w.copy(), float(w.sum()), samples, start, end)
                b = ext_cls(1, n)
                rb = b.init(y.reshape(-1, 1).copy(), w.copy(), float(w.sum()), samples, start, end)
                if rb != 0:
                    return dict(**{"class": "extracted-vs-compiled"}, what="extracted init returns %r" % (rb,))
                for pos in [None] + list(range(start + 1, end)):
                    if pos is not None:
                        C._test_criterion_update(a, pos)
                        b.update(pos)
                    va = C._test_criterion_node_value(a)
                    vb = [0.0]
                    b.node_value(vb)
                    la, ra = C._test_criterion_node_impurity_children(a) if pos is not None else (0.0, 0.0)
                    lb, rb2 = [0.0], [0.0]
                    if pos is not None:
                        b.children_impurity(lb, rb2)
                    got = (va, C._test_criterion_node_impurity(a), la, ra, C._test_criterion_proxy_impurity_improvement(a) if pos is not None else 0.0,
                           a.weighted_n_left if hasattr(a, "weighted_n_left") else None)
                    exp = (vb[0], b.node_impurity(), lb[0], rb2[0], b.proxy_impurity_improvement() if pos is not None else 0.0, None)
                    for name, x, e in zip(("node_value", "node_impurity", "left", "right", "proxy"), got, exp):
                        if not (abs(x - e) <= 1e-9 * max(1.0, abs(e)) or (x != x and e != e)):
                            return dict(**{"class": "extracted-vs-compiled"}, what="%s (start=%d,pos=%r,end=%d): compiled %s = %r, extracted text = %r" % (
                                c["crit"], start, pos, end, name, x, e))
        return None
    if c["kind"] == "criterion":
        from mlinsights.mlmodel.piecewise_tree_regression_criterion import SimpleRegressorCriterion
        from mlinsights.mlmodel.piecewise_tree_regression_criterion_fast import SimpleRegressorCriterionFast
        n = c["n"]
        rs = numpy.random.RandomState(c["seed"] + n)
        y = rs.randint(-3, 6, n).astype(float)
        w = numpy.ones(n) if c["weights"] == "unit" else rs.randint(1, 4, n).astype(float)
        samples = numpy.arange(n, dtype=numpy.intp)
        if c["order"] == "reversed":
            samples = samples[::-1].copy()
        elif c["order"] == "shuffled":
            rs.shuffle(samples)
        X = rs.rand(n, 1)
        # ONE criterion object initialised again and again, as the tree builder does (root first, then every sub-range): what an earlier
        # initialisation left in its buffers must not show in a later one
        shared = (SimpleRegressorCriterionFast if c["crit"] == "fast" else SimpleRegressorCriterion)(1, n)
        C._test_criterion_init(shared, y.reshape(-1, 1).copy(), w.copy(), float(w.sum()), samples, 0, n)
        for start in range(0, n - 1):
            for end in range(start + 2, n + 1):
                crit = shared if (start + end + n) % 2 == 0 else (SimpleRegressorCriterionFast if c["crit"] == "fast" else SimpleRegressorCriterion)(1, n)
                C._test_criterion_init(crit, y.reshape(-1, 1).copy(), w.copy(), float(w.sum()), samples, start, end)
                idx = [int(i) for i in samples[start:end]]
                ys, ws = [Fraction(y[i]) for i in idx], [Fraction(w[i]) for i in idx]
                val = C._test_criterion_node_value(crit)
                if abs(val - float(wmean(ys, ws))) > 1e-9:
                    return dict(**{"class": "node-value"}, what="%s (start=%d,end=%d): node value %r, weighted mean %r" % (c["crit"], start, end, val, float(wmean(ys, ws))))
                imp = C._test_criterion_node_impurity(crit)
                if abs(imp - float(wmse(ys, ws))) > 1e-9:
                    return dict(**{"class": "node-impurity"}, what="%s (start=%d,end=%d): impurity %r, weighted MSE %r" % (c["crit"], start, end, imp, float(wmse(ys, ws))))
                # boundary pos == start (the state right after init / reset): nothing on the left, the whole node on the right
                got0 = C._test_criterion_impurity_improvement(crit, imp, 0.0, imp)
                if abs(got0) > 1e-9:
                    return dict(**{"class": "improvement"}, what="%s (start=%d,pos=start,end=%d): improvement %r for an empty left child, expected 0" % (c["crit"], start, end, got0))
                for pos in range(start + 1, end):
                    C._test_criterion_update(crit, pos)
                    left, right = C._test_criterion_node_impurity_children(crit)
                    il, ir = idx[:pos - start], idx[pos - start:]
                    el = wmse([Fraction(y[i]) for i in il], [Fraction(w[i]) for i in il])
                    er = wmse([Fraction(y[i]) for i in ir], [Fraction(w[i]) for i in ir])
                    if abs(left - float(el)) > 1e-9 or abs(right - float(er)) > 1e-9:
                        return dict(**{"class": "children-impurity"}, what="%s (start=%d,pos=%d,end=%d): children %r/%r, true %r/%r" % (
                            c["crit"], start, pos, end, left, right, float(el), float(er)))
                    wl, wr, wn, W = sum(Fraction(w[i]) for i in il), sum(Fraction(w[i]) for i in ir), sum(ws), Fraction(float(w.sum()))
                    exp = wn / W * (wmse(ys, ws) - wr / wn * er - wl / wn * el)
                    got = C._test_criterion_impurity_improvement(crit, imp, left, right)
                    if abs(got - float(exp)) > 1e-9:
                        return dict(**{"class": "improvement"}, what="%s (start=%d,pos=%d,end=%d): improvement %r, expected %r" % (c["crit"], start, pos, end, got, float(exp)))
        return None
    if c["kind"] == "linear-criterion":
        from mlinsights.mlmodel.piecewise_tree_regression_criterion_linear import LinearRegressorCriterion
        n, d = c["n"], c["d"]
        rs = numpy.random.RandomState(c["seed"] * 31 + n + d)
        X = numpy.ascontiguousarray(numpy.round(rs.randn(n, d), 3))
        y = numpy.round(rs.randn(n) * 3 + 1, 3)
        order = numpy.arange(n, dtype=numpy.intp)
        if c["order"] == "shuffled":
            rs.shuffle(order)
        nbvar = d + 1

        def lin_mse(idx):
            A = numpy.hstack([X[idx], numpy.ones((len(idx), 1))])
            beta = numpy.linalg.lstsq(A, y[idx], rcond=None)[0]
            return float(((A @ beta - y[idx]) ** 2).mean())
        crit = LinearRegressorCriterion(1, X)
        y2 = numpy.ascontiguousarray(y[:, None])
        for start in range(0, n):
            for end in range(start + 1, n + 1):
                C._test_criterion_init(crit, y2, None, float(n), order, start, end)
                idx = order[start:end]
                v = C._test_criterion_node_value(crit)
                if abs(v - y[idx].mean()) > 1e-8:
                    return dict(**{"class": "mselin-node-value"}, what="range [%d,%d): node value %r, mean %r" % (start, end, v, float(y[idx].mean())))
                if end - start > nbvar:
                    imp, exp = C._test_criterion_node_impurity(crit), lin_mse(idx)
                    if abs(imp - exp) > 1e-7 * max(1.0, abs(exp)):
                        return dict(**{"class": "mselin-impurity"}, what="d=%d range [%d,%d) (%d rows, %d coefficients): impurity %r, MSE of the least-squares fit %r"
                                    % (d, start, end, end - start, nbvar, imp, exp))
                for pos in range(start + 1, end):
                    C._test_criterion_update(crit, pos)
                    left, right = C._test_criterion_node_impurity_children(crit)
                    for side, ids, got in (("left", order[start:pos], left), ("right", order[pos:end], right)):
                        if len(ids) > nbvar:
                            exp = lin_mse(ids)
                            if abs(got - exp) > 1e-7 * max(1.0, abs(exp)):
                                return dict(**{"class": "mselin-children-impurity"}, what="d=%d (%d,%d,%d): %s child (%d rows) impurity %r, MSE of the least-squares fit %r"
                                            % (d, start, pos, end, side, len(ids), got, exp))
        return None
    from mlinsights.mlmodel import PiecewiseTreeRegressor
    rs = numpy.random.RandomState(c["seed"])
    X = numpy.round(rs.rand(40, 2), 2)
    y = numpy.round(X[:, 0] * 3 + (X[:, 1] > 0.5) * 2 + rs.rand(40) * 0.1, 3)
    if c["kind"] == "mselin":
        m = PiecewiseTreeRegressor(criterion="mselin", max_depth=c["depth"], min_samples_leaf=4).fit(X, y)
        leaves = m.apply(X)
        pred = m.predict(X)
        if m.tree_.max_depth > c["depth"] or min(numpy.bincount(leaves)[numpy.unique(leaves)]) < 4:
            return dict(**{"class": "tree-hyper-parameters"}, what="max_depth / min_samples_leaf not honoured")
        for leaf in numpy.unique(leaves):
            rows = leaves == leaf
            A = numpy.hstack([X[rows], numpy.ones((rows.sum(), 1))])
            if rows.sum() <= A.shape[1]:
                continue
            beta = numpy.linalg.lstsq(A, y[rows], rcond=None)[0]
            if not numpy.allclose(pred[rows].ravel(), A @ beta, atol=1e-6):
                return dict(**{"class": "mselin-leaf-fit"}, what="predictions in leaf %d are not the least-squares fit of its rows" % leaf)
        # the fitted model evaluated at new rows given as integers / float32: the leaf's linear function at exactly those numbers
        Q = numpy.round(X[:12] * 3)
        ref = m.predict(Q.astype(numpy.float64))
        for dt in (numpy.int64, numpy.float32):
            got = m.predict(Q.astype(dt))
            if got.shape != ref.shape or not numpy.allclose(got, ref, atol=1e-5):
                return dict(**{"class": "mselin-batch-dtype"}, what="rows given as %s are not evaluated like the same float64 numbers" % dt.__name__)
        return None
    if c["kind"] == "simple-leaf-mean":
        m = PiecewiseTreeRegressor(criterion="simple", max_depth=c["depth"]).fit(X, y)
        leaves = m.apply(X)
        pred = m.predict(X)
        for leaf in numpy.unique(leaves):
            rows = leaves == leaf
            if not numpy.allclose(pred[rows], y[rows].mean(), atol=1e-9):
                return dict(**{"class": "simple-leaf-mean"}, what="prediction in leaf %d is not the leaf mean" % leaf)
        if m.tree_.max_depth > c["depth"]:
            return dict(**{"class": "tree-hyper-parameters"}, what="max_depth not honoured")
        return None
    # the 'simple' criterion used by the real splitter: stored impurities vs the true MSE of the rows routed to each node
    m = PiecewiseTreeRegressor(criterion="simple", max_depth=3, random_state=0).fit(X, y)
    path = m.decision_path(X).toarray().astype(bool)
    for node in range(m.tree_.node_count):
        rows = path[:, node]
        if abs(float(numpy.var(y[rows])) - m.tree_.impurity[node]) > 1e-9:
            return dict(**{"class": "fast-criterion-through-the-splitter"}, what="node %d: stored impurity %r, true MSE of its rows %r" % (
                node, m.tree_.impurity[node], float(numpy.var(y[rows]))))
    return None


def replay(cex):
    if "case" in cex and "inputs" not in cex:
        f = check(cex["case"])
        return dict(fails=f is not None, observed=f)
    for c in cases("quick", 0):
        try:
            f = check(c)
        except Exception as e:
            f = dict(**{"class": "exception:" + type(e).__name__}, what=str(e))
        if f is not None and f.get("class") != "fast-criterion-through-the-splitter":
            return dict(fails=True, observed=f, lifted_case=c)
    return dict(fails=False, note="no failing input (other than the known finding) on the quick domain")


if __name__ == "__main__":
    main("C09", cases, check, replay,
         rule="criteria 'simple' (slow) and 'simple' fast through the exported test accessors: integer targets, unit and mixed weights, 3 sample orders, n<=5 (7), "
              "ALL (start, pos, end) with non-empty children, against exact rationals (node value, impurity, children impurities, improvement); 'mselin' "
              "leaf predictions vs numpy.linalg.lstsq, 'simple' leaf means, max_depth / min_samples_leaf")
