"""Bounded stand-in for C16 (labelled bounded): enumerate_pipeline_models, pipeline2str, alter_pipeline_for_debugging and pipeline2dot
on real scikit-learn pipelines."""
NEEDS_CYTHON = False
import sys, os, re
sys.path.insert(0, os.path.dirname(os.path.dirname(os.path.abspath(__file__))))
import numpy
from bounded.common import main


def pipelines():
    from sklearn.pipeline import Pipeline, FeatureUnion
    from sklearn.compose import ColumnTransformer
    from sklearn.preprocessing import StandardScaler, MinMaxScaler, PolynomialFeatures
    from sklearn.decomposition import PCA
    from sklearn.linear_model import LogisticRegression, LinearRegression
    cols3 = ["a", "b", "c"]
    P = {}
    P["scaler+logreg"] = lambda: (Pipeline([("s", StandardScaler()), ("l", LogisticRegression())]), "clf")
    P["union"] = lambda: (Pipeline([("u", FeatureUnion([("s", StandardScaler()), ("p", PCA(n_components=2))])), ("l", LogisticRegression())]), "clf")
    P["nested-union"] = lambda: (Pipeline([("u", FeatureUnion([("s", StandardScaler()), ("pp", Pipeline([("m", MinMaxScaler()), ("p", PCA(n_components=1))]))])),
                                           ("l", LinearRegression())]), "reg")
    P["columns"] = lambda: (Pipeline([("ct", ColumnTransformer([("n", StandardScaler(), [0, 1]), ("m", MinMaxScaler(), [2])])), ("l", LogisticRegression())]), "clf")
    P["columns-passthrough"] = lambda: (Pipeline([("ct", ColumnTransformer([("n", StandardScaler(), [0]), ("k", "passthrough", [1, 2])])), ("l", LogisticRegression())]), "clf")
    P["columns-named"] = lambda: (Pipeline([("ct", ColumnTransformer([("n", StandardScaler(), ["a", "b"]), ("u", FeatureUnion([("m", MinMaxScaler()), ("q", PolynomialFeatures(2))]), ["c"])])),
                                            ("l", LogisticRegression())]), "clf-df")
    P["single"] = lambda: (LogisticRegression(), "clf")
    P["transform-only"] = lambda: (Pipeline([("s", StandardScaler()), ("p", PCA(n_components=2))]), "tr")
    return P


def cases(tier, seed):
    for name in pipelines():
        for schema in ("dataframe", "ndarray", "names"):
            yield dict(pipe=name, schema=schema)
    yield dict(pipe="columns-named", schema="dataframe", columns=["x", "x0", "x1"])


def spec_enum(p, coor=(0,)):
    from sklearn.pipeline import Pipeline, FeatureUnion
    from sklearn.compose import ColumnTransformer
    out = [(coor, p)]
    if isinstance(p, Pipeline):
        for i, (_, m) in enumerate(p.steps):
            out.extend(spec_enum(m, coor + (i,)))
    elif isinstance(p, ColumnTransformer):
        for i, t in enumerate(p.transformers):
            out.extend(spec_enum(t[1], coor + (i,)))
    elif isinstance(p, FeatureUnion):
        for i, (_, m) in enumerate(p.transformer_list):
            out.extend(spec_enum(m, coor + (i,)))
    return out


def check(c):
    import pandas, copy
    from mlinsights.helpers.pipeline import enumerate_pipeline_models, alter_pipeline_for_debugging
    from mlinsights.plotting import pipeline2dot, pipeline2str
    pipe, kind = pipelines()[c["pipe"]]()
    names = c.get("columns", ["a", "b", "c"])
    rs = numpy.random.RandomState(0)
    Xn = rs.rand(30, 3)
    df = pandas.DataFrame(Xn, columns=names)
    y = (Xn[:, 0] > 0.5).astype(int) if kind.startswith("clf") else Xn[:, 0] * 2
    if c["pipe"] == "columns-named" and names != ["a", "b", "c"]:
        from sklearn.pipeline import Pipeline, FeatureUnion
        from sklearn.compose import ColumnTransformer
        from sklearn.preprocessing import StandardScaler, MinMaxScaler
        from sklearn.linear_model import LogisticRegression
        pipe = Pipeline([("ct", ColumnTransformer([("u", FeatureUnion([("m", MinMaxScaler()), ("s", StandardScaler())]), [names[0]]),
                                                   ("n", StandardScaler(), names[1:])])), ("l", LogisticRegression())])
    data = df if (kind.endswith("df") or c["schema"] == "dataframe") else Xn
    if kind == "tr":
        pipe.fit(data)
    else:
        pipe.fit(data, y)
    got = list(enumerate_pipeline_models(pipe))
    spec = spec_enum(pipe)
    if [g[0] for g in got] != [s[0] for s in spec] or any(not (g[1] is s[1] or s[1] == "passthrough") for g, s in zip(got, spec)):
        return dict(**{"class": "enumeration"}, what="enumerate_pipeline_models %r, specification %r" % ([g[0] for g in got], [s[0] for s in spec]))
    if len(set(g[0] for g in got)) != len(got):
        return dict(**{"class": "enumeration"}, what="coordinates not distinct")
    text = pipeline2str(pipe)
    lines = [l for l in text.split("\n") if l.strip()]
    if len(lines) != len(got):
        return dict(**{"class": "pipeline2str"}, what="%d lines for %d models" % (len(lines), len(got)))
    # drawing
    schema = df if c["schema"] == "dataframe" else (Xn if c["schema"] == "ndarray" else list(names))
    if kind.endswith("df") and c["schema"] == "ndarray":
        schema = df
    dot = pipeline2dot(pipe, schema)
    decl = set(re.findall(r"^\s*(\w+)\[", dot, flags=re.M))
    edges = re.findall(r"^\s*([\w:]+)\s*->\s*([\w:]+)\s*;", dot, flags=re.M)
    if not dot.strip().startswith("digraph") or dot.count("{") != dot.count("}"):
        return dict(**{"class": "dot-syntax"}, what="not a well-formed digraph")
    for a_, b_ in edges:
        for e in (a_, b_):
            if e.split(":")[0] not in decl:
                return dict(**{"class": "dot-undeclared-endpoint"}, what="edge endpoint %r is not declared" % e)
    # ports must exist in the record label of their node
    labels = dict(re.findall(r"^\s*(\w+)\[label=\"([^\"]*)\"", dot, flags=re.M))
    for a_, b_ in edges:
        for e in (a_, b_):
            if ":" in e:
                node, port = e.split(":")
                if "<%s>" % port not in labels.get(node, ""):
                    return dict(**{"class": "dot-undeclared-port"}, what="port %r not declared in %r" % (e, labels.get(node)))
    graph = {}
    for a_, b_ in edges:
        graph.setdefault(a_.split(":")[0], set()).add(b_.split(":")[0])
    seen, stack = set(), set()

    def cyc(u):
        if u in stack:
            return True
        if u in seen:
            return False
        seen.add(u)
        stack.add(u)
        r = any(cyc(v) for v in graph.get(u, ()))
        stack.discard(u)
        return r
    if any(cyc(u) for u in list(graph)):
        return dict(**{"class": "dot-cycle"}, what="the graph has a cycle")
    steps = [type(g[1]).__name__ for g in got if not hasattr(g[1], "steps") and not hasattr(g[1], "transformers") and not hasattr(g[1], "transformer_list")
             and type(g[1]).__name__ != "PassThrough"]
    for s in steps:
        if s not in dot:
            return dict(**{"class": "dot-missing-step"}, what="step %s does not appear" % s)
    if c["schema"] != "ndarray" or kind.endswith("df"):
        if isinstance(schema, list) or hasattr(schema, "columns"):
            for col in names:
                if not re.search(r">\s*%s\b" % re.escape(col), labels.get("sch0", "")):
                    return dict(**{"class": "dot-missing-input-column:" + c["schema"]}, what="input column %r does not appear in %r" % (col, labels.get("sch0")))
    # outputs reachable from every input port that has an outgoing edge at all, and the last node reachable from sch0
    last = [n for n in decl if n.startswith("sch")]
    last = sorted(last, key=lambda s: int(s[3:]))[-1]
    reach, todo = set(), ["sch0"]
    while todo:
        u = todo.pop()
        if u in reach:
            continue
        reach.add(u)
        todo.extend(graph.get(u, ()))
    if last not in reach:
        return dict(**{"class": "dot-output-unreachable"}, what="final outputs %s not reachable from the inputs" % last)
    used_ports = {a_.split(":")[1] for a_, _ in edges if a_.startswith("sch0:")}
    nports = labels.get("sch0", "").count("<f")
    if nports and len(used_ports) != nports:
        return dict(**{"class": "dot-input-port-unused"}, what="input ports used %r of %d" % (sorted(used_ports), nports))
    # debugging wrappers: outputs unchanged, consecutive steps chain
    before = pipe.predict(data) if kind != "tr" else pipe.transform(data)
    alter_pipeline_for_debugging(pipe)
    after = pipe.predict(data) if kind != "tr" else pipe.transform(data)
    if not numpy.array_equal(numpy.asarray(before), numpy.asarray(after)):
        return dict(**{"class": "debug-changes-output"}, what="alter_pipeline_for_debugging changed the pipeline's output")
    if isinstance(data, numpy.ndarray):
        # the same buffer refilled in place between two calls (rows reversed): the altered pipeline follows the content
        buf = data.copy()
        first = numpy.asarray(pipe.predict(buf) if kind != "tr" else pipe.transform(buf))
        buf[:] = data[::-1]
        second = numpy.asarray(pipe.predict(buf) if kind != "tr" else pipe.transform(buf))
        if not numpy.allclose(second, first[::-1], rtol=0, atol=1e-9):
            return dict(**{"class": "debug-changes-output"}, what="second call on the same array object (refilled in place) does not follow its new content")
    if hasattr(pipe, "steps") and len(pipe.steps) == 2:
        d0, d1 = pipe.steps[0][1]._debug, pipe.steps[1][1]._debug
        out0 = d0.outputs.get("transform")
        in1 = next(iter(d1.inputs.values())) if d1.inputs else None
        if out0 is None or in1 is None or not numpy.array_equal(numpy.asarray(out0), numpy.asarray(in1)):
            return dict(**{"class": "debug-chain"}, what="recorded output of step 0 is not the recorded input of step 1")
    # every output method of the final step records (a classifier may have predict, predict_proba AND decision_function)
    if hasattr(pipe, "steps"):
        last_model = pipe.steps[-1][1]
        for meth in ("predict_proba", "decision_function", "predict", "transform"):
            if not (hasattr(last_model, meth) and hasattr(pipe, meth)):
                continue
            try:
                out = getattr(pipe, meth)(data)
            except (AttributeError, NotImplementedError):
                continue
            d_ = last_model._debug
            if meth not in d_.outputs or not numpy.array_equal(numpy.asarray(d_.outputs[meth]), numpy.asarray(out)):
                return dict(**{"class": "debug-chain"}, what="%s of the pipeline is not recorded by its last step" % meth)
            if len(pipe.steps) >= 2 and hasattr(pipe.steps[-2][1], "_debug"):
                prev = pipe.steps[-2][1]._debug.outputs.get("transform")
                if prev is None or not numpy.array_equal(numpy.asarray(prev), numpy.asarray(d_.inputs[meth])):
                    return dict(**{"class": "debug-chain"}, what="input recorded for %s of the last step is not the recorded output of the step before" % meth)
    return None


def replay(cex):
    if "case" in cex and "inputs" not in cex:
        f = check(cex["case"])
        return dict(fails=f is not None, observed=f)
    for c in cases("quick", 0):
        try:
            f = check(c)
        except Exception as e:
            f = dict(**{"class": "exception:" + type(e).__name__}, what=str(e))
        if f is not None:
            return dict(fails=True, observed=f, lifted_case=c)
    return dict(fails=False, note="no failing input on the quick domain")


if __name__ == "__main__":
    main("C16", cases, check, replay,
         rule="8 pipelines (Pipeline / FeatureUnion / ColumnTransformer with integer and named columns / passthrough / nesting / single estimator / no final "
              "predictor) x 3 data schemas, plus columns named x, x0, x1: enumeration vs specification, pipeline2str lines, DOT parsed (declared endpoints "
              "and ports, acyclic, steps and input columns present, outputs reachable, every input port used), debugging wrappers transparent and chaining")
