"""Bounded stand-in for C11 (labelled bounded): ExtendedFeatures against scikit-learn's PolynomialFeatures."""
NEEDS_CYTHON = False
import sys, os
sys.path.insert(0, os.path.dirname(os.path.dirname(os.path.abspath(__file__))))
import numpy
from bounded.common import main


def cases(tier, seed):
    ns = (1, 2, 3, 5, 6) if tier == "quick" else (1, 2, 3, 4, 5, 6, 8)
    for n in ns:
        for d in ((1, 2, 3, 5) if tier == "quick" else (1, 2, 3, 4, 5, 6)):
            if n * d > 24:
                continue
            for io in (False, True):
                for b in (False, True):
                    for kind in ("poly", "poly-slow"):
                        yield dict(n=n, degree=d, interaction_only=io, include_bias=b, kind=kind)
    for kind in ("poly", "poly-slow"):
        yield dict(n=12, degree=2, interaction_only=False, include_bias=True, kind=kind)


def check(c):
    from sklearn.preprocessing import PolynomialFeatures
    from mlinsights.mlmodel import ExtendedFeatures
    rs = numpy.random.RandomState(c["n"] * 10 + c["degree"])
    X = rs.randint(-3, 4, size=(6, c["n"])).astype(float)       # exact products
    X0 = X.copy()
    sk = PolynomialFeatures(c["degree"], interaction_only=c["interaction_only"], include_bias=c["include_bias"]).fit(X)
    exp = sk.transform(X)
    m = ExtendedFeatures(kind=c["kind"], poly_degree=c["degree"], poly_interaction_only=c["interaction_only"], poly_include_bias=c["include_bias"])
    if m.fit(X) is not m:
        return dict(**{"class": "fit-returns"}, what="fit does not return self")
    got = m.transform(X)
    if m.n_output_features_ != exp.shape[1] or got.shape != exp.shape:
        return dict(**{"class": "n-output-features"}, what="n_output_features_=%r, scikit-learn has %d columns" % (m.n_output_features_, exp.shape[1]))
    if not numpy.array_equal(got, exp):
        k = int(numpy.argmax(numpy.any(got != exp, axis=0)))
        return dict(**{"class": "column-values"}, what="column %d differs from PolynomialFeatures" % k)
    names = list(m.get_feature_names_out())
    sknames = list(sk.get_feature_names_out())
    def monomial(name):
        # the property asks that a name denotes the column's monomial; the order of the factors inside a name is not
        # part of it ('x10 x2' and 'x2 x10' are the same monomial)
        out = {}
        for tok in name.split():
            if tok == "1":
                continue
            f, _, p = tok.partition("^")
            out[f] = out.get(f, 0) + (int(p) if p else 1)
        return out
    if len(names) != len(sknames) or [monomial(u) for u in names] != [monomial(v) for v in sknames]:
        k = [i for i, (u, v) in enumerate(zip(names, sknames)) if monomial(u) != monomial(v)]
        k = k[0] if k else min(len(names), len(sknames)) - 1
        return dict(**{"class": "feature-names"}, what="name of column %d is %r, scikit-learn: %r" % (k, names[k], sknames[k]))
    if not numpy.array_equal(X, X0):
        return dict(**{"class": "input-mutated"}, what="input modified")
    # every call, not only the first of the process: another estimator with the same configuration, and the same one again, on new data
    X2 = rs.randint(-3, 4, size=(4, c["n"])).astype(float)
    exp2 = sk.transform(X2)
    m2 = ExtendedFeatures(kind=c["kind"], poly_degree=c["degree"], poly_interaction_only=c["interaction_only"], poly_include_bias=c["include_bias"]).fit(X2)
    for who, est in (("a second estimator of the same configuration", m2), ("the same estimator called again", m)):
        got2 = est.transform(X2)
        if got2.shape != exp2.shape or not numpy.array_equal(got2, exp2):
            return dict(**{"class": "repeated-call"}, what="%s differs from PolynomialFeatures on new data" % who)
    # the same instance configured otherwise and fitted again on data of the same width: everything follows the new configuration
    d2, io2 = c["degree"] % 3 + 1, not c["interaction_only"]
    m.set_params(poly_degree=d2, poly_interaction_only=io2)
    m.fit(X)
    sk2 = PolynomialFeatures(d2, interaction_only=io2, include_bias=c["include_bias"]).fit(X)
    exp3 = sk2.transform(X)
    try:
        got3 = m.transform(X)
    except Exception as e:
        return dict(**{"class": "refit-other-configuration"}, what="transform after set_params + fit fails: %s: %s" % (type(e).__name__, str(e)[:100]))
    if m.n_output_features_ != exp3.shape[1] or got3.shape != exp3.shape or not numpy.array_equal(got3, exp3):
        return dict(**{"class": "refit-other-configuration"}, what="after set_params(degree=%d, interaction_only=%r) and a new fit: %r columns, PolynomialFeatures has %d"
                    % (d2, io2, getattr(got3, "shape", None), exp3.shape[1]))
    return None


def replay(cex):
    if "case" in cex and "inputs" not in cex:
        f = check(cex["case"])
        return dict(fails=f is not None, observed=f)
    for c in cases("quick", 0):
        try:
            f = check(c)
        except Exception as e:
            f = dict(**{"class": "exception:" + type(e).__name__}, what=str(e))
        if f is not None:
            return dict(fails=True, observed=f, lifted_case=c)
    return dict(fails=False, note="no failing input on the quick domain")


if __name__ == "__main__":
    main("C11", cases, check, replay,
         rule="n_features in {1,2,3,5,6[,4,8]} x degree in {1,2,3,5[,4,6]} (n*degree<=24) x interaction_only x include_bias x kind, plus 12 columns at "
              "degree 2; integer-valued inputs so that products are exact; values, column count and names compared with PolynomialFeatures")
