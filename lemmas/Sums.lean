/-
Lemma schemas of the older ghost functions of pyvc, machine-checked (same purpose as Counting.lean).

  Sum a n          = a 0 + ... + a (n-1) over the reals        (z3: Sum(a, n) of pyvc/ghost.py, LEMMAS sum_*)
  rank/unrank/K    = ghost symbols of one boolean mask          (z3: pyvc/models.py mask_info, lemma "mask_rank")
  exp/log, sqrt    = the real functions behind numpy.exp/log/log1p/expm1 and sqrt on [0,1]

The z3 side states every schema for integer indices restricted to [0, n); here indices are naturals.  `n <= 0` on the z3 side
is `n = 0` here.  `lean Sums.lean` must succeed with no `sorry`.
-/
import Mathlib

open Finset

namespace Pyvc

noncomputable def Sum (a : ℕ → ℝ) (n : ℕ) : ℝ := ∑ i ∈ range n, a i

theorem sum_empty (a : ℕ → ℝ) : Sum a 0 = 0 := by simp [Sum]

theorem sum_nonneg (a : ℕ → ℝ) (n : ℕ) (h : ∀ i, i < n → 0 ≤ a i) : 0 ≤ Sum a n :=
  Finset.sum_nonneg (fun i hi => h i (mem_range.mp hi))

theorem sum_nonpos (a : ℕ → ℝ) (n : ℕ) (h : ∀ i, i < n → a i ≤ 0) : Sum a n ≤ 0 :=
  Finset.sum_nonpos (fun i hi => h i (mem_range.mp hi))

theorem sum_congr (a b : ℕ → ℝ) (n : ℕ) (h : ∀ i, i < n → a i = b i) : Sum a n = Sum b n :=
  Finset.sum_congr rfl (fun i hi => h i (mem_range.mp hi))

theorem sum_scale (a b : ℕ → ℝ) (c : ℝ) (n : ℕ) (h : ∀ i, i < n → a i = c * b i) : Sum a n = c * Sum b n := by
  unfold Sum
  rw [Finset.mul_sum]
  exact Finset.sum_congr rfl (fun i hi => h i (mem_range.mp hi))

theorem sum_le (a b : ℕ → ℝ) (n : ℕ) (h : ∀ i, i < n → a i ≤ b i) : Sum a n ≤ Sum b n :=
  Finset.sum_le_sum (fun i hi => h i (mem_range.mp hi))

theorem sum_bounds (a : ℕ → ℝ) (n : ℕ) (lo hi : ℝ) (h : ∀ i, i < n → lo ≤ a i ∧ a i ≤ hi) :
    (n : ℝ) * lo ≤ Sum a n ∧ Sum a n ≤ (n : ℝ) * hi := by
  constructor
  · have := Finset.card_nsmul_le_sum (range n) a lo (fun i hi' => (h i (mem_range.mp hi')).1)
    simpa [Sum, nsmul_eq_mul] using this
  · have := Finset.sum_le_card_nsmul (range n) a hi (fun i hi' => (h i (mem_range.mp hi')).2)
    simpa [Sum, nsmul_eq_mul] using this

/-- non-negative terms whose sum is not positive are all zero (used for `(mask).sum() <= 0`) -/
theorem sum_zero_terms (a : ℕ → ℝ) (n : ℕ) (h : ∀ i, i < n → 0 ≤ a i) (hs : Sum a n ≤ 0) : ∀ i, i < n → a i ≤ 0 := by
  intro i hi
  have h0 : Sum a n = 0 := le_antisymm hs (sum_nonneg a n h)
  have := (Finset.sum_eq_zero_iff_of_nonneg (fun j hj => h j (mem_range.mp hj))).mp (by simpa [Sum] using h0) i (mem_range.mpr hi)
  exact le_of_eq this

/-- numpy.log / numpy.exp / numpy.log1p / numpy.expm1 as real functions (assumption A1: floats are reals) -/
theorem exp_log_inverse (x : ℝ) :
    Real.log (Real.exp x) = x ∧ 0 < Real.exp x ∧ (0 < x → Real.exp (Real.log x) = x) ∧ (1 ≤ x → 0 ≤ Real.log x) :=
  ⟨Real.log_exp x, Real.exp_pos x, fun h => Real.exp_log h, fun h => Real.log_nonneg h⟩

theorem sqrt_unit (x : ℝ) (_h0 : 0 ≤ x) :
    0 ≤ Real.sqrt x ∧ (x ≤ 1 → Real.sqrt x ≤ 1) ∧ (x = 0 → Real.sqrt x = 0) := by
  refine ⟨Real.sqrt_nonneg x, fun h1 => ?_, fun h => by rw [h, Real.sqrt_zero]⟩
  calc Real.sqrt x ≤ Real.sqrt 1 := Real.sqrt_le_sqrt h1
    _ = 1 := Real.sqrt_one

/-- boolean-mask selection: the selected rows, in order, are numbered 0..K-1 by `rank`, and `unrank` is its inverse -/
theorem mask_rank (m : ℕ → Prop) [DecidablePred m] (n : ℕ) :
    ∃ (K : ℕ) (rank unrank : ℕ → ℕ), K ≤ n ∧
      (∀ r, r < n → m r → rank r < K ∧ unrank (rank r) = r) ∧
      (∀ j, j < K → unrank j < n ∧ m (unrank j) ∧ rank (unrank j) = j) ∧
      (∀ j j2, j < j2 → j2 < K → unrank j < unrank j2) := by
  classical
  let p : ℕ → Prop := fun k => k < n ∧ m k
  have hfin : (Set.ofPred p).Finite := (Set.finite_lt_nat n).subset (fun k hk => hk.1)
  have hcard : #hfin.toFinset = Nat.count p n := by
    rw [Nat.count_eq_card_filter_range]
    congr 1
    ext k
    simp only [Set.Finite.mem_toFinset, mem_filter, mem_range]
    exact ⟨fun hk => ⟨hk.1, hk⟩, fun hk => hk.2⟩
  have hlt : ∀ j, j < Nat.count p n → ∀ hf : (Set.ofPred p).Finite, j < #hf.toFinset := by
    intro j hj hf
    have : hf.toFinset = hfin.toFinset := by ext; simp
    rw [this, hcard]; exact hj
  refine ⟨Nat.count p n, fun r => Nat.count p r, fun j => Nat.nth p j, Nat.count_le p, ?_, ?_, ?_⟩
  · intro r hr hm
    have hp : p r := ⟨hr, hm⟩
    exact ⟨Nat.count_strict_mono hp hr, Nat.nth_count hp⟩
  · intro j hj
    have hmem : p (Nat.nth p j) := Nat.nth_mem j (hlt j hj)
    exact ⟨hmem.1, hmem.2, Nat.count_nth (hlt j hj)⟩
  · intro j j2 hjj hj2
    exact Nat.nth_lt_nth' hjj (hlt j2 hj2)

/-- first occurrence of a key among the first n entries of a sequence, -1 for a key that does not occur (the cells of the training rows) -/
theorem first_occurrence {K : Type} [DecidableEq K] (f : ℕ → K) (n : ℕ) :
    ∃ first : K → ℤ, (∀ r, r < n → 0 ≤ first (f r) ∧ first (f r) ≤ r) ∧
      (∀ k, 0 ≤ first k → ∃ r : ℕ, (r : ℤ) = first k ∧ r < n ∧ f r = k) := by
  classical
  refine ⟨fun k => if h : ∃ r, r < n ∧ f r = k then (Nat.find h : ℤ) else -1, ?_, ?_⟩
  · intro r hr
    have h : ∃ r', r' < n ∧ f r' = f r := ⟨r, hr, rfl⟩
    simp only [h, dite_true]
    exact ⟨Int.natCast_nonneg _, by exact_mod_cast Nat.find_min' h ⟨hr, rfl⟩⟩
  · intro k hk
    by_cases h : ∃ r, r < n ∧ f r = k
    · simp only [h, dite_true] at hk ⊢
      exact ⟨Nat.find h, rfl, (Nat.find_spec h).1, (Nat.find_spec h).2⟩
    · simp only [h, dite_false] at hk
      omega

end Pyvc
