/-
Lemma schemas of the ghost counting functions used by pyvc (pyvc/counting.py, pyvc/permmodel.py), machine-checked.

  cnt a q n  = number of positions i < n with a i = q          (z3: cnt(a, q, n))
  sumI a n   = a 0 + ... + a (n-1)                              (z3: sumI(a, n))

The z3 side instantiates these statements for concrete array terms; arrays there are Int -> Int restricted to [0, n),
here they are functions Nat -> Int.  `lean Counting.lean` must succeed with no `sorry`.
-/
import Mathlib

open Finset

namespace Pyvc

def ind (q x : ℤ) : ℤ := if x = q then 1 else 0

def cnt (a : ℕ → ℤ) (q : ℤ) (n : ℕ) : ℤ := ∑ i ∈ range n, ind q (a i)

def sumI (a : ℕ → ℤ) (n : ℕ) : ℤ := ∑ i ∈ range n, a i

theorem ind_nonneg (q x : ℤ) : 0 ≤ ind q x := by unfold ind; split_ifs <;> omega

theorem ind_le_one (q x : ℤ) : ind q x ≤ 1 := by unfold ind; split_ifs <;> omega

/-- cnt really is the number of positions holding q -/
theorem cnt_eq_card (a : ℕ → ℤ) (q : ℤ) (n : ℕ) :
    cnt a q n = (((range n).filter (fun i => a i = q)).card : ℤ) := by
  unfold cnt ind
  rw [Finset.card_filter]
  push_cast
  rfl

theorem sum_update (g : ℤ → ℤ) (a : ℕ → ℤ) (v : ℤ) (i : ℕ) :
    ∀ n, i < n → ∑ j ∈ range n, g (Function.update a i v j) = ∑ j ∈ range n, g (a j) - g (a i) + g v := by
  intro n
  induction n with
  | zero => intro h; omega
  | succ m ih =>
    intro h
    rw [Finset.sum_range_succ, Finset.sum_range_succ]
    by_cases hm : i < m
    · rw [ih hm]
      have : Function.update a i v m = a m := by
        rw [Function.update_apply]; split_ifs with h1 <;> [omega; rfl]
      rw [this]; ring
    · have hi : i = m := by omega
      subst hi
      have h1 : ∑ j ∈ range i, g (Function.update a i v j) = ∑ j ∈ range i, g (a j) := by
        apply Finset.sum_congr rfl
        intro j hj
        have hj' : j < i := Finset.mem_range.mp hj
        rw [Function.update_apply]; split_ifs with h2 <;> [omega; rfl]
      have h2 : Function.update a i v i = v := by rw [Function.update_apply]; simp
      rw [h1, h2]; ring

/-- cnt_store -/
theorem cnt_store (a : ℕ → ℤ) (q v : ℤ) (i n : ℕ) (h : i < n) :
    cnt (Function.update a i v) q n = cnt a q n - ind q (a i) + ind q v :=
  sum_update (ind q) a v i n h

/-- sum_store -/
theorem sum_store (a : ℕ → ℤ) (v : ℤ) (i n : ℕ) (h : i < n) :
    sumI (Function.update a i v) n = sumI a n - a i + v :=
  sum_update id a v i n h

/-- cnt_const -/
theorem cnt_const (v q : ℤ) (n : ℕ) : cnt (fun _ => v) q n = if q = v then (n : ℤ) else 0 := by
  unfold cnt ind
  by_cases h : q = v
  · subst h; simp
  · have : ¬ v = q := fun e => h e.symm
    simp [h, this]

/-- sum_const -/
theorem sum_const' (v : ℤ) (n : ℕ) : sumI (fun _ => v) n = v * n := by
  unfold sumI; simp [mul_comm]

/-- cnt_range -/
theorem cnt_range (a : ℕ → ℤ) (q : ℤ) (n : ℕ) : 0 ≤ cnt a q n ∧ cnt a q n ≤ n := by
  constructor
  · exact Finset.sum_nonneg (fun i _ => ind_nonneg q (a i))
  · have h : cnt a q n ≤ ∑ _i ∈ range n, (1 : ℤ) := Finset.sum_le_sum (fun i _ => ind_le_one q (a i))
    simpa using h

/-- cnt_pos -/
theorem cnt_pos (a : ℕ → ℤ) (i n : ℕ) (h : i < n) : 1 ≤ cnt a (a i) n := by
  have h1 : ind (a i) (a i) ≤ cnt a (a i) n :=
    Finset.single_le_sum (f := fun j => ind (a i) (a j)) (fun j _ => ind_nonneg _ _) (Finset.mem_range.mpr h)
  have h2 : ind (a i) (a i) = 1 := by simp [ind]
  omega

/-- cnt_congr -/
theorem cnt_congr (a b : ℕ → ℤ) (q : ℤ) (n : ℕ) (h : ∀ i, i < n → a i = b i) : cnt a q n = cnt b q n := by
  unfold cnt
  apply Finset.sum_congr rfl
  intro i hi
  rw [h i (Finset.mem_range.mp hi)]

theorem sum_congr' (a b : ℕ → ℤ) (n : ℕ) (h : ∀ i, i < n → a i = b i) : sumI a n = sumI b n := by
  unfold sumI
  apply Finset.sum_congr rfl
  intro i hi
  exact h i (Finset.mem_range.mp hi)

/-- cnt_all, second half: no position holds q  <->  cnt = 0 -/
theorem cnt_none (a : ℕ → ℤ) (q : ℤ) (n : ℕ) : (∀ i, i < n → a i ≠ q) ↔ cnt a q n = 0 := by
  unfold cnt
  rw [Finset.sum_eq_zero_iff_of_nonneg (fun i _ => ind_nonneg q (a i))]
  constructor
  · intro h i hi
    have := h i (Finset.mem_range.mp hi)
    simp [ind, this]
  · intro h i hi e
    have := h i (Finset.mem_range.mpr hi)
    simp [ind, e] at this

/-- cnt_all, first half: every position holds q  <->  cnt = n -/
theorem cnt_all (a : ℕ → ℤ) (q : ℤ) (n : ℕ) : (∀ i, i < n → a i = q) ↔ cnt a q n = n := by
  have hone : (∑ _i ∈ range n, (1 : ℤ)) = n := by simp
  constructor
  · intro h
    unfold cnt
    rw [← hone]
    apply Finset.sum_congr rfl
    intro i hi
    simp [ind, h i (Finset.mem_range.mp hi)]
  · intro h
    have hle : ∀ i ∈ range n, ind q (a i) ≤ (1 : ℤ) := fun i _ => ind_le_one q (a i)
    have := (Finset.sum_eq_sum_iff_of_le hle).mp (by unfold cnt at h; rw [h, hone])
    intro i hi
    have h1 := this i (Finset.mem_range.mpr hi)
    unfold ind at h1
    by_contra hne
    simp [hne] at h1

/-- sum_le_quota -/
theorem sum_le_quota (C L : ℕ → ℤ) (lim : ℤ) (k : ℕ) (h : ∀ c, c < k → C c ≤ lim + ind 0 (L c)) :
    sumI C k ≤ k * lim + cnt L 0 k := by
  unfold sumI cnt
  have h1 : ∑ c ∈ range k, C c ≤ ∑ c ∈ range k, (lim + ind 0 (L c)) :=
    Finset.sum_le_sum (fun c hc => h c (Finset.mem_range.mp hc))
  rw [Finset.sum_add_distrib] at h1
  simpa using h1

/-- sum_ge_quota -/
theorem sum_ge_quota (C L : ℕ → ℤ) (lim : ℤ) (k : ℕ) (h : ∀ c, c < k → lim + ind 0 (L c) ≤ C c) :
    k * lim + cnt L 0 k ≤ sumI C k := by
  unfold sumI cnt
  have h1 : ∑ c ∈ range k, (lim + ind 0 (L c)) ≤ ∑ c ∈ range k, C c :=
    Finset.sum_le_sum (fun c hc => h c (Finset.mem_range.mp hc))
  rw [Finset.sum_add_distrib] at h1
  simpa using h1

/-- sum_eq_quota -/
theorem sum_eq_quota (C L : ℕ → ℤ) (lim : ℤ) (k : ℕ) (h : ∀ c, c < k → C c ≤ lim + ind 0 (L c))
    (he : sumI C k = k * lim + cnt L 0 k) : ∀ c, c < k → C c = lim + ind 0 (L c) := by
  have hle : ∀ c ∈ range k, C c ≤ lim + ind 0 (L c) := fun c hc => h c (Finset.mem_range.mp hc)
  have hs : ∑ c ∈ range k, C c = ∑ c ∈ range k, (lim + ind 0 (L c)) := by
    rw [Finset.sum_add_distrib]
    unfold sumI cnt at he
    simpa using he
  intro c hc
  exact (Finset.sum_eq_sum_iff_of_le hle).mp hs c (Finset.mem_range.mpr hc)

/-- inj_surj: an injective map of [0,n) into [0,n) is onto -/
theorem inj_surj (f : ℕ → ℕ) (n : ℕ) (hr : ∀ i, i < n → f i < n)
    (hi : ∀ i j, i < n → j < n → i ≠ j → f i ≠ f j) : ∀ p, p < n → ∃ j, j < n ∧ f j = p := by
  have hinj : Set.InjOn f (range n : Set ℕ) := by
    intro i hi' j hj' e
    by_contra hne
    exact hi i j (by simpa using hi') (by simpa using hj') hne e
  have hsub : (range n).image f ⊆ range n := by
    intro x hx
    obtain ⟨i, hi', rfl⟩ := Finset.mem_image.mp hx
    exact Finset.mem_range.mpr (hr i (Finset.mem_range.mp hi'))
  have hcard : ((range n).image f).card = (range n).card := Finset.card_image_of_injOn hinj
  have heq : (range n).image f = range n := Finset.eq_of_subset_of_card_le hsub (by rw [hcard])
  intro p hp
  have : p ∈ (range n).image f := by rw [heq]; exact Finset.mem_range.mpr hp
  obtain ⟨j, hj, e⟩ := Finset.mem_image.mp this
  exact ⟨j, Finset.mem_range.mp hj, e⟩

/-! Range sums of real arrays: psum a lo hi = a lo + ... + a (hi-1)   (z3: psum(a, lo, hi)) -/

noncomputable def psum (a : ℕ → ℝ) (lo hi : ℕ) : ℝ := ∑ i ∈ Finset.Ico lo hi, a i

/-- psum_empty -/
theorem psum_empty (a : ℕ → ℝ) (lo hi : ℕ) (h : hi ≤ lo) : psum a lo hi = 0 := by
  unfold psum
  rw [Finset.Ico_eq_empty_of_le h]
  simp

/-- psum_step -/
theorem psum_step (a : ℕ → ℝ) (lo hi : ℕ) (h : lo < hi) : psum a lo hi = psum a lo (hi - 1) + a (hi - 1) := by
  unfold psum
  obtain ⟨k, rfl⟩ : ∃ k, hi = k + 1 := ⟨hi - 1, by omega⟩
  have hk : lo ≤ k := by omega
  rw [Finset.sum_Ico_succ_top hk]
  simp

/-- psum_split -/
theorem psum_split (a : ℕ → ℝ) (lo mid hi : ℕ) (h1 : lo ≤ mid) (h2 : mid ≤ hi) :
    psum a lo hi = psum a lo mid + psum a mid hi := by
  unfold psum
  exact (Finset.sum_Ico_consecutive a h1 h2).symm

/-- psum_congr (a store outside the range is the special case "frame") -/
theorem psum_congr (a b : ℕ → ℝ) (lo hi : ℕ) (h : ∀ i, lo ≤ i → i < hi → a i = b i) : psum a lo hi = psum b lo hi := by
  unfold psum
  apply Finset.sum_congr rfl
  intro i hi'
  have := Finset.mem_Ico.mp hi'
  exact h i this.1 this.2

/-- weighted_variance: with m the weighted mean of the range, the weighted mean squared residual is E[y^2] - m^2 -/
theorem weighted_variance (w y : ℕ → ℝ) (lo hi : ℕ) (m : ℝ) (hW : psum w lo hi ≠ 0)
    (hm : m = psum (fun k => w k * y k) lo hi / psum w lo hi) :
    psum (fun k => w k * (y k - m) * (y k - m)) lo hi / psum w lo hi
      = psum (fun k => w k * y k * y k) lo hi / psum w lo hi - m * m := by
  have expand : psum (fun k => w k * (y k - m) * (y k - m)) lo hi
      = psum (fun k => w k * y k * y k) lo hi - 2 * m * psum (fun k => w k * y k) lo hi + m * m * psum w lo hi := by
    unfold psum
    rw [Finset.mul_sum, Finset.mul_sum, ← Finset.sum_sub_distrib, ← Finset.sum_add_distrib]
    apply Finset.sum_congr rfl
    intro k _
    ring
  have hS : psum (fun k => w k * y k) lo hi = m * psum w lo hi := by
    rw [hm]; field_simp
  rw [expand, hS]
  field_simp
  ring

/-- row_mean_bounds: the mean of m >= 1 terms lies between any bounds of the terms -/
theorem mean_bounds (a : ℕ → ℝ) (m : ℕ) (lo hi : ℝ) (hm : 1 ≤ m) (h : ∀ i, i < m → lo ≤ a i ∧ a i ≤ hi) :
    lo ≤ psum a 0 m / m ∧ psum a 0 m / m ≤ hi := by
  have hpos : (0 : ℝ) < m := by exact_mod_cast hm
  have hlo : lo * m ≤ psum a 0 m := by
    unfold psum
    have : ∑ _i ∈ Finset.Ico 0 m, lo ≤ ∑ i ∈ Finset.Ico 0 m, a i :=
      Finset.sum_le_sum (fun i hi' => (h i (Finset.mem_Ico.mp hi').2).1)
    simpa [mul_comm] using this
  have hhi : psum a 0 m ≤ hi * m := by
    unfold psum
    have : ∑ i ∈ Finset.Ico 0 m, a i ≤ ∑ _i ∈ Finset.Ico 0 m, hi :=
      Finset.sum_le_sum (fun i hi' => (h i (Finset.mem_Ico.mp hi').2).2)
    simpa [mul_comm] using this
  constructor
  · rw [le_div_iff₀ hpos]; exact hlo
  · rw [div_le_iff₀ hpos]; exact hhi

/-- prefix counts: the empty prefix holds nothing, one more position adds its indicator -/
theorem cnt_step (a : ℕ → ℤ) (q : ℤ) (j : ℕ) : cnt a q 0 = 0 ∧ cnt a q (j + 1) = cnt a q j + ind q (a j) := by
  unfold cnt
  constructor
  · simp
  · rw [Finset.sum_range_succ]

/-- when every counter is at least lim, one counter is at most the total minus (k-1)*lim -/
theorem sum_one_out (C : ℕ → ℤ) (lim : ℤ) (k c0 : ℕ) (h : ∀ c, c < k → lim ≤ C c) (hc : c0 < k) :
    (k : ℤ) * lim - lim + C c0 ≤ sumI C k := by
  unfold sumI
  have h1 : ∑ i ∈ range k, C i = ∑ i ∈ (range k).erase c0, C i + C c0 := by
    rw [Finset.sum_erase_add _ _ (Finset.mem_range.mpr hc)]
  have h2 : ∑ _i ∈ (range k).erase c0, lim ≤ ∑ i ∈ (range k).erase c0, C i := by
    apply Finset.sum_le_sum
    intro i hi
    exact h i (Finset.mem_range.mp (Finset.mem_of_mem_erase hi))
  rw [Finset.sum_const, Finset.card_erase_of_mem (Finset.mem_range.mpr hc), Finset.card_range] at h2
  rw [h1]
  have hk : 1 ≤ k := by omega
  have h3 : ((k - 1 : ℕ) : ℤ) = (k : ℤ) - 1 := by omega
  simp only [nsmul_eq_mul] at h2
  rw [h3] at h2
  linarith

/-- products of two symbolic sizes (the solver is given these instances; it does not do non-linear arithmetic by itself) -/
theorem mul_steps (c j n : ℤ) (hc : 0 ≤ c) (hj : 0 ≤ j) :
    0 ≤ c * j ∧ c * (j + 1) = c * j + c ∧ (j + 1 ≤ n → c * (j + 1) ≤ c * n) := by
  refine ⟨mul_nonneg hc hj, by ring, fun h => mul_le_mul_of_nonneg_left h hc⟩

end Pyvc
