"""C12 - tree utilities are faithful to the tree's decision function.

digitize2tree is verified against numpy.digitize(x, bins, right=True) for ALL bins arrays (any length >= 1,
strictly increasing or decreasing) and ALL x over the reals (A1).  Ghost state: `leafid(node, x)` = the leaf
of the final tree reached from `node` for x; FV = the final list of node values."""
import z3
from pyvc.api import Contract, contract
from contracts._frames import query_frame
from pyvc.values import Obj, NdArr, SList, z
from pyvc import models

F = "mlinsights/mltree/tree_digitize.py"
S = "mlinsights/mltree/tree_structure.py"


class Spec:
    """ghost specification symbols of one digitize2tree run"""

    def __init__(self, E, bins, n, ascending=True):
        self.b = bins.snapshot()
        self.n = n
        self.D = z3.Function(models.fresh_name("digitize"), z3.RealSort(), z3.IntSort())
        self.FV = z3.Const(models.fresh_name("final_values"), z3.ArraySort(z3.IntSort(), z3.RealSort()))
        self.FVnan = z3.Const(models.fresh_name("final_values_nan"), z3.ArraySort(z3.IntSort(), z3.BoolSort()))
        x = z3.Real(models.fresh_name("x"))
        d = self.D(x)
        b = self.b
        if ascending:
            # numpy.digitize(x, bins, right=True), increasing bins: bins[d-1] < x <= bins[d]
            E.axiom(z3.ForAll([x], z3.And(d >= 0, d <= n, z3.Or(d == 0, b.get(d - 1) < x), z3.Or(d == n, x <= b.get(d))), patterns=[d]))
        else:
            # decreasing bins: bins[d-1] >= x > bins[d]
            E.axiom(z3.ForAll([x], z3.And(d >= 0, d <= n, z3.Or(d == 0, b.get(d - 1) >= x), z3.Or(d == n, x > b.get(d))), patterns=[d]))


def monotone(E, bins, n, ascending=True):
    i, j = z3.Int(models.fresh_name("mi")), z3.Int(models.fresh_name("mj"))
    rel = bins.get(i) < bins.get(j) if ascending else bins.get(i) > bins.get(j)
    return z3.ForAll([i, j], z3.Implies(z3.And(0 <= i, i < j, j < n), rel), patterns=[z3.MultiPattern(bins.get(i), bins.get(j))])


def in_range(spec, i, j, is_left, x):
    b, n = spec.b, spec.n
    if is_left:
        return z3.And(z3.Or(i == 0, b.get(i - 1) < x), x <= b.get(j))
    return z3.And(b.get(i) < x, z3.Or(j == n, x <= b.get(j)))


def values_agree(spec, values):
    p = z3.Int(models.fresh_name("p"))
    return z3.ForAll([p], z3.Implies(z3.And(p >= 0, p < values.length),
                                     z3.And(z3.Select(values.term, p) == spec.FV[p], values.isnan(p) == spec.FVnan[p])))


def hook_values(spec, values):
    def on_append(E, pos, val, flag):
        # definition of FV: the list is append-only, position `pos` is written exactly once
        E.assume(z3.And(spec.FV[pos] == val, spec.FVnan[pos] == flag))
    values.on_append = on_append


def fresh_tree(E):
    t = Obj("Tree", tag="Tree")
    cnt = E.int("cnt")
    E.assume(cnt >= 1)
    t.fields.update(cnt=cnt, thr=z3.Const(models.fresh_name("thr"), z3.ArraySort(z3.IntSort(), z3.RealSort())),
                    leaf=z3.Const(models.fresh_name("isleaf"), z3.ArraySort(z3.IntSort(), z3.BoolSort())),
                    attL=z3.Const(models.fresh_name("attL"), z3.ArraySort(z3.IntSort(), z3.BoolSort())),
                    attR=z3.Const(models.fresh_name("attR"), z3.ArraySort(z3.IntSort(), z3.BoolSort())))
    t.fields["$leafid"] = E.registry.leafidF
    return t


@contract(F + "::digitize2tree.add_nodes", "C12")
class AddNodes(Contract):
    """add_nodes(parent, i, j, is_left) builds the subtree for bins[i:j] below `parent`"""
    variants = [True, False]
    free = ["bins", "tree", "values", "n_nodes", "UNUSED", "add_nodes"]
    pyx_source = ("mlinsights/mltree/_tree_digitize.pyx",)      # the Cython wrapper tree_add_node is executed from its extracted text

    def setup(self, E, is_left):
        from pyvc.values import NaN
        n = E.size("nbins", 1)
        bins = E.nd("bins", (n,))
        spec = Spec(E, bins, z(n))
        tree = fresh_tree(E)
        values = SList.fresh("values", z3.RealSort(), nan=True)
        hook_values(spec, values)
        E.ps["c12_spec"] = spec
        func = E.repo.lookup(F + "::digitize2tree.add_nodes")
        from pyvc.engine import Closure, Frame
        env = Frame(func.parent, func.module)
        rec = Closure(func, env)
        a = dict(parent=E.int("parent"), i=E.int("i"), j=E.int("j"), is_left=is_left, bins=bins, tree=tree, values=values,
                 n_nodes=[], UNUSED=NaN, add_nodes=rec, _spec=spec)
        env.locals.update({k: a[k] for k in self.free})
        return a

    def closure_env(self, E, a):
        return {k: a[k] for k in self.free}

    def _spec_of(self, E, a):
        if "_spec" in a:
            return a["_spec"]
        return E.ps["c12_spec"]

    def requires(self, E, a):
        spec = self._spec_of(E, a)
        t = a.tree.fields
        p, i, j = z(a.parent), z(a.i), z(a.j)
        out = {"bins_strictly_increasing": monotone(E, spec.b, spec.n),
               "values_in_step_with_nodes": a["values"].length == t["cnt"],
               "values_are_the_final_values_so_far": values_agree(spec, a["values"]),
               "parent_is_a_split_node": z3.And(p >= 0, p < t["cnt"], z3.Not(t["leaf"][p]))}
        if a.is_left:
            out["slot_free"] = z3.Not(t["attL"][p])
            out["range"] = z3.And(0 <= i, i <= j, j < spec.n, t["thr"][p] == spec.b.get(j))
        else:
            out["slot_free"] = z3.Not(t["attR"][p])
            out["range"] = z3.And(0 <= i, i < j, j <= spec.n, t["thr"][p] == spec.b.get(i))
        return out

    def decreases(self, E, a):
        return 2 * (z(a.j) - z(a.i)) + (1 if a.is_left else 0)

    def old(self, E, a):
        t = a.tree.fields
        return dict(cnt=t["cnt"], thr=t["thr"], leaf=t["leaf"], attL=t["attL"], attR=t["attR"])

    def result(self, E, a, old):
        # call-site role: the tree grew, the values list grew in step; everything below old cnt is framed by ensures
        t = a.tree.fields
        for k in ("thr", "leaf", "attL", "attR"):
            t[k] = z3.Const(models.fresh_name(k), t[k].sort())
        t["cnt"] = E.int("cnt")
        v = a["values"]
        v.term = z3.Const(models.fresh_name("values"), v.term.sort())
        v.nan = z3.Const(models.fresh_name("values_nan"), v.nan.sort())
        v.length = E.int("values_len")
        return E.int("node")

    def ensures(self, E, a, res, old, wrong_leaf=False):
        spec = self._spec_of(E, a)
        t = a.tree.fields
        lid = t["$leafid"]
        m, p = z(res), z(a.parent)
        q = z3.Int(models.fresh_name("q"))
        x = z3.Real(models.fresh_name("x"))
        side = (x <= old["thr"][p]) if a.is_left else (x > old["thr"][p])
        l = lid(m, x)
        shift = 1 if wrong_leaf else 0
        out = {
            "returns_a_new_node": z3.And(m >= old["cnt"], m < t["cnt"]),
            "values_in_step_with_nodes": a["values"].length == t["cnt"],
            "values_are_the_final_values_so_far": values_agree(spec, a["values"]),
            "older_nodes_unchanged_except_the_filled_slot": z3.ForAll([q], z3.Implies(z3.And(q >= 0, q < old["cnt"]), z3.And(
                t["thr"][q] == old["thr"][q], t["leaf"][q] == old["leaf"][q],
                t["attL"][q] == (z3.Or(old["attL"][q], q == p) if a.is_left else old["attL"][q]),
                t["attR"][q] == (old["attR"][q] if a.is_left else z3.Or(old["attR"][q], q == p))))),
            "parent_routes_its_side_into_the_new_subtree": z3.ForAll([x], z3.Implies(side, lid(p, x) == lid(m, x)), patterns=[lid(p, x)]),
            "subtree_returns_numpy_digitize_on_its_range": z3.ForAll([x], z3.Implies(
                in_range(spec, z(a.i), z(a.j), a.is_left, x),
                z3.And(l >= old["cnt"], l < t["cnt"], z3.Not(spec.FVnan[l]), spec.FV[l] == z3.ToReal(spec.D(x) + shift))), patterns=[lid(m, x)]),
        }
        return out

    canaries = {"leaf_value_off_by_one": lambda E, a, res, old: AddNodes().ensures(E, a, res, old, wrong_leaf=True)[
        "subtree_returns_numpy_digitize_on_its_range"]}


@contract(F + "::digitize2tree", "C12")
class Digitize2Tree(Contract):
    variants = ["increasing", "decreasing", "right=False"]
    symbolic_lists = ["values"]
    pyx_source = ("mlinsights/mltree/_tree_digitize.pyx",)

    def list_hook(self, E, name, lst):
        hook_values(E.ps["c12_spec"], lst)

    def setup(self, E, v):
        n = E.size("nbins", 1)
        bins = E.nd("bins", (n,))
        asc = v != "decreasing"
        spec = Spec(E, bins, z(n), ascending=True)       # the ascending spec of the array the tree is built for
        E.ps["c12_spec"] = spec
        return dict(bins=bins, right=(v != "right=False"), _v=v, _spec=spec)

    def requires(self, E, a):
        n = z(a.bins.shape[0])
        if "_v" not in a:      # call-site role (the recursive call): the array handed over must be increasing
            return {"strictly_increasing": monotone(E, a.bins, n), "right": z3.BoolVal(a.right is True)}
        if a._v == "decreasing":
            return {"strictly_decreasing": monotone(E, a.bins, n, ascending=False), "at_least_two": n >= 2}
        return {"strictly_increasing": monotone(E, a.bins, n)}

    def old(self, E, a):
        return {}

    def decreases(self, E, a):
        n = z(a.bins.shape[0])
        return z3.If(z3.Or(n <= 1, a.bins.get(0) < a.bins.get(1)), 0, 1)

    def signals(self, E, a, exc, old):
        if a._v == "right=False":
            return {"right_False_is_refused": z3.BoolVal(exc == "RuntimeError")}
        return None

    def result(self, E, a, old):
        # call-site role (the recursive call on the reversed array): a regressor whose tree satisfies ensures
        tree = fresh_tree(E)
        n = z(a.bins.shape[0])
        spec = Spec(E, a.bins, n, ascending=True)
        old["spec"] = spec
        cl = models.new_estimator(E, "cl", "DecisionTreeRegressor", ("fit", "predict"), fitted=True)
        cl.fields["tree_"] = tree
        tree.fields["$value"] = NdArr.fresh("tree_value", (tree.fields["cnt"], 1, 1), "real", nan=True)
        return cl

    def ensures(self, E, a, res, old, wrong=False):
        if a.get("_v") == "right=False":
            return {"must_be_refused": z3.BoolVal(False)}
        ok = isinstance(res, Obj) and isinstance(res.fields.get("tree_"), Obj) and res.fields["tree_"].tag == "Tree"
        out = {"returns_a_regressor_holding_the_tree": z3.BoolVal(ok)}
        if not ok:
            return out
        tree = res.fields["tree_"]
        t = tree.fields
        lid = t["$leafid"]
        val = E.getattr(tree, "value")
        n = z(a.bins.shape[0])
        x = z3.Real(models.fresh_name("x"))
        l = lid(z3.IntVal(0), x)
        if old is not None and old.get("spec") is not None:        # call-site role: ascending result for the given array
            D = old["spec"].D
        elif a.get("_v") == "decreasing":
            D = Spec(E, a.bins, n, ascending=False).D
        else:
            D = a._spec.D
        out["prediction_equals_numpy_digitize_for_every_x"] = z3.ForAll([x], z3.And(
            l >= 0, l < t["cnt"], z3.Not(val.isnan(l, 0, 0)), val.get(l, 0, 0) == z3.ToReal(D(x) + (1 if wrong else 0))), patterns=[lid(z3.IntVal(0), x)])
        out["one_value_per_node"] = z(val.shape[0]) == t["cnt"]
        return out

    @staticmethod
    def _inv_rewrite(E, L):
        cl = L["cl"]
        val = E.getattr(cl.fields["tree_"], "value")
        pre = L.old("cl")
        n = z(L["n"])
        cnt = cl.fields["tree_"].fields["cnt"]
        old = E.ps["c12_value_at_loop_entry"] if "c12_value_at_loop_entry" in E.ps else None
        if old is None:
            old = val.snapshot()
            E.ps["c12_value_at_loop_entry"] = old
        return {"rewritten_prefix": E.forall_range([(0, L.i)], lambda p: z3.And(
                    val.isnan(p, 0, 0) == old.isnan(p, 0, 0), z3.Implies(z3.Not(old.isnan(p, 0, 0)), val.get(p, 0, 0) == z3.ToReal(n) - old.get(p, 0, 0)))),
                "untouched_suffix": E.forall_range([(L.i, cnt)], lambda p: z3.And(
                    val.isnan(p, 0, 0) == old.isnan(p, 0, 0), val.get(p, 0, 0) == old.get(p, 0, 0)))}
    loops = {0: _inv_rewrite.__func__}

    canaries = {"prediction_off_by_one": lambda E, a, res, old: Digitize2Tree().ensures(E, a, res, old, wrong=True).get(
        "prediction_equals_numpy_digitize_for_every_x", z3.BoolVal(True))}


@contract(S + "::tree_leave_index", "C12")
class LeaveIndex(Contract):
    symbolic_lists = {"res": "int"}

    def setup(self, E, v):
        t = Obj("Tree", tag="Tree")
        cnt = E.size("node_count", 1)
        t.fields["cnt"] = cnt
        t.fields["$children_left"] = E.nd("children_left", (cnt,), "int")
        t.fields["children_left"] = t.fields["$children_left"]
        t.fields["node_count"] = cnt
        return dict(model=t)

    @staticmethod
    def _inv(E, L, upto=None):
        res = L["res"]
        cl = L["tree"].fields["children_left"]
        i = upto if upto is not None else L.i
        p, q = z3.Int(models.fresh_name("p")), z3.Int(models.fresh_name("q"))
        return {"only_leaves_in_increasing_order": z3.ForAll([p], z3.Implies(z3.And(p >= 0, p < res.length), z3.And(
                    res.get(p) >= 0, res.get(p) < i, cl.get(res.get(p)) == -1,
                    z3.Implies(p + 1 < res.length, res.get(p) < res.get(p + 1))))),
                "membership_is_exactly_the_leaves_so_far": z3.ForAll([q], res.member(q) == z3.And(q >= 0, q < i, cl.get(q) == -1))}
    loops = {0: _inv.__func__}

    def ensures(self, E, a, res, old):
        ok = isinstance(res, SList)
        out = {"a_list": z3.BoolVal(ok)}
        if ok:
            class L0:
                pass
            fake = {"res": res, "tree": a.model}
            inv = LeaveIndex._inv(E, type("L", (), {"__getitem__": lambda s, k: fake[k], "i": None})(), upto=z(a.model.fields["cnt"]))
            out["lists_exactly_the_leaves"] = z3.And(*inv.values())
        return out


# ----------------------------------------------------------------------------------------------------------------------
# tree_node_range / tree_node_parents / tree_find_path_to_root on fitted trees: bounded in the SHAPE of the tree, complete in
# the numbering of the nodes (arbitrary distinct ids - scikit-learn stores best-first trees in another order than depth-first
# ones), the split features, the thresholds and the point
LEAF = "leaf"
SHAPES = {
    "stump": (LEAF, LEAF),
    "left_deep": ((LEAF, LEAF), LEAF),
    "right_deep": (LEAF, (LEAF, LEAF)),
    "balanced": ((LEAF, LEAF), (LEAF, LEAF)),
    "zigzag": ((LEAF, (LEAF, LEAF)), LEAF),
}


def _nodes(shape, path=()):
    """[(path from the root as a tuple of 0 (left) / 1 (right), is_leaf)] in preorder"""
    if shape == LEAF:
        return [(path, True)]
    return [(path, False)] + _nodes(shape[0], path + (0,)) + _nodes(shape[1], path + (1,))


def _leaves(shape):
    return [p for p, leaf in _nodes(shape) if leaf]


@contract(S + "::tree_node_parents", "C12")
class NodeParents(Contract):
    """UNBOUNDED in the number of nodes and for any numbering of them (depth-first, best-first ...): the table sends every child to
    its parent - +parent for a left child, -parent for a right child - and holds nothing else.  The real loop runs over a dictionary of
    unbounded symbolic size (loop invariant over the handled prefix of the nodes)."""
    symbolic_dicts = {"parents": "int"}

    def setup(self, E, v):
        m = E.size("node_count", 1)
        cl, cr = E.nd("children_left", (m,), "int"), E.nd("children_right", (m,), "int")
        t = Obj("Tree", tag="Tree")
        t.fields.update(children_left=cl, children_right=cr, node_count=m)
        return dict(tree=t, _m=m, _cl=cl, _cr=cr)

    def requires(self, E, a):
        m, cl, cr = z(a._m), a._cl, a._cr
        i, j = z3.Int("wf!i"), z3.Int("wf!j")
        inr = lambda q: z3.And(q >= 0, q < m)
        inner = lambda q: cl.get(q) != -1
        return {"children_are_two_distinct_nodes_or_both_absent": z3.ForAll([i], z3.Implies(inr(i), z3.If(
                    inner(i), z3.And(inr(cl.get(i)), inr(cr.get(i)), cl.get(i) != cr.get(i)), cr.get(i) == -1))),
                "no_node_has_two_parents": z3.ForAll([i, j], z3.Implies(z3.And(inr(i), inr(j), i != j, inner(i), inner(j)), z3.And(
                    cl.get(i) != cl.get(j), cl.get(i) != cr.get(j), cr.get(i) != cr.get(j))))}

    def old(self, E, a):
        return dict(w=[a.tree.fields[g].cell.writes for g in ("children_left", "children_right")])

    @staticmethod
    def _facts(mp, cl, cr, m, upto, right_sign=-1):
        j, key = z3.Int(models.fresh_name("pj")), z3.Int(models.fresh_name("pk"))
        inner = lambda q: cl.get(q) != -1
        val = lambda k: z3.Select(mp.value, k)
        w = z3.If(val(key) >= 0, val(key), -val(key))                 # the parent a table entry names
        return {
            "every_child_of_a_handled_node_is_sent_to_it_left_plus_right_minus": z3.ForAll([j], z3.Implies(
                z3.And(j >= 0, j < z(upto), inner(j)), z3.And(
                    z3.Select(mp.member, cl.get(j)), val(cl.get(j)) == j, z3.Select(mp.member, cr.get(j)), val(cr.get(j)) == right_sign * j))),
            "every_entry_is_a_child_with_its_parent": z3.ForAll([key], z3.Implies(z3.Select(mp.member, key), z3.And(
                w >= 0, w < z(upto), inner(w), z3.Or(cl.get(w) == key, cr.get(w) == key),
                z3.Implies(val(key) > 0, cl.get(w) == key), z3.Implies(val(key) < 0, cr.get(w) == key))))}

    @staticmethod
    def _inv(E, L):
        t = L["tree"].fields
        return NodeParents._facts(L["parents"], t["children_left"], t["children_right"], z(t["node_count"]), L.i)
    loops = {0: _inv.__func__}

    def ensures(self, E, a, res, old, right_sign=-1):
        from pyvc.dicts import SymMap
        ok = isinstance(res, SymMap)
        out = {"a_table": z3.BoolVal(ok)}
        if ok:
            out.update(NodeParents._facts(res, a._cl, a._cr, z(a._m), a._m, right_sign))
        out["tree_not_written"] = z3.BoolVal([a.tree.fields[g].cell.writes for g in ("children_left", "children_right")] == old["w"])
        return out

    canaries = {"right_children_stored_with_plus_sign": lambda E, a, res, old: NodeParents().ensures(E, a, res, old, right_sign=1).get(
        "every_child_of_a_handled_node_is_sent_to_it_left_plus_right_minus", z3.BoolVal(True))}


@contract(S + "::tree_node_range", "C12")
class NodeRange(Contract):
    """the box returned for a leaf contains exactly the points the tree routes to that leaf (nan = no bound on that side)"""
    variants = [(sh, k) for sh in SHAPES for k in range(len(_leaves(SHAPES[sh])))]
    max_paths = 40000

    def setup(self, E, v):
        sh, k = v
        nodes = _nodes(SHAPES[sh])
        m = len(nodes)
        ids = {p: (z3.IntVal(0) if p == () else E.int("id_" + "".join(map(str, p)))) for p, _ in nodes}     # the root is node 0
        for p, t in ids.items():
            E.assume(z3.And(t >= 0, t < m))
        E.assume(z3.Distinct(*ids.values()))
        D = E.size("n_features", 1)
        cl, cr = E.nd("children_left", (m,), "int"), E.nd("children_right", (m,), "int")
        feat, thr = E.nd("feature", (m,), "int"), E.nd("threshold", (m,), "real")
        for p, leaf in nodes:
            if leaf:
                E.assume(z3.And(cl.get(ids[p]) == -1, cr.get(ids[p]) == -1, feat.get(ids[p]) == -2))
            else:
                E.assume(z3.And(cl.get(ids[p]) == ids[p + (0,)], cr.get(ids[p]) == ids[p + (1,)], feat.get(ids[p]) >= 0, feat.get(ids[p]) < z(D)))
        t = Obj("Tree", tag="Tree")
        t.fields.update(children_left=cl, children_right=cr, feature=feat, threshold=thr, node_count=m)
        target = _leaves(SHAPES[sh])[k]
        return dict(tree=t, i=ids[target], parents=None, _ids=ids, _target=target, _D=D)

    def old(self, E, a):
        return dict(w=[a.tree.fields[f].cell.writes for f in ("children_left", "children_right", "feature", "threshold")])

    def ensures(self, E, a, res, old, strict=False):
        ok = isinstance(res, NdArr) and res.ndim == 2
        out = {"a_matrix_with_a_lower_and_an_upper_bound_per_feature": z3.BoolVal(ok) if not ok else z(res.shape[1]) == 2}
        if not ok:
            return out
        t = a.tree.fields
        x = z3.Function(models.fresh_name("x"), z3.IntSort(), z3.RealSort())          # an arbitrary point
        reach = []
        for d in range(len(a._target)):
            nid = a._ids[a._target[:d]]
            f, th = t["feature"].get(nid), t["threshold"].get(nid)
            go_left = (x(f) < th) if strict else (x(f) <= th)                          # scikit-learn: x[feature] <= threshold goes left
            reach.append(go_left if a._target[d] == 0 else z3.Not(go_left))
        f = z3.Int(models.fresh_name("f"))
        rows = z(res.shape[0])
        inbox = z3.ForAll([f], z3.Implies(z3.And(f >= 0, f < rows), z3.And(
            z3.Or(res.isnan(f, 0), x(f) > res.get(f, 0)), z3.Or(res.isnan(f, 1), x(f) <= res.get(f, 1)))))
        out["rows_cover_the_split_features_of_the_path"] = z3.And(*[
            t["feature"].get(a._ids[a._target[:d]]) < rows for d in range(len(a._target))])
        out["a_point_is_in_the_box_iff_the_tree_routes_it_to_the_leaf"] = z3.And(*reach) == inbox
        out["tree_not_written"] = z3.BoolVal([a.tree.fields[g].cell.writes for g in ("children_left", "children_right", "feature", "threshold")] == old["w"])
        return out

    canaries = {"strict_comparison_on_the_left": lambda E, a, res, old: NodeRange().ensures(E, a, res, old, strict=True).get(
        "a_point_is_in_the_box_iff_the_tree_routes_it_to_the_leaf", z3.BoolVal(True))}


applyF = z3.Function("apply", models.Est, models.Row, z3.IntSort())        # ghost: the leaf a fitted scikit-learn tree routes a row to


@contract(S + "::predict_leaves", "C12")
@query_frame("model")
class PredictLeaves(Contract):
    """for a fitted scikit-learn tree (any number of nodes, any batch): predict_leaves(model, X)[r] is the leaf the tree routes row r to"""

    def setup(self, E, v):
        m = E.size("node_count", 1)
        model = models.new_estimator(E, "tree_model", methods=("fit", "predict", "apply", "decision_path", "get_params", "set_params"), fitted=True)
        model.fields["$fitted_attrs"] = {"tree_"}
        t = Obj("Tree", tag="Tree")
        cl = E.nd("children_left", (m,), "int")
        t.fields.update(cnt=m, node_count=m, children_left=cl)
        t.fields["$children_left"] = cl
        model.fields["tree_"] = t
        return dict(model=model, X=E.nd("X", (E.size("n", 0), E.size("d", 1))), _cl=cl, _m=m)

    def requires(self, E, a):
        # ASSUMED about scikit-learn (stated as a precondition): decision_path marks, among the leaves, exactly the leaf `apply` returns
        st = a.model.fields["$state"]
        R = E.registry
        row = z3.Const("rho!pl", models.Row)
        j = z3.Int("j!pl")
        m = z(a._m)
        return {"the_tree_has_as_many_nodes_as_the_decision_path_has_columns": R.nodesF(st) == m,
                "every_row_ends_in_exactly_one_leaf_the_one_apply_returns": z3.ForAll([row, j], z3.And(
                    applyF(st, row) >= 0, applyF(st, row) < m, a._cl.get(applyF(st, row)) == -1,
                    z3.Implies(z3.And(j >= 0, j < m, a._cl.get(j) == -1), (R.pathF(st, row, j) == 1) == (j == applyF(st, row))),
                    z3.Implies(z3.And(j >= 0, j < m), z3.Or(R.pathF(st, row, j) == 0, R.pathF(st, row, j) == 1))))}

    def old(self, E, a):
        return dict(X=a.X.snapshot(), w=a.X.cell.writes)

    def ensures(self, E, a, res, old, shifted=False):
        ok = isinstance(res, NdArr) and res.ndim == 1
        out = {"one_leaf_per_row": z3.BoolVal(ok) if not ok else z(res.shape[0]) == z(a.X.shape[0])}
        if ok:
            st = a.model.fields["$state"]
            out["each_row_gets_the_leaf_the_tree_routes_it_to"] = E.forall_range(
                [(0, z(a.X.shape[0]))], lambda r: res.get(r) == applyF(st, models.row_of(E, old["X"], r)) + (1 if shifted else 0))
            out["batch_not_written"] = z3.BoolVal(a.X.cell.writes == old["w"])
        return out

    canaries = {"next_node_instead_of_the_leaf": lambda E, a, res, old: PredictLeaves().ensures(E, a, res, old, shifted=True).get(
        "each_row_gets_the_leaf_the_tree_routes_it_to", z3.BoolVal(True))}


META = dict(
    level="proof", lean_files=["lemmas/Sums.lean"], assumptions=["A1", "A2", "A6", "A7", "A9"],
    trusted=["Tree._add_node (scikit-learn; the Cython wrapper tree_add_node of this repository is executed from the text extracted from "
             "_tree_digitize.pyx by pyvc/pyxstrip.py): returns the next node id; in the final tree a split node routes x <= threshold to the "
             "child attached on its left slot and x > threshold to the right one; a leaf predicts its value (ghost leafid, stated as axioms at node creation); "
             "each slot may be filled once (checked as an obligation at every call)",
             "DecisionTreeRegressor.predict(x) = tree_.value[leafid(0, x)]; TREE_LEAF = -1"],
    not_applicable=["float32: scikit-learn casts X to float32 before comparing with the float64 thresholds; the proof is over the reals (A1). "
                    "Known finding: x or a bin edge that is not float32-exact (pinned witness in KNOWN_FINDINGS.json)",
                    "tree_node_range (with tree_node_parents, tree_find_path_to_root): proved for 5 tree SHAPES (up to 7 nodes, depth 3) x every leaf, "
                    "complete in the numbering of the nodes, split features, thresholds and the point - arbitrary shapes by induction are not built",
                    "predict_leaves: PROVED for any number of nodes and rows (filtered comprehension through the mask ghost, sparse column "
                    "selection, argmax) GIVEN the scikit-learn contract that decision_path marks, among the leaves, exactly the leaf apply returns "
                    "(a precondition here, checked natively by the bounded stand-in)"],
)
