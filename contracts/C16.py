"""C16 - pipeline introspection and drawing describe the pipeline they are given.

Bounded in the SHAPE of the pipeline (the shapes below, nesting depth <= 3), complete in the nested estimators (opaque objects obeying
the estimator protocol) and in the data: enumerate_pipeline_models is compared with the recursive specification enum(p, c), and
alter_pipeline_for_debugging is proved transparent: every replaced method returns exactly what the saved original returns on the same
arguments and records that input and output."""
import z3
from pyvc.api import Contract, contract
from pyvc.values import Obj, NdArr, z
from pyvc import models
from pyvc.engine import GenResult, BoundMethod

F = "mlinsights/helpers/pipeline.py"
TR = ("fit", "transform", "get_params", "set_params")
CL = ("fit", "predict", "predict_proba", "decision_function", "get_params", "set_params")     # e.g. LogisticRegression: all three outputs


def leaf(E, name, methods=TR):
    o = models.new_estimator(E, name, "Leaf", methods, fitted=True, bases=("BaseEstimator", "TransformerMixin"))
    return o


def composite(E, kind, children, name):
    o = models.new_estimator(E, name, kind, ("fit", "transform", "predict", "get_params", "set_params"), fitted=True, bases=(kind, "BaseEstimator"))
    if kind == "Pipeline":
        o.fields["steps"] = [("s%d" % i, c) for i, c in enumerate(children)]
    elif kind == "FeatureUnion":
        o.fields["transformer_list"] = [("u%d" % i, c) for i, c in enumerate(children)]
    else:
        o.fields["transformers"] = [("c%d" % i, c, ["col%d" % i]) for i, c in enumerate(children)]
    o.fields["$children"] = list(children)
    return o


def shapes(E):
    a, b, c, d = leaf(E, "a"), leaf(E, "b"), leaf(E, "c"), leaf(E, "d", CL)
    return {
        "leaf": lambda: leaf(E, "only"),
        "pipeline2": lambda: composite(E, "Pipeline", [a, d], "pipe"),
        "union_in_pipeline": lambda: composite(E, "Pipeline", [composite(E, "FeatureUnion", [a, b], "union"), d], "pipe"),
        "columns_with_passthrough": lambda: composite(E, "Pipeline", [composite(E, "ColumnTransformer", [a, "passthrough", composite(E, "Pipeline", [b, c], "inner")], "ct"), d], "pipe"),
    }


def enum_spec(p, coor):
    """the specification: parents first, children left to right with coordinate coor + (i,)"""
    out = [(coor, p)]
    if isinstance(p, Obj):
        for i, ch in enumerate(p.fields.get("$children", [])):
            out.extend(enum_spec(ch, coor + (i,)))
    return out


SHAPES = ["leaf", "pipeline2", "union_in_pipeline", "columns_with_passthrough"]


@contract(F + "::enumerate_pipeline_models", "C16")
class Enumerate(Contract):
    variants = SHAPES

    def setup(self, E, v):
        p = shapes(E)[v]()
        return dict(pipe=p, _p=p)

    def ensures(self, E, a, res, old, drop=False):
        ok = isinstance(res, GenResult)
        out = {"a_sequence": z3.BoolVal(ok)}
        if not ok:
            return out
        items = list(res.items)
        spec = enum_spec(a._p, (0,))
        if drop:
            spec = spec[:-1]
        same = len(items) == len(spec)
        if same:
            for it, (c, p) in zip(items, spec):
                if not (isinstance(it, tuple) and len(it) == 3 and it[0] == c):
                    same = False
                elif isinstance(p, str):
                    same = same and isinstance(it[1], Obj) and it[1].tag == "PassThrough"
                else:
                    same = same and it[1] is p
        out["yields_every_nested_model_once_parents_first_in_specification_order"] = z3.BoolVal(same)
        coords = [it[0] for it in items if isinstance(it, tuple)]
        out["coordinates_distinct_and_as_long_as_the_nesting_depth"] = z3.BoolVal(
            len(set(coords)) == len(coords) and all(len(c) == 1 + d for c, d in zip(coords, [len(c) - 1 for c, _ in spec])) if not drop else True)
        return out

    canaries = {"one_model_less": lambda E, a, res, old: Enumerate().ensures(E, a, res, old, drop=True)[
        "yields_every_nested_model_once_parents_first_in_specification_order"]}


@contract(F + "::alter_pipeline_for_debugging", "C16")
class AlterForDebugging(Contract):
    variants = SHAPES
    max_paths = 20000

    def setup(self, E, v):
        p = shapes(E)[v]()
        return dict(pipe=p, _p=p)

    def ensures(self, E, a, res, old, wrong=False):
        out = {}
        conj_tr, conj_rec, conj_again = [], [], []
        X = E.nd("X", (E.size("n", 0), E.size("d", 1)))
        for coor, m in enum_spec(a._p, (0,)):
            if not isinstance(m, Obj):
                continue
            for meth in ("transform", "predict", "predict_proba", "decision_function"):
                if meth not in m.fields["$methods"]:
                    continue
                repl = m.fields.get(meth)
                if not isinstance(repl, BoundMethod):
                    # EVERY output method the model has is wrapped (a model may have several: predict_proba AND decision_function)
                    conj_tr.append(z3.BoolVal(False))
                    continue
                if m.fields.get("$children"):
                    continue              # a composite's own method is opaque here; its replacement is checked on the leaves
                t0 = len(E.trace)
                y = E.call_method(m, meth, [X], {}, None)
                calls = [t for t in E.trace[t0:] if t["op"] == meth and t["obj"] is m]
                ok = len(calls) == 1 and calls[0]["X"] is X and isinstance(y, NdArr)
                conj_tr.append(z3.BoolVal(ok))
                if ok:
                    st = calls[0]["state"]
                    n = z(X.shape[0])
                    if meth == "predict":
                        conj_tr.append(E.forall_range([(0, n)], lambda r: y.get(r) == models.predF(st, models.row_of(E, X, r + (1 if wrong else 0)))))
                    else:
                        conj_tr.append(E.forall_range([(0, n), (0, z(y.shape[1]))], lambda r, c: y.get(r, c) == models.out2F[meth](st, models.row_of(E, X, r), c + (1 if wrong else 0))))
                    dbg = m.fields.get("_debug")
                    conj_rec.append(z3.BoolVal(isinstance(dbg, Obj) and dbg.fields["inputs"].get(meth) is X and dbg.fields["outputs"].get(meth) is y))
                    # a SECOND call with the same array object whose content was replaced in place (a reused buffer): the original method runs
                    # again on the new content - nothing is answered from what was recorded
                    X2 = E.nd("X_second_call", (X.shape[0], X.shape[1]))
                    X.cell.term = X2.cell.term
                    t1 = len(E.trace)
                    y2 = E.call_method(m, meth, [X], {}, None)
                    again = [t for t in E.trace[t1:] if t["op"] == meth and t["obj"] is m]
                    ok2 = len(again) == 1 and again[0]["X"] is X and isinstance(y2, NdArr) and y2 is not y
                    conj_again.append(z3.BoolVal(ok2))
                    if ok2:
                        st2 = again[0]["state"]
                        if meth == "predict":
                            conj_again.append(E.forall_range([(0, n)], lambda r: y2.get(r) == models.predF(st2, models.row_of(E, X, r))))
                        else:
                            conj_again.append(E.forall_range([(0, n), (0, z(y2.shape[1]))], lambda r, c: y2.get(r, c) == models.out2F[meth](st2, models.row_of(E, X, r), c)))
        out["every_replaced_method_returns_exactly_the_original_output"] = z3.And(*conj_tr) if conj_tr else z3.BoolVal(True)
        out["and_records_its_last_input_and_output"] = z3.And(*conj_rec) if conj_rec else z3.BoolVal(True)
        out["a_second_call_on_the_same_refilled_array_runs_the_original_again"] = z3.And(*conj_again) if conj_again else z3.BoolVal(True)
        return out

    canaries = {"shifted_output": lambda E, a, res, old: AlterForDebugging().ensures(E, a, res, old, wrong=True)[
        "every_replaced_method_returns_exactly_the_original_output"]}


V = "mlinsights/plotting/visualize.py"


@contract(V + "::pipeline2str", "C16")
class Pipeline2Str(Contract):
    """one line per yielded model, indented by indent * nesting depth, naming the model's class (and its columns)"""
    variants = [(sh, ind) for sh in SHAPES for ind in (3, 0, 2)]

    def setup(self, E, v):
        p = shapes(E)[v[0]]()
        return dict(pipe=p, indent=v[1], _p=p)

    def ensures(self, E, a, res, old, off=0):
        spec = enum_spec(a._p, (0,))
        ok = isinstance(res, str)
        out = {"a_string": z3.BoolVal(ok)}
        if not ok:
            return out
        lines = res.split("\n")
        out["one_line_per_yielded_model"] = z3.BoolVal(len(lines) == len(spec) + off)
        good = len(lines) == len(spec)
        if good:
            for ln, (coor, m) in zip(lines, spec):
                pad = " " * (a.indent * (len(coor) - 1))
                cls = "PassThrough" if isinstance(m, str) else m.fields["$class"]
                body = ln[len(pad):]
                good = good and ln.startswith(pad) and (body == cls or (body.startswith(cls + "(") and body.endswith(")"))) and not body.startswith(" ")
        out["each_line_is_indented_by_its_depth_and_names_the_class"] = z3.BoolVal(good)
        return out

    canaries = {"one_line_more": lambda E, a, res, old: Pipeline2Str().ensures(E, a, res, old, off=1)["one_line_per_yielded_model"]}


@contract(V + "::_pipeline_info._get_name", "C16")
class GetName(Contract):
    """node names of the graph: every name handed out is new (not among the names handed out before - ANY number of them), is
    recorded with its info, and starts with the requested prefix"""
    variants = ["default", "string", "int", "list"]
    free = ["former_data"]

    def setup(self, E, v):
        from pyvc.dicts import SymStrMap
        ctx = {"n": E.int("n0"), "names": SymStrMap.fresh("names")}
        info = {"name": "step"}
        d = dict(context=ctx, info=info, data=None, _former=[E.str("col0"), E.str("col1")], _v=v)
        if v == "string":
            d["prefix"] = E.str("prefix")
        elif v == "int":
            d["prefix"] = 1
        elif v == "list":
            d["prefix"] = [E.str("p0"), E.str("p1")]
        return d

    def closure_env(self, E, a):
        return dict(former_data=a._former)

    def old(self, E, a):
        return dict(member=a.context["names"].member, n=a.context["n"], nstored=len(a.context["names"].stored))

    loops = {0: lambda E, L: {"the_counter_only_grows": z(L["context"]["n"]) >= z(L.old("context")["n"]),
                              "the_suggestion_starts_with_the_prefix": z3.PrefixOf(z(L["prefix"]), z(L["sug"])),
                              "and_is_longer_than_it": z3.Length(z(L["sug"])) > z3.Length(z(L["prefix"]))}}

    def ensures(self, E, a, res, old, weaker=False):
        names = a.context["names"]
        prefixes = {"default": ["-v-"], "string": [a.get("prefix")], "int": [a._former[1]], "list": a.get("prefix")}[a._v]
        got = res if a._v == "list" else [res]
        ok = isinstance(got, list) and len(got) == len(prefixes) and all(isinstance(r, str) or (hasattr(r, "sort") and z3.is_string(r)) for r in got)
        out = {"one_name_per_requested_prefix": z3.BoolVal(ok)}
        if not ok:
            return out
        got = [z(r) for r in got]
        if weaker:
            return z3.And(*[z3.Select(old["member"], r) for r in got])
        out["every_new_name_is_unused_before"] = z3.And(*[z3.Not(z3.Select(old["member"], r)) for r in got])
        out["new_names_are_pairwise_distinct"] = z3.And(*[got[i] != got[j] for i in range(len(got)) for j in range(i)]) if len(got) > 1 else z3.BoolVal(True)
        m = old["member"]
        for r in got:
            m = z3.Store(m, r, z3.BoolVal(True))
        out["exactly_the_new_names_are_added"] = names.member == m
        out["each_new_name_is_recorded_with_its_info"] = z3.BoolVal(
            len(names.stored) == old["nstored"] + len(got) and all(v is a.info for _, v in names.stored[old["nstored"]:]))
        out["each_name_starts_with_its_prefix"] = z3.And(*[z3.PrefixOf(z(p), r) for p, r in zip(prefixes, got)])
        out["each_name_is_longer_than_its_prefix"] = z3.And(*[z3.Length(r) > z3.Length(z(p)) for p, r in zip(prefixes, got)])
        out["the_counter_only_grows"] = z(a.context["n"]) >= z(old["n"])
        return out

    canaries = {"a_name_already_in_use": lambda E, a, res, old: GetName().ensures(E, a, res, old, weaker=True)}


META = dict(
    level="proof", assumptions=["A5", "A6", "A7", "A9"],
    trusted=["nested estimators obey the estimator protocol; Pipeline / FeatureUnion / ColumnTransformer expose .steps / .transformer_list / .transformers as "
             "lists of tuples; types.MethodType binds a function to an instance"],
    not_applicable=["bounded in the shape of the pipeline (4 shapes, nesting depth <= 3), complete in the nested estimators and the data; arbitrary nesting by "
                    "induction would need a recursive generator contract over symbolic-length yields (not built)",
                    "pipeline2dot (string assembly of the DOT text) and the ColumnTransformer / classifier / regressor branches of _pipeline_info: bounded "
                    "stand-in (DOT parsed and checked).  PROVED of _pipeline_info on 5 shapes of Pipeline / FeatureUnion x 1..2 input columns (real code, "
                    "opaque estimators, symbolic node names): every input of a node is a column or an output of an earlier node, union members are "
                    "parallel (the second reads nothing the first produces) and the union node collects one output of each.  Also proved: the name generator "
                    "_pipeline_info._get_name never hands out a name already in use, for ANY set of names in use (membership as a z3 array String -> Bool), "
                    "records exactly the new names, and keeps the requested prefix; termination of its search loop is not proved",
                    "pipeline2str: proved on the 4 shapes x 3 indents (concrete strings)"],
)


# ----------------------------------------------------------------------------------------------------------------------
# the graph pipeline2dot draws: _pipeline_info lists the nodes (name, inputs, outputs).  Bounded in the SHAPE of the pipeline and in the
# number of input columns (1 or 2 named columns), real code executed on opaque estimators.
def _info_shapes(E):
    a, b, c = leaf(E, "a"), leaf(E, "b"), leaf(E, "c")
    return {
        "transformer": lambda: leaf(E, "only"),
        "pipeline_of_two": lambda: composite(E, "Pipeline", [a, b], "pipe"),
        "union_first": lambda: composite(E, "FeatureUnion", [a, b], "union"),
        "union_after_a_step": lambda: composite(E, "Pipeline", [c, composite(E, "FeatureUnion", [a, b], "union")], "pipe"),
        "union_of_one": lambda: composite(E, "Pipeline", [c, composite(E, "FeatureUnion", [a], "union")], "pipe"),
        # a predictor fed the data columns directly: with several columns a "union" node collects them first
        "regressor": lambda: models.new_estimator(E, "reg", "Reg", ("fit", "predict", "get_params", "set_params"), fitted=True,
                                                  bases=("BaseEstimator", "RegressorMixin")),
        "classifier": lambda: models.new_estimator(E, "clf", "Clf", ("fit", "predict", "predict_proba", "get_params", "set_params"), fitted=True,
                                                   bases=("BaseEstimator", "ClassifierMixin")),
        "regressor_after_a_step": lambda: composite(E, "Pipeline", [c, models.new_estimator(
            E, "reg", "Reg", ("fit", "predict", "get_params", "set_params"), fitted=True, bases=("BaseEstimator", "RegressorMixin"))], "pipe"),
    }


INFO_SHAPES = ["transformer", "pipeline_of_two", "union_first", "union_after_a_step", "union_of_one", "regressor", "classifier", "regressor_after_a_step"]


@contract(V + "::_pipeline_info", "C16")
class PipelineInfo(Contract):
    """every node reads only names that exist when it is reached (input columns or outputs of earlier nodes), no list of names is shared
    between two nodes' declarations in a way that renames an earlier node's inputs, the members of a union all read what the union
    is given (they are drawn in parallel, not chained), and the last node's outputs are new names"""
    variants = [(sh, nc) for sh in INFO_SHAPES for nc in (1, 2)]
    max_paths = 2000

    def setup(self, E, v):
        sh, nc = v
        p = _info_shapes(E)[sh]()
        return dict(pipe=p, data=["col%d" % i for i in range(nc)], context={"n": 0, "names": {}}, _p=p, _cols=["col%d" % i for i in range(nc)], _shape=sh)

    def ensures(self, E, a, res, old, wrong_chain=False):
        ok = isinstance(res, list) and len(res) >= 1 and all(isinstance(d, dict) and {"name", "inputs", "outputs"} <= set(d) for d in res)
        out = {"a_list_of_nodes_with_name_inputs_outputs": z3.BoolVal(ok)}
        if not ok:
            return out
        zs = lambda x: z3.StringVal(x) if isinstance(x, str) else x         # names handed out by _get_name are symbolic strings (loop cut)
        isname = lambda x: isinstance(x, str) or (z3.is_expr(x) and x.sort() == z3.StringSort())
        known = list(a._cols)
        wf, shape_ok = [], True
        for d in res:
            ins, outs = list(d["inputs"]), list(d["outputs"])
            shape_ok = shape_ok and all(isname(x) for x in ins + outs)
            if not shape_ok:
                break
            for x in ins:
                wf.append(z3.Or(*[zs(x) == zs(k) for k in known]))
            known += outs
        out["names_are_strings"] = z3.BoolVal(shape_ok)
        if not shape_ok:
            return out
        out["every_input_is_a_column_or_an_output_of_an_earlier_node"] = z3.And(*wf) if wf else z3.BoolVal(True)
        # members of a union are drawn in parallel: the second member reads nothing the first one produces
        if a._shape in ("union_first", "union_after_a_step"):
            segs, cur = [], []
            for d in res:
                cur.append(d)
                if d.get("name") == "Leaf":
                    segs.append(cur)
                    cur = []
            enough = len(segs) >= 2
            out["one_group_of_nodes_per_member"] = z3.BoolVal(enough)
            if enough:
                first, second = segs[-2], segs[-1]
                fin = [x for d in first for x in d["inputs"]]
                made = [x for d in first for x in d["outputs"] if not any(x is y for y in fin)]
                read = [x for d in second for x in d["inputs"]]
                pairs = [zs(x) != zs(y) for x in made for y in read]
                sep = z3.And(*pairs) if pairs else z3.BoolVal(True)
                out["union_members_are_parallel_not_chained"] = sep if not wrong_chain else z3.Not(sep)
                last = res[-1]
                ok_last = last.get("name") == "union" and len(last["inputs"]) == 2
                out["the_union_node_collects_one_output_of_every_member"] = z3.BoolVal(False) if not ok_last else z3.And(
                    zs(last["inputs"][0]) != zs(last["inputs"][1]),
                    *[z3.Or(*[zs(x) == zs(o) for d in seg for o in d["outputs"]]) for x, seg in zip(last["inputs"], (first, second))])
        return out

    canaries = {"members_are_chained": lambda E, a, res, old: PipelineInfo().ensures(E, a, res, old, wrong_chain=True).get(
        "union_members_are_parallel_not_chained", z3.BoolVal(False))}
