"""C02 - fit/predict never alter hyper-parameters or caller data, even when fit fails."""
import z3
from pyvc.api import Contract, contract
from pyvc.values import is_sym, Obj, NdArr, Opaque, z
from pyvc import models
from contracts._frames import FrameFit

MM = "mlinsights/mlmodel/"
EST_METHODS = ("fit", "predict", "predict_proba", "transform", "decision_function", "get_params", "set_params")


def data(E, has_w, kind_y="real"):
    n, d = E.size("n", 1), E.size("d", 1)
    return dict(X=E.nd("X", (n, d)), y=E.nd("y", (n,), kind_y), sample_weight=E.nd("w", (n,)) if has_w else None)


# ---- assumed contracts of in-repo functions that C02 treats as opaque steps (they may raise) -----------------
@contract(MM + "_kmeans_constraint_.py::constraint_kmeans", "C02", assumed=True)
class ConstraintKMeansAlgo(Contract):
    def result(self, E, a, old):
        models.maybe_raise(E, "constraint_kmeans")
        n = a.X.shape[0]
        it = E.int("iter")
        E.assume(z3.And(it >= 0, it <= z(a.max_iter)))
        return (NdArr.fresh("labels", (n,), "int"), NdArr.fresh("centers", tuple(a.centers.shape), "real"), E.real("inertia"), None, it, [])


@contract(MM + "piecewise_tree_regression.py::PiecewiseTreeRegressor._fit_reglin", "C02", assumed=True)
class FitReglin(Contract):
    def result(self, E, a, old):
        models.maybe_raise(E, "_fit_reglin")
        a.self.fields["betas_"] = Opaque(z3.Const(models.fresh_name("betas"), models.Est), "betas")
        a.self.fields["leaves_index_"] = Opaque(z3.Const(models.fresh_name("leaves"), models.Est), "leaves")
        a.self.fields["leaves_mapping_"] = Opaque(z3.Const(models.fresh_name("leaves"), models.Est), "leaves")
        return None


@contract(MM + "sklearn_testing.py::clone_with_fitted_parameters", "C02", assumed=True)
class CloneFitted(Contract):
    def result(self, E, a, old):
        models.maybe_raise(E, "clone_with_fitted_parameters")
        e = a.est
        o = models.new_estimator(E, "copy", e.fields["$class"], e.fields["$methods"], e.fields.get("$fitted", False), e.fields["$params"])
        o.fields["$state"] = e.fields["$state"]
        o.fields["$copy_of"] = e
        if "$fit_params" in e.fields:
            o.fields["$fit_params"] = e.fields["$fit_params"]
        return o


@contract(MM + "sklearn_testing.py::assert_estimator_equal", "C02", assumed=True)
class AssertEqual(Contract):
    def result(self, E, a, old):
        models.maybe_raise(E, "assert_estimator_equal")
        return None


@contract(MM + "kmeans_l1.py::_kmeans_single_lloyd", "C02", assumed=True)
class SingleRunOpaque(Contract):
    """one Lloyd run: opaque here (it may raise); functional contract under C06"""

    def result(self, E, a, old):
        models.maybe_raise(E, "_kmeans_single_lloyd")
        n, d = a.X.shape[0], a.X.shape[1]
        return (NdArr.fresh("run_labels", (n,), "int"), E.real("run_inertia"), NdArr.fresh("run_centers", (a.n_clusters, d), "real"), E.int("n_iter"))


@contract(MM + "kmeans_l1.py::_tolerance", "C02", assumed=True)
class ToleranceOpaque(Contract):
    def result(self, E, a, old):
        return E.real("tol_")


# ---- the fits under contract -----------------------------------------------------------------------------------
@contract(MM + "kmeans_constraint.py::ConstraintKMeans.fit", "C02")
class ConstraintKMeansFit(FrameFit):
    frame_only = True
    variants = [(k0, hw) for k0 in (True, False) for hw in (False, True)]
    params = ["n_clusters", "init", "n_init", "max_iter", "tol", "verbose", "random_state", "copy_x", "algorithm",
              "balanced_predictions", "strategy", "kmeans0", "history", "learning_rate"]

    def setup(self, E, v):
        kmeans0, has_w = v
        f = dict(n_clusters=E.size("k", 1), init="k-means++", n_init=10, max_iter=E.size("max_iter", 1), tol=E.real("tol"), verbose=0,
                 random_state=E.int("seed"), copy_x=True, algorithm="lloyd", balanced_predictions=False, strategy="gain",
                 kmeans0=kmeans0, history=False, learning_rate=E.real("lr"))
        return dict(self=E.new_obj(MM + "kmeans_constraint.py::ConstraintKMeans", f), **data(E, has_w))

    loops = {0: lambda E, L: {"centers_shape": z(L["centers"].shape[0]) == z(L["self"].fields["n_clusters"])}}


@contract(MM + "piecewise_tree_regression.py::PiecewiseTreeRegressor.fit", "C02")
class PiecewiseTreeFit(FrameFit):
    frame_only = True
    variants = [(c, hw) for c in ("mselin", "simple", "squared_error") for hw in (False, True)]
    params = ["criterion", "splitter", "max_depth", "min_samples_split", "min_samples_leaf", "min_weight_fraction_leaf",
              "max_features", "random_state", "max_leaf_nodes", "min_impurity_decrease"]

    def setup(self, E, v):
        crit, has_w = v
        f = dict(criterion=crit, splitter="best", max_depth=None, min_samples_split=2, min_samples_leaf=1,
                 min_weight_fraction_leaf=0, max_features=None, random_state=None, max_leaf_nodes=None, min_impurity_decrease=0)
        d = data(E, has_w)
        d["check_input"] = True
        return dict(self=E.new_obj(MM + "piecewise_tree_regression.py::PiecewiseTreeRegressor", f), **d)


@contract(MM + "interval_regressor.py::IntervalRegressor.fit", "C02")
class IntervalFit(FrameFit):
    frame_only = True
    variants = [False, True]
    params = ["estimator", "n_jobs", "alpha", "verbose", "n_estimators"]

    def setup(self, E, has_w):
        f = dict(estimator=models.new_estimator(E, "base", methods=EST_METHODS), n_jobs=None, alpha=E.real("alpha"), verbose=False,
                 n_estimators=E.size("n_estimators", 0))
        return dict(self=E.new_obj(MM + "interval_regressor.py::IntervalRegressor", f), **data(E, has_w))

    def requires(self, E, a):
        return {"alpha>0": z(a.self.fields["alpha"]) > 0}

    def at_exit(self, E, a, old, exc):
        out = FrameFit.at_exit(self, E, a, old, exc)
        out["given_estimator_never_fitted"] = z3.BoolVal(("call", "fit") not in a.self.fields["estimator"].events)
        return out


@contract(MM + "quantile_regression.py::QuantileLinearRegression.fit", "C02")
class QuantileFit(FrameFit):
    frame_only = True
    variants = [False, True]
    params = ["fit_intercept", "copy_X", "n_jobs", "positive", "max_iter", "verbose", "delta", "quantile"]
    loop_kinds = {0: {"*none*": "real", "lastE": "real", "beta": ("nd", 1), "epsilon": ("nd", 1), "E": "real", "self.n_iter_": "int"}}

    def setup(self, E, has_w):
        f = dict(fit_intercept=E.bool("fit_intercept"), copy_X=True, n_jobs=None, positive=E.bool("positive"),
                 max_iter=E.size("max_iter", 1), verbose=False, delta=E.real("delta"), quantile=E.real("q"))
        return dict(self=E.new_obj(MM + "quantile_regression.py::QuantileLinearRegression", f), **data(E, has_w))

    def requires(self, E, a):
        s = a.self.fields
        return {"0<q<1": z3.And(z(s["quantile"]) > 0, z(s["quantile"]) < 1), "delta>0": z(s["delta"]) > 0}

    loops = {0: lambda E, L: {"W_rows": z(L["W"].shape[0]) == z(L["X"].shape[0])}}


@contract(MM + "classification_kmeans.py::ClassifierAfterKMeans.fit", "C02")
class CakFit(FrameFit):
    frame_only = True
    variants = [False, True]
    params = ["estimator", "clus"]

    def setup(self, E, has_w):
        f = dict(estimator=models.new_estimator(E, "est", methods=EST_METHODS), clus=models.new_estimator(E, "clus", methods=EST_METHODS))
        d = data(E, has_w, "int")
        l0, l1 = E.int("label0"), E.int("label1")
        E.assume(l0 != l1)
        i = z3.Int("li")
        E.assume(z3.ForAll([i], z3.Or(d["y"].cell.term[i] == l0, d["y"].cell.term[i] == l1)))
        d["y"].cell.labels = [l0, l1]      # ghost: the label set of y (two arbitrary labels)
        return dict(self=E.new_obj(MM + "classification_kmeans.py::ClassifierAfterKMeans", f), **d)


@contract(MM + "transfer_transformer.py::TransferTransformer.fit", "C02")
class TransferFit(FrameFit):
    frame_only = True
    variants = [(c, t, fp) for c in (True, False) for t in (True, False) for fp in (("X", "y", "sample_weight"), ("X", "y"), ("X",))]
    params = ["estimator", "method", "copy_estimator", "trainable"]

    def setup(self, E, v):
        copy, trainable, fp = v
        est = models.new_estimator(E, "wrapped", methods=EST_METHODS, fitted=True)
        est.fields["$fit_params"] = fp
        f = dict(estimator=est, method="transform", copy_estimator=copy, trainable=trainable)
        return dict(self=E.new_obj(MM + "transfer_transformer.py::TransferTransformer", f), **data(E, True))

    def at_exit(self, E, a, old, exc):
        out = FrameFit.at_exit(self, E, a, old, exc)
        s = a.self
        est = s.fields["estimator"]
        if s.fields["copy_estimator"]:
            out["original_estimator_never_fitted_with_copy_estimator"] = z3.BoolVal(("call", "fit") not in est.events)
        if not s.fields["trainable"]:
            fits = [t for t in E.trace[old["tl"]:] if t["op"] == "fit"]
            out["no_fit_reaches_any_estimator_unless_trainable"] = z3.BoolVal(not fits)
        return out


@contract(MM + "kmeans_l1.py::KMeansL1L2.fit", "C02")
class KMeansL1L2Fit(FrameFit):
    frame_only = True
    variants = [(nm, hw) for nm in ("L1", "L2") for hw in (False, True)]
    params = ["n_clusters", "init", "n_init", "max_iter", "tol", "verbose", "random_state", "copy_x", "algorithm", "norm"]

    def setup(self, E, v):
        norm, has_w = v
        f = dict(n_clusters=E.size("k", 1), init="k-means++", n_init=10, max_iter=E.size("max_iter", 1), tol=E.real("tol"), verbose=0,
                 random_state=E.int("seed"), copy_x=True, algorithm="lloyd", norm=norm)
        return dict(self=E.new_obj(MM + "kmeans_l1.py::KMeansL1L2", f), **data(E, has_w))


@contract(MM + "kmeans_l1.py::KMeansL1L2._fit_l1", "C02")
class FitL1Frame(FrameFit):
    """the L1 fit itself (the real loop over the n_init runs): no hyper-parameter is written, the data are not written - also when
    a run fails; an explicit array of initial centres included (n_init is then ignored, not overwritten)"""
    frame_only = True
    variants = [(ik, hw) for ik in ("k-means++", "array") for hw in (False, True)]
    params = ["n_clusters", "init", "n_init", "max_iter", "tol", "verbose", "random_state", "copy_x", "algorithm", "norm"]
    loop_kinds = {0: {"best_labels": ("nd", 1, "int"), "best_centers": ("nd", 2), "best_inertia": "real", "best_n_iter": "int",
                      "labels": ("nd", 1, "int"), "centers": ("nd", 2), "inertia": "real", "n_iter_": "int"}}
    loops = {0: lambda E, L: {"a_best_run_is_recorded_after_the_first_run": z3.BoolVal(
        isinstance(L["best_labels"], NdArr) and isinstance(L["best_centers"], NdArr) and L["best_n_iter"] is not None)
        if L["best_inertia"] is not None else z(L.k) == 0}}

    def result(self, E, a, old):
        models.maybe_raise(E, "_fit_l1")          # summary at call sites (KMeansL1L2.fit): may fail, returns self
        return a.self

    def setup(self, E, v):
        init_kind, has_w = v
        k, d = E.size("k", 1), E.size("d", 1)
        f = dict(n_clusters=k, init="k-means++" if init_kind == "k-means++" else E.nd("init", (k, d)), n_init=E.size("n_init", 1),
                 max_iter=E.size("max_iter", 1), tol=E.real("tol"), verbose=0, random_state=E.int("seed"), copy_x=True, algorithm="lloyd", norm="L1")
        n = E.size("n", 1)
        return dict(self=E.new_obj(MM + "kmeans_l1.py::KMeansL1L2", f), X=E.nd("X", (n, d)), y=None, sample_weight=E.nd("w", (n,)) if has_w else None)


@contract(MM + "decision_tree_logreg.py::_DecisionTreeLogisticRegressionNode.fit", "C02", assumed=True)
class NodeFitOpaque(Contract):
    """the recursive node fit: opaque here (may raise; fits clones of dtlr.estimator, never dtlr.estimator itself); functional contract under C10"""

    def result(self, E, a, old):
        models.maybe_raise(E, "node.fit")
        E.call_method(a.self.fields["estimator"], "fit", [a.X, a.y], {"sample_weight": a.sample_weight}, None)    # the node's own classifier is fitted
        return E.int("last_index")


@contract(MM + "decision_tree_logreg.py::DecisionTreeLogisticRegression.fit", "C02")
class DtlrFit(FrameFit):
    frame_only = True
    variants = [False, True]
    params = ["estimator", "max_depth", "min_samples_split", "min_samples_leaf", "min_weight_fraction_leaf", "fit_improve_algo", "p1p2", "gamma",
              "verbose", "strategy"]

    def setup(self, E, has_w):
        f = dict(estimator=models.new_estimator(E, "est", methods=EST_METHODS), max_depth=E.size("max_depth", 1), min_samples_split=E.int("mss"),
                 min_samples_leaf=E.int("msl"), min_weight_fraction_leaf=E.real("mwfl"), fit_improve_algo="auto", p1p2=E.real("p1p2"), gamma=E.real("gamma"),
                 verbose=0, strategy="parallel")
        d = data(E, has_w, "int")
        l0, l1 = E.int("label0"), E.int("label1")
        E.assume(l0 != l1)
        i = z3.Int("li")
        E.assume(z3.ForAll([i], z3.Or(d["y"].cell.term[i] == l0, d["y"].cell.term[i] == l1)))
        d["y"].cell.labels = [l0, l1]
        return dict(self=E.new_obj(MM + "decision_tree_logreg.py::DecisionTreeLogisticRegression", f), **d)

    def at_exit(self, E, a, old, exc):
        out = FrameFit.at_exit(self, E, a, old, exc)
        out["given_estimator_never_fitted"] = z3.BoolVal(("call", "fit") not in a.self.fields["estimator"].events)
        return out


@contract(MM + "piecewise_estimator.py::PiecewiseEstimator._mapping_train", "C02", assumed=True)
class MappingTrainOpaque(Contract):
    def result(self, E, a, old):
        models.maybe_raise(E, "_mapping_train")
        n = a.X.shape[0]
        return (NdArr.fresh("association", (n,), "real"), {("leaf", 0): 0, ("leaf", 1): 1}, [("leaf", 0), ("leaf", 1)])


@contract(MM + "piecewise_estimator.py::_fit_piecewise_estimator", "C02", assumed=True)
class FitBucketOpaque(Contract):
    """one bucket: opaque here (may raise; fits the clone it is given); functional contract under C08"""

    def result(self, E, a, old):
        models.maybe_raise(E, "_fit_piecewise_estimator")
        E.call_method(a.model, "fit", [a.X, a.y], {"sample_weight": a.sample_weight}, None)
        return a.model


@contract(MM + "piecewise_estimator.py::PiecewiseEstimator.fit", "C02")
class PiecewiseFit(FrameFit):
    frame_only = True
    variants = [(cls, hw) for cls in ("PiecewiseRegressor", "PiecewiseClassifier") for hw in (False, True)]
    params = ["binner", "estimator", "n_jobs", "verbose"]

    def setup(self, E, v):
        cls, has_w = v
        f = dict(binner=models.new_estimator(E, "binner", methods=EST_METHODS + ("decision_path",)),
                 estimator=models.new_estimator(E, "estimator", methods=("fit", "predict", "get_params", "set_params")), n_jobs=None, verbose=False)
        f["estimator"].fields["$fitted_attrs"] = set()
        if cls == "PiecewiseClassifier":
            f["random_state"] = E.int("seed")
        return dict(self=E.new_obj(MM + "piecewise_estimator.py::" + cls, f), **data(E, has_w))

    def at_exit(self, E, a, old, exc):
        out = FrameFit.at_exit(self, E, a, old, exc)
        s = a.self
        out["given_binner_and_estimator_never_fitted"] = z3.BoolVal(
            ("call", "fit") not in s.fields["binner"].events and ("call", "fit") not in s.fields["estimator"].events)
        if "random_state" in s.fields:
            out["hyper_parameter_random_state_unchanged"] = z3.BoolVal(bool(z3.eq(z(s.fields["random_state"]), z(old["params"].get("random_state", s.fields["random_state"])))))
            if exc is None:
                # an integer random_state - ANY integer, 0 included - seeds the generator the buckets draw from (C03: the fit then does
                # not depend on numpy's global generator), and nothing is drawn from the global one
                made = [t for t in E.trace[old["tl"]:] if t["op"] == "RandomState"]
                out["integer_random_state_seeds_the_generator_of_the_fit"] = z3.BoolVal(
                    any(t["seed"] is s.fields["random_state"] or (is_sym(t["seed"]) and z3.eq(z(t["seed"]), z(s.fields["random_state"]))) for t in made))
                out["nothing_is_drawn_from_the_global_generator"] = z3.BoolVal(
                    all(t.get("rng") != "Global" for t in E.trace[old["tl"]:] if t["op"] in ("randint", "permutation", "shuffle", "rand")))
        return out


@contract(MM + "target_predictors.py::TransformedTargetRegressor2.fit", "C02")
class TtrFit(FrameFit):
    frame_only = True
    variants = [False, True]
    params = ["regressor", "transformer"]

    def setup(self, E, has_w):
        f = dict(regressor=models.new_estimator(E, "reg", methods=EST_METHODS), transformer="log")
        return dict(self=E.new_obj(MM + "target_predictors.py::TransformedTargetRegressor2", f), **data(E, has_w))

    def at_exit(self, E, a, old, exc):
        out = FrameFit.at_exit(self, E, a, old, exc)
        out["given_regressor_never_fitted"] = z3.BoolVal(("call", "fit") not in a.self.fields["regressor"].events)
        return out


@contract(MM + "extended_features.py::ExtendedFeatures.fit", "C02")
class ExtendedFit(FrameFit):
    """polynomial features: fit only records the number of input / output columns"""
    frame_only = True
    variants = [(kind, n, d, io, b) for kind in ("poly", "poly-slow") for n, d in ((1, 2), (2, 2), (3, 3)) for io in (False, True) for b in (False, True)]
    params = ["kind", "poly_degree", "poly_interaction_only", "poly_include_bias"]
    data = ["X"]

    def setup(self, E, v):
        kind, n, d, io, b = v
        f = dict(kind=kind, poly_degree=d, poly_interaction_only=io, poly_include_bias=b)
        return dict(self=E.new_obj(MM + "extended_features.py::ExtendedFeatures", f), X=E.nd("X", (E.size("m", 0), n)), y=None)


@contract(MM + "categories_to_integers.py::CategoriesToIntegers.fit", "C02")
class CategoriesFit(FrameFit):
    """one-hot schema of a data frame (3 rows, two categorical columns with missing cells, one numeric column; arbitrary cell contents)"""
    frame_only = True
    variants = ["explicit-columns", "detected-columns"]
    params = ["columns", "remove", "skip_errors", "single"]
    data = []
    max_paths = 30000

    def setup(self, E, v):
        from pyvc import pdmodel
        from pyvc.values import NaN
        cols = ["a", "b"] if v == "explicit-columns" else None
        s = E.new_obj(MM + "categories_to_integers.py::CategoriesToIntegers", dict(columns=cols, remove=None, skip_errors=False, single=False))
        data_ = {"a": [E.str("a0"), E.str("a1"), None], "b": [E.str("b0"), NaN, E.str("b2")], "x": [E.real("x0"), E.real("x1"), E.real("x2")]}
        frame = pdmodel.new_frame(["a", "x", "b"], data_)
        return dict(self=s, X=frame, y=None, _cols=cols, _frame=frame, _cells={k: list(v_) for k, v_ in data_.items()})

    def at_exit(self, E, a, old, exc):
        out = FrameFit.at_exit(self, E, a, old, exc)
        # the list given as `columns` is the caller's: same object, same content
        if a._cols is not None:
            out["the_callers_column_list_is_not_modified"] = z3.BoolVal(a.self.fields.get("columns") is a._cols and a._cols == ["a", "b"])
        return out


@contract(MM + "predictable_tsne.py::PredictableTSNE.fit", "C02")
class TsneFit(FrameFit):
    """the normalizer, the t-SNE transformer and the estimator given by the caller are cloned: fit never calls set_params on them nor fits them,
    whatever the number of rows (with fewer rows than the perplexity the perplexity of fit's OWN copy is lowered)"""
    frame_only = True
    variants = [(hn, hw) for hn in (False, True) for hw in (False, True)]
    params = ["normalizer", "transformer", "estimator", "normalize", "keep_tsne_outputs"]

    def setup(self, E, v):
        has_norm, has_w = v
        tr = models.new_estimator(E, "tsne", methods=("fit", "fit_transform", "get_params", "set_params"))
        tr.fields["perplexity"] = E.real("perplexity")
        tr.fields["$param_fields"] = ["perplexity"]
        tr.fields["$params"] = {"perplexity": tr.fields["perplexity"]}
        f = dict(normalizer=models.new_estimator(E, "normalizer", methods=("fit", "transform", "get_params", "set_params")) if has_norm else None,
                 transformer=tr, estimator=models.new_estimator(E, "estimator", methods=EST_METHODS), normalize=True, keep_tsne_outputs=False)
        return dict(self=E.new_obj(MM + "predictable_tsne.py::PredictableTSNE", f), **data(E, has_w))

    def at_exit(self, E, a, old, exc):
        out = FrameFit.at_exit(self, E, a, old, exc)
        s = a.self
        given = [s.fields[k] for k in ("normalizer", "transformer", "estimator") if s.fields[k] is not None]
        out["given_objects_never_fitted"] = z3.BoolVal(all(("call", "fit") not in g.events for g in given))
        out["perplexity_of_the_given_transformer_unchanged"] = z3.BoolVal(
            z3.eq(z(s.fields["transformer"].fields["perplexity"]), z(old["fields"]["transformer"].fields["perplexity"]))
            and not any(e[0] == "set" for e in s.fields["transformer"].events))
        return out


from contracts import C13 as _c13


@contract(_c13.PermTransform.key, "C02")
class PermTransformFrame(_c13.PermTransform):
    """frame of the label permutation that TransformedTargetClassifier2.fit / TransformedTargetRegressor2.fit('permute') apply to the
    caller's targets: the transformed targets are a new array, features and targets given by the caller are not written"""
    canaries = {}

    def ensures(self, E, a, res, old, gather=False):
        out = _c13.PermTransform.ensures(self, E, a, res, old)
        return {k: v for k, v in out.items() if k in ("returns_pair", "features_and_input_untouched")}


META = dict(
    level="proof", lean_files=["lemmas/Sums.lean"], assumptions=["A1", "A2", "A6", "A7", "A8", "A9"],
    trusted=["every call into scikit-learn / an inner estimator may raise at that point (one exceptional path per call) and otherwise behaves as its "
             "assumed contract; in-repo steps treated as opaque here: constraint_kmeans, _fit_reglin, _fit_l1, clone_with_fitted_parameters, "
             "assert_estimator_equal (they may raise, they do not touch hyper-parameters: not verified here)",
             "identity of attribute values is term/object identity of the symbolic state"],
    not_applicable=["byte-equality of caller data inside scikit-learn (check_array copies) is assumed; the bounded stand-in compares bytes",
                    "'a later successful fit gives the same model as a fresh clone' follows from the frame plus C03's overwrite clauses; it is exercised by "
                    "the bounded stand-in",
                    "fits of PiecewiseRegressor/Classifier, DecisionTreeLogisticRegression, PredictableTSNE, ExtendedFeatures, CategoriesToIntegers: bounded stand-in "
                    "only in C02 (their fit functions are under contract in C08/C10/C19 without fault injection)"],
)
