"""C01 - parameter protocol: get_params / set_params / clone round-trip.

Technique for the dictionaries of unknown size: *generic keys*.  A wrapped model advertises two
parameters whose NAMES are arbitrary (symbolic, distinct) strings and whose values are opaque; the
code under contract is executed on them with every key comparison decided by the string solver.
A clause proved for these generic keys holds for every parameter name (any length, any
characters, any index); what is bounded is the number of keys handled in one call.
"""
import ast
import z3
from pyvc.api import Contract, contract, ALL_CONTRACTS
from pyvc.values import Obj, NdArr, Opaque, z, is_sym
from pyvc import models, dicts
from pyvc.engine import ExternFn

SK = "mlinsights/sklapi/"


def val(E, name):
    return Opaque(z3.Const(models.fresh_name(name), E.registry.Val), "val")


def generic_model(E, name="model", nkeys=2, methods=("fit", "predict", "predict_proba", "get_params", "set_params")):
    """an estimator advertising nkeys parameters with arbitrary distinct names"""
    ks = [E.str("%s_key%d" % (name, i)) for i in range(nkeys)]
    for k in ks:
        E.assume(z3.Length(k) >= 1)
    if nkeys > 1:
        E.assume(z3.Distinct(*ks))
    params = {}
    for i, k in enumerate(ks):
        params[dicts.SymKey(k)] = val(E, "%s_v%d" % (name, i))
    o = models.new_estimator(E, name, "Model", methods, params=params)
    o.fields["$keys"] = ks
    return o


def same(a, b):
    if isinstance(a, Opaque) and isinstance(b, Opaque):
        return a.term == b.term
    if is_sym(a) and is_sym(b):
        return a == b
    if isinstance(a, (str, int, bool)) or a is None or isinstance(b, (str, int, bool)) or b is None:
        return z3.BoolVal(type(a) is type(b) and a == b)
    return z3.BoolVal(a is b)


def dict_eq_on(E, after, before, except_keys=()):
    """every key of `before` (other than except_keys) is still there with the same value, and no key appeared"""
    conj = []
    bk, ak = dicts.items(before), dicts.items(after)
    for k, v in bk:
        if any(k is x or (isinstance(k, str) and isinstance(x, str) and k == x) or (is_sym(k) and is_sym(x) and z3.eq(k, x))
               for x in except_keys):
            continue
        hit = [va for ka, va in ak if (ka is k) or (isinstance(ka, str) and isinstance(k, str) and ka == k)
               or (is_sym(ka) and is_sym(k) and z3.eq(ka, k))]
        if hit:
            conj.append(same(hit[0], v))
        else:
            # keys are compared as strings
            alts = [z3.And(z(ka) == z(k), same(va, v)) for ka, va in ak if isinstance(ka, str) or is_sym(ka)]
            conj.append(z3.Or(*alts) if alts else z3.BoolVal(False))
    conj.append(z3.BoolVal(len(ak) == len(bk)))
    return z3.And(*conj)


def lookup(E, d, key):
    """value stored under key (as strings), or None"""
    for k, v in dicts.items(d):
        if (isinstance(k, str) and isinstance(key, str) and k == key) or (is_sym(k) and is_sym(key) and z3.eq(k, key)):
            return v
    alts = [(k, v) for k, v in dicts.items(d)]
    for k, v in alts:
        if (isinstance(k, str) or is_sym(k)) and E.branch(z(k) == z(key)):
            return v
    return None


# ----------------------------------------------------------------------------- SkBase
def _P(E, **kw):
    p = E.new_obj(SK + "sklearn_parameters.py::SkLearnParameters", dict(_keys=list(kw.keys())))
    p.fields.update(kw)
    return p


@contract(SK + "sklearn_parameters.py::SkLearnParameters.__init__", "C01")
class ParametersInit(Contract):
    """the parameter holder behind SkBase.P keeps the very objects it is given (scikit-learn's clone compares by identity: a copied list
    or dict parameter makes clone raise) and lists their names in the order given"""
    variants = ["scalars", "containers"]

    def setup(self, E, v):
        kw = {"pa1": val(E, "a"), "pa2": None}
        if v == "containers":
            kw = {"alist": [val(E, "x"), val(E, "y")], "adict": {"k": val(E, "z")}, "empty": [], "atuple": (val(E, "t"),), "name": "text"}
        s = Obj(E.repo.module(SK + "sklearn_parameters.py").defs["SkLearnParameters"])
        return dict(self=s, kwargs=kw, _kw=dict(kw))

    def ensures(self, E, a, res, old):
        s = a.self
        out = {"names_in_the_order_given": z3.BoolVal(s.fields.get("_keys") == list(a._kw))}
        for k, v in a._kw.items():
            out["parameter_%s_is_the_object_given" % k] = z3.BoolVal(k in s.fields and s.fields[k] is v)
        return out

    canaries = {"a_copy_of_the_list_would_do": lambda E, a, res, old: z3.BoolVal(
        "alist" not in a._kw or (a.self.fields.get("alist") == a._kw["alist"] and a.self.fields.get("alist") is not a._kw["alist"]))}


@contract(SK + "sklearn_base.py::SkBase.set_params", "C01")
class SkBaseSet(Contract):
    variants = ["pa1", "pa2", "both", "set_to_none", "was_none"]

    def setup(self, E, v):
        s = E.new_obj(SK + "sklearn_base.py::SkBase", dict(P=_P(E, pa1=val(E, "a"), pa2=None if v == "was_none" else val(E, "b"))))
        values = {"pa1": val(E, "na")} if v in ("pa1", "was_none") else ({"pa2": val(E, "nb")} if v == "pa2" else {"pa1": val(E, "na"), "pa2": val(E, "nb")})
        if v == "set_to_none":
            values = {"pa1": None}
        return dict(self=s, values=values, _given=values)

    def old(self, E, a):
        return dict(before=E.call_method(a.self, "get_params", [True], {}, None))

    def ensures(self, E, a, res, old):
        after = E.call_method(a.self, "get_params", [True], {}, None)
        out = {"returns_self": z3.BoolVal(res is a.self)}
        out["given_keys_are_set"] = z3.And(*[same(after.get(k), v) for k, v in a._given.items()])
        out["other_keys_unchanged_and_still_advertised"] = z3.And(
            z3.BoolVal(sorted(after) == sorted(old["before"])),
            *[same(after.get(k), v) for k, v in old["before"].items() if k not in a._given])
        return out


# ----------------------------------------------------------------------------- SkBaseTransformLearner
def _learner(E, extra=True, method="predict"):
    m = generic_model(E)
    P = _P(E, extra=val(E, "extra")) if extra else _P(E)
    s = E.new_obj(SK + "sklearn_base_transform_learner.py::SkBaseTransformLearner", dict(P=P, model=m, method=method))
    s.fields["method_"] = E.getattr(m, method)
    return s


@contract(SK + "sklearn_base_transform_learner.py::SkBaseTransformLearner.get_params", "C01")
class LearnerGet(Contract):
    variants = [True, False]

    def setup(self, E, deep):
        return dict(self=_learner(E), deep=deep)

    def ensures(self, E, a, res, old):
        s = a.self
        out = {"is_a_dict": z3.BoolVal(isinstance(res, dict))}
        if not isinstance(res, dict):
            return out
        m = s.fields["model"]
        exp = {"extra": s.fields["P"].fields["extra"], "model": m, "method": s.fields["method"]}
        conj = [same(lookup(E, res, k), v) for k, v in exp.items()]
        n = 3
        if a.deep:
            for k, v in dicts.items(m.fields["$params"]):
                conj.append(same(lookup(E, res, z3.Concat(z3.StringVal("model__"), k)), v))
                n += 1
        conj.append(z3.BoolVal(len(res) == n))
        out["exactly_own_model_method_and_prefixed_model_parameters"] = z3.And(*conj)
        return out


@contract(SK + "sklearn_base_transform_learner.py::SkBaseTransformLearner.set_params", "C01")
class LearnerSet(Contract):
    """one call with one advertised key (of each kind), or with the whole deep get_params of another instance"""
    variants = ["model", "method", "extra", "nested", "model+method", "roundtrip", "model+same-method", "roundtrip-same-method", "same-method"]
    max_paths = 20000

    def setup(self, E, v):
        s = _learner(E)
        values = {}
        other = None
        if v in ("model", "model+method", "model+same-method"):
            values["model"] = generic_model(E, "newmodel")
        if v in ("method", "model+method"):
            values["method"] = "predict_proba"
        if v in ("model+same-method", "same-method"):
            values["method"] = "predict"          # the method the instance already has: it still has to be bound to the NEW model
        if v == "extra":
            values["extra"] = val(E, "newextra")
        if v == "nested":
            k = s.fields["model"].fields["$keys"][0]
            values[dicts.SymKey(z3.Concat(z3.StringVal("model__"), k))] = val(E, "newnested")
        if v in ("roundtrip", "roundtrip-same-method"):
            other = _learner(E, method="predict_proba" if v == "roundtrip" else "predict")
            values = E.call_method(other, "get_params", [True], {}, None)
        return dict(self=s, values=values, _given=dict(values), _v=v, _other=other)

    def old(self, E, a):
        return dict(before=E.call_method(a.self, "get_params", [True], {}, None))

    def ensures(self, E, a, res, old):
        s = a.self
        after = E.call_method(s, "get_params", [True], {}, None)
        out = {"returns_self": z3.BoolVal(res is s)}
        out["every_given_key_is_reported"] = z3.And(*[same(lookup(E, after, k), v) for k, v in dicts.items(a._given)])
        if a._v in ("roundtrip", "roundtrip-same-method"):
            theirs = E.call_method(a._other, "get_params", [True], {}, None)
            out["reports_the_same_parameters_as_the_source_instance"] = dict_eq_on(E, after, theirs)
        elif a._v in ("method", "extra", "nested", "same-method"):
            changed = list(dicts.keys(a._given))
            out["other_keys_unchanged_and_still_advertised"] = dict_eq_on(E, after, old["before"], except_keys=changed)
        else:
            out["own_and_method_keys_kept_when_model_replaced"] = z3.And(
                same(lookup(E, after, "extra"), lookup(E, old["before"], "extra")),
                same(lookup(E, after, "method"), a._given.get("method", lookup(E, old["before"], "method"))))
        # representation invariant: the bound method is the advertised method of the current model
        mm = s.fields["method_"]
        out["bound_method_is_method_of_current_model"] = z3.BoolVal(
            isinstance(mm, ExternFn) and mm.self_obj is s.fields["model"] and mm.name == "estimator." + str(s.fields["method"]))
        return out


def _canary_old_value_kept(E, a, res, old):
    if a._v != "extra":
        return z3.BoolVal(True)
    after = E.call_method(a.self, "get_params", [True], {}, None)
    return same(lookup(E, after, "extra"), lookup(E, old["before"], "extra"))


LearnerSet.canaries = {"given_key_keeps_its_old_value": _canary_old_value_kept}


# ----------------------------------------------------------------------------- SkBaseTransformStacking
NM = 12


def _stacking(E, nm=NM, tag=""):
    ms = [generic_model(E, "m%s%d" % (tag, i), nkeys=1, methods=("fit", "transform", "get_params", "set_params")) for i in range(nm)]
    s = E.new_obj(SK + "sklearn_base_transform_stacking.py::SkBaseTransformStacking",
                  dict(P=_P(E, extra=val(E, "extra")), models=ms, method="predict"))
    return s


@contract(SK + "sklearn_base_transform_stacking.py::SkBaseTransformStacking.set_params", "C01")
class StackingSet(Contract):
    """12 members: every member index (one and two digits) x an arbitrary parameter name"""
    variants = [("member", i) for i in range(NM)] + [("method", None), ("extra", None), ("extra_none", None)] + \
               [("roundtrip", (2, 3)), ("roundtrip", (3, 2)), ("roundtrip", (2, 2))]
    max_paths = 20000

    def setup(self, E, v):
        kind, i = v
        if kind == "roundtrip":
            # everything get_params(deep=True) of ANOTHER instance reports - with more, fewer or as many members - given to set_params at once
            s, other = _stacking(E, i[0]), _stacking(E, i[1], tag="o")
            values = E.call_method(other, "get_params", [True], {}, None)
            return dict(self=s, values=values, _given=dict(values), _before=None, _other=other)
        s = _stacking(E)
        before = E.call_method(s, "get_params", [True], {}, None)
        if kind == "member":
            k = s.fields["models"][i].fields["$keys"][0]
            key = [kk for kk in dicts.keys(before) if is_sym(kk) and any(z3.eq(k, c) for c in kk.children())]
            assert len(key) == 1, "get_params does not advertise the member's parameter: %r" % (dicts.keys(before),)
            values = {dicts.SymKey(key[0]): val(E, "newv")}
        elif kind == "method":
            values = {"method": "transform"}
        elif kind == "extra_none":
            values = {"extra": None}
        else:
            values = {"extra": val(E, "newextra")}
        return dict(self=s, values=values, _given=dict(values), _before=before)

    def ensures(self, E, a, res, old):
        after = E.call_method(a.self, "get_params", [True], {}, None)
        out = {"returns_self": z3.BoolVal(res is a.self),
               "every_given_key_is_reported": z3.And(*[same(lookup(E, after, k), v) for k, v in dicts.items(a._given)])}
        if a._before is not None:
            out["other_keys_unchanged_and_still_advertised"] = dict_eq_on(E, after, a._before, except_keys=list(dicts.keys(a._given)))
        else:
            theirs = E.call_method(a._other, "get_params", [True], {}, None)
            out["reports_the_same_parameters_as_the_source_instance"] = dict_eq_on(E, after, theirs)
        return out


# ----------------------------------------------------------------------------- ClassifierAfterKMeans
CK = "mlinsights/mlmodel/classification_kmeans.py"


def _cak(E):
    est = generic_model(E, "est")
    clus = generic_model(E, "clus", methods=("fit", "transform", "predict", "get_params", "set_params"))
    return E.new_obj(CK + "::ClassifierAfterKMeans", dict(estimator=est, clus=clus))


@contract(CK + "::ClassifierAfterKMeans.set_params", "C01")
class CakSet(Contract):
    variants = ["e_", "c_", "estimator", "clus", "roundtrip"]
    max_paths = 20000

    def setup(self, E, v):
        s = _cak(E)
        other = None
        if v in ("e_", "c_"):
            k = s.fields["estimator" if v == "e_" else "clus"].fields["$keys"][0]
            values = {dicts.SymKey(z3.Concat(z3.StringVal(v), k)): val(E, "newv")}
        elif v == "roundtrip":
            other = _cak(E)
            values = E.call_method(other, "get_params", [True], {}, None)
        else:
            values = {v: generic_model(E, "new" + v, methods=("fit", "transform", "predict", "get_params", "set_params"))}
        return dict(self=s, values=values, _given=dict(values), _v=v, _other=other)

    def old(self, E, a):
        return dict(before=E.call_method(a.self, "get_params", [True], {}, None))

    def ensures(self, E, a, res, old):
        after = E.call_method(a.self, "get_params", [True], {}, None)
        out = {"returns_self": z3.BoolVal(res is a.self),
               "every_given_key_is_reported": z3.And(*[same(lookup(E, after, k), v) for k, v in dicts.items(a._given)])}
        if a._v in ("e_", "c_"):
            out["other_keys_unchanged_and_still_advertised"] = dict_eq_on(E, after, old["before"], except_keys=list(dicts.keys(a._given)))
        if a._v == "roundtrip":
            theirs = E.call_method(a._other, "get_params", [True], {}, None)
            out["reports_the_same_parameters_as_the_source_instance"] = dict_eq_on(E, after, theirs)
        return out


@contract(CK + "::ClassifierAfterKMeans.get_params", "C01")
class CakGet(Contract):
    def setup(self, E, v):
        return dict(self=_cak(E), deep=True)

    def ensures(self, E, a, res, old):
        s = a.self
        out = {"is_a_dict": z3.BoolVal(isinstance(res, dict))}
        if isinstance(res, dict):
            conj = [same(lookup(E, res, "estimator"), s.fields["estimator"]), same(lookup(E, res, "clus"), s.fields["clus"])]
            for pre, o in (("e_", s.fields["estimator"]), ("c_", s.fields["clus"])):
                for k, v in dicts.items(o.fields["$params"]):
                    conj.append(same(lookup(E, res, z3.Concat(z3.StringVal(pre), k)), v))
            conj.append(z3.BoolVal(len(res) == 6))
            out["the_two_estimators_and_their_prefixed_parameters"] = z3.And(*conj)
        return out


# ----------------------------------------------------------------------------- ApproximateNMFPredictor (own get_params / set_params)
ANMF = "mlinsights/mlmodel/anmf_predictor.py"
NMF_NAMES = ["alpha_H", "alpha_W", "beta_loss", "init", "l1_ratio", "max_iter", "n_components", "random_state", "shuffle", "solver", "tol", "verbose"]


def _nmf_names_model(E):
    """ASSUMED: NMF._get_param_names() lists the constructor parameters of scikit-learn's NMF (sorted; 'force_positive' is not one of them)"""
    E.registry.fns["sklearn.decomposition.NMF._get_param_names"] = lambda E_, *a: list(NMF_NAMES)
    E.registry.fns["NMF._get_param_names"] = E.registry.fns["sklearn.decomposition.NMF._get_param_names"]


def _anmf(E, given):
    """an instance as the constructor leaves it: force_positive plus the NMF parameters the caller chose to pass (possibly None)"""
    f = dict(force_positive=E.bool("force_positive"))
    f.update(given)
    return E.new_obj(ANMF + "::ApproximateNMFPredictor", f)


def _anmf_variants(E):
    return {"only_force_positive": {},
            "with_values": dict(n_components=E.int("n_components"), tol=E.real("tol")),
            "with_none_values": dict(n_components=None, init=None, random_state=None, max_iter=E.int("max_iter"))}


@contract(ANMF + "::ApproximateNMFPredictor.get_params", "C01")
class AnmfGet(Contract):
    variants = ["only_force_positive", "with_values", "with_none_values"]

    def setup(self, E, v):
        _nmf_names_model(E)
        given = _anmf_variants(E)[v]
        return dict(self=_anmf(E, given), deep=True, _given=given)

    def ensures(self, E, a, res, old, drop=None):
        s = a.self
        ok = isinstance(res, dict)
        out = {"a_dictionary": z3.BoolVal(ok)}
        if not ok:
            return out
        want = {k: s.fields[k] for k in NMF_NAMES + ["force_positive"] if k in s.fields and k != drop}
        got = dict(dicts.items(res))
        out["exactly_the_parameters_the_instance_holds_none_included"] = z3.BoolVal(set(got.keys()) == set(want.keys()))
        out["each_with_the_value_it_holds"] = z3.And(*[same(got[k], v) for k, v in want.items() if k in got]) if want else z3.BoolVal(True)
        return out

    canaries = {"max_iter_is_not_reported": lambda E, a, res, old: AnmfGet().ensures(E, a, res, old, drop="max_iter" if "max_iter" in a._given else "force_positive")[
        "exactly_the_parameters_the_instance_holds_none_included"]}


@contract(ANMF + "::ApproximateNMFPredictor.set_params", "C01")
class AnmfSet(Contract):
    variants = ["overwrite", "overwrite_with_none", "new_nmf_parameter", "new_parameter_none", "force_positive", "two", "unknown"]

    def setup(self, E, v):
        _nmf_names_model(E)
        s = _anmf(E, dict(n_components=E.int("n_components"), init="random"))
        params = {"overwrite": dict(n_components=E.int("n2")), "overwrite_with_none": dict(init=None), "new_nmf_parameter": dict(tol=E.real("tol")),
                  "new_parameter_none": dict(random_state=None), "force_positive": dict(force_positive=E.bool("fp2")),
                  "two": dict(max_iter=E.int("mi"), init=None), "unknown": dict(not_a_parameter=E.int("x"))}[v]
        return dict(self=s, params=params, _v=v)

    def old(self, E, a):
        return dict(fields={k: v for k, v in a.self.fields.items() if not k.startswith("$")})

    def signals(self, E, a, exc, old):
        if exc == "ValueError":
            return {"only_an_unknown_name_is_refused": z3.BoolVal(a._v == "unknown"),
                    "nothing_was_set": z3.BoolVal(all(a.self.fields.get(k) is v or same(a.self.fields.get(k), v) is not None and k in a.self.fields
                                                      for k, v in old["fields"].items()) and set(a.self.fields) == set(old["fields"]))}
        return None

    def ensures(self, E, a, res, old):
        s = a.self
        out = {"returns_self": z3.BoolVal(res is s), "an_unknown_name_is_refused": z3.BoolVal(a._v != "unknown")}
        t0 = len(E.trace)
        got = E.call_method(s, "get_params", [], {}, None)
        got = dict(dicts.items(got)) if isinstance(got, dict) else {}
        want = dict(old["fields"])
        want.update(a.params)
        out["get_params_afterwards_is_the_old_parameters_updated_by_the_given_ones"] = z3.And(
            z3.BoolVal(set(got.keys()) == set(want.keys())), *[same(got[k], v) for k, v in want.items() if k in got])
        return out


META = dict(
    level="proof", assumptions=["A2", "A4", "A5", "A6", "A7", "A9"],
    trusted=["wrapped estimators obey the scikit-learn protocol: get_params returns their parameters, set_params sets exactly the given "
             "ones, raises ValueError for an unknown name and returns the estimator", "string theory of z3/cvc5 (A4)"],
    not_applicable=["parameter dictionaries are represented by generic keys: names are arbitrary strings, the number of keys handled in one call is a "
                    "program constant (1-2 per family, 12 stacked members) - larger dictionaries rely on the key-independence of the loops",
                    "'behave identically' after a round trip: behavioural equivalence of third-party estimators is assumed; bounded stand-in compares outputs",
                    "all sequences of calls: each operation is proved to re-establish the representation invariant (advertised keys, bound method)"],
)


# ----------------------------------------------------------------------------- constructors in clone-normal form
def _exported_estimators():
    """classes exported by the package __init__ files that derive (through any chain) from a scikit-learn base class
    and define their own __init__; found by scanning the AST of /repo on every run"""
    import os
    from pyvc.frontend import Repo, RepoClass
    repo = Repo(os.environ.get("PYVC_REPO", "/repo"))
    found = []
    for pkg in ("mlinsights/mlmodel", "mlinsights/timeseries", "mlinsights/sklapi", "mlinsights/mlbatch"):
        try:
            init = repo.module(pkg + "/__init__.py")
        except FileNotFoundError:
            continue
        for name, ent in init.imports.items():
            if ent[0] != "repo" or not ent[1].endswith(".py"):
                continue
            try:
                mod = repo.module(ent[1])
            except (FileNotFoundError, SyntaxError):
                continue
            d = mod.defs.get(ent[2])
            if isinstance(d, RepoClass) and "__init__" in d.methods:
                found.append((ent[1], d))
    # add base classes defined in the same packages that exported classes derive from
    return found


def _is_sklearn_estimator(E, cls):
    repo_cls, ext = E.mro(cls)
    return any("sklearn" in e or e.split(".")[-1] in ("BaseEstimator",) for e in ext)


def _make_ctor_contract(relpath, cls):
    init = cls.methods["__init__"]
    args = init.node.args
    names = [a.arg for a in args.args][1:]
    defaults = dict(zip([a.arg for a in args.args][len(args.args) - len(args.defaults):], args.defaults))
    if args.vararg is not None:
        return None
    has_kwargs = args.kwarg is not None

    class Ctor(Contract):
        variants = ["defaults", "objects"]
        max_paths = 3000

        def setup(self, E, variant):
            from pyvc.engine import Frame
            s = Obj(cls)
            vals = {}
            for n in names:
                d = defaults.get(n)
                if d is None and n not in defaults:
                    vals[n] = "log" if n == "fct" else generic_model(
                        E, n, methods=("fit", "predict", "predict_proba", "transform", "decision_function", "get_params", "set_params"))
                    continue
                dv = E.eval(d, Frame(init, init.module))
                if variant == "objects" and (dv is None or isinstance(dv, str)) and (
                        n in ("estimator", "binner", "clus", "regressor", "classifier", "model", "transformer", "preprocessing")):
                    if n in ("preprocessing", "transformer"):
                        vals[n] = dv
                    else:
                        vals[n] = generic_model(E, n, methods=("fit", "predict", "predict_proba", "transform",
                                                               "decision_function", "get_params", "set_params"))
                elif variant == "objects" and isinstance(dv, __import__("fractions").Fraction):
                    # a user may pass an int where the default is a float: it must be stored as given (clone checks identity)
                    vals[n] = E.int(n)
                    E.assume(vals[n] >= 1)
                elif isinstance(dv, bool):
                    vals[n] = dv
                elif isinstance(dv, int):
                    vals[n] = dv          # validated against constants in several constructors: keep the default
                else:
                    vals[n] = dv
            return dict(self=s, _vals=vals, **vals)

        def signals(self, E, a, exc, old):
            # a constructor may refuse its default configuration (required arguments); with valid objects it must not raise
            return {} if E.ps.get("variant") == "defaults" else None

        def ensures(self, E, a, res, old):
            s = a.self
            out = {}
            stored = {}
            for n, v in a._vals.items():
                out["parameter_%s_is_stored_as_attribute" % n] = z3.BoolVal(n in s.fields)
                if n not in s.fields:
                    continue
                stored[n] = s.fields[n]
                if isinstance(v, Obj):
                    out["object_given_for_%s_is_kept" % n] = z3.BoolVal(s.fields[n] is v)
                elif is_sym(v):
                    # (a default such as None or "dummy" may stand for an object the constructor fills in: the rebuilt-from-get_params
                    # clauses below cover that; the clause is for a value the user chose - here the symbolic numbers of variant "objects")
                    # scikit-learn's clone refuses (RuntimeError) a constructor that stores anything but the object it was given:
                    # no conversion, not even one that keeps the value (float(numpy.float64), int -> float ...)
                    st = s.fields[n]
                    same = st is v or (is_sym(v) and is_sym(st) and z3.eq(st, v)) or (
                        not is_sym(v) and not is_sym(st) and type(st) is type(v) and not isinstance(v, (list, dict)) and st == v)
                    out["value_given_for_%s_is_stored_unconverted" % n] = z3.BoolVal(bool(same))
            if len(stored) == len(a._vals):
                # scikit-learn's clone: klass(**get_params()) must store exactly what it is given
                s2 = E.instantiate(cls, [], dict(stored), None)
                for n, v in stored.items():
                    st = s2.fields.get(n, _NOATTR)
                    if isinstance(v, (Obj, list, dict)) or v is None:
                        ok = st is v
                    elif is_sym(v):
                        ok = is_sym(st) and z3.eq(st, v)
                    else:
                        ok = type(st) is type(v) and st == v
                    out["rebuilt_from_get_params_keeps_%s" % n] = z3.BoolVal(bool(ok))
            return out

    Ctor.__name__ = "Ctor_" + cls.name
    return contract(relpath + "::" + cls.name + ".__init__", "C01")(Ctor)


_NOATTR = object()
_SKIP = {"SkBaseTransformLearner", "SkBaseTransformStacking", "SkBaseLearner", "SkBaseClassifier", "SkBaseRegressor",
         "SkLearnParameters", "MLCache", "PipelineCache",
         "QuantileMLPRegressor"}   # super(Class, self) form is outside the executor subset: bounded stand-in only
CTOR_CLASSES = []
for _rel, _cls in _exported_estimators():
    if _cls.name in _SKIP:
        continue
    if _make_ctor_contract(_rel, _cls) is not None:
        CTOR_CLASSES.append(_cls.name)
