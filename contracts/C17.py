"""C17 - IntervalRegressor bootstraps over the whole training set, aggregates exactly."""
import z3
from pyvc.api import Contract, contract
from contracts._frames import query_frame
from pyvc.values import Obj, NdArr, z
from pyvc import models

F = "mlinsights/mlmodel/interval_regressor.py"


def _new_size(n, alpha):
    # int(n * alpha + 0.5) for a non-negative argument = floor = round-half-up
    return z3.ToInt(z3.ToReal(n) * alpha + z3.RealVal("1/2"))


@contract(F + "::IntervalRegressor.fit._fit_piecewise_estimator", "C17")
class FitOne(Contract):
    """one bootstrap replicate: round(alpha*n) rows drawn with replacement from ALL n rows, the
    features, target and weight of a drawn row kept together, one fit of the given estimator"""
    variants = [False, True]
    scopes = [dict(n=1), dict(n=2), dict(n=3)]

    def setup(self, E, has_w):
        n, d = E.size("n", 1), E.size("d", 1)
        alpha = E.real("alpha")
        est = models.new_estimator(E, "est", methods=("fit", "predict"))
        return dict(i=E.int("i"), est=est, X=E.nd("X", (n, d)), y=E.nd("y", (n,)),
                    sample_weight=E.nd("w", (n,)) if has_w else None, alpha=alpha)

    def requires(self, E, a):
        return {"n>=1": z(a.X.shape[0]) >= 1, "y_len": z(a.y.shape[0]) == z(a.X.shape[0]), "alpha>0": z(a.alpha) > 0,
                "w_len": z3.BoolVal(True) if a.sample_weight is None else z(a.sample_weight.shape[0]) == z(a.X.shape[0])}

    def old(self, E, a):
        return dict(trace_len=len(E.trace), rnd=None)

    def result(self, E, a, old):
        # call-site role: the estimator is fitted on a resample described by a fresh index vector
        n = z(a.X.shape[0])
        size = _new_size(n, z(a.alpha))
        rnd = NdArr.fresh("rnd", (size,), "int")
        old["rnd"] = rnd
        est = a.est
        est.fields["$state"] = z3.Const(models.fresh_name("fitted"), models.Est)
        est.fields["$fitted"] = True
        fx, fy = a.X.snapshot(), a.y.snapshot()
        est.fields["$fit_X"] = NdArr.from_fn("Xr", (size, a.X.shape[1]), "real", lambda r, c: fx.get(rnd.get(r), c))
        est.fields["$fit_y"] = NdArr.from_fn("yr", (size,), "real", lambda r: fy.get(rnd.get(r)))
        if a.sample_weight is not None:
            fw = a.sample_weight.snapshot()
            est.fields["$fit_w"] = NdArr.from_fn("wr", (size,), "real", lambda r: fw.get(rnd.get(r)))
        else:
            est.fields["$fit_w"] = None
        est.fields["$rnd"] = rnd
        est.events.append(("call", "fit"))
        return est

    def ensures(self, E, a, res, old, shift_high=0):
        n = z(a.X.shape[0])
        size = _new_size(n, z(a.alpha))
        out = {}
        if old.get("rnd") is not None:
            rnd = old["rnd"]
            return {"range": E.forall_range([(0, size)], lambda r: z3.And(rnd.get(r) >= 0, rnd.get(r) < n))}
        tr = E.trace[old["trace_len"]:]
        draws = [t for t in tr if t["op"] == "randint"]
        fits = [t for t in tr if t["op"] == "fit"]
        out["exactly_one_draw_one_fit"] = z3.BoolVal(len(draws) == 1 and len(fits) == 1 and fits[0]["obj"] is a.est)
        if not (len(draws) == 1 and len(fits) == 1 and fits[0]["obj"] is a.est):
            return out
        dr, ft = draws[0], fits[0]
        out["every_row_eligible_none_out_of_range"] = z3.And(z(dr["low"]) == 0, z(dr["high"]) == n + shift_high)
        out["sample_size_is_round_alpha_n"] = z3.BoolVal(dr["size"] is not None) if dr["size"] is None else z(dr["size"]) == size
        rnd = dr["result"]
        Xr, yr, wr = ft["X"], ft["y"], ft["w"]
        ok = isinstance(rnd, NdArr) and isinstance(Xr, NdArr) and isinstance(yr, NdArr) and Xr.ndim == 2 and yr.ndim == 1
        out["fit_gets_arrays"] = z3.BoolVal(ok)
        if not ok:
            return out
        m = z(rnd.shape[0])
        d = z(a.X.shape[1])
        out["drawn_row_keeps_features_target_weight_together"] = z3.And(
            z(Xr.shape[0]) == m, z(Xr.shape[1]) == d, z(yr.shape[0]) == m,
            E.forall_range([(0, m), (0, d)], lambda r, c: Xr.get(r, c) == a.X.get(rnd.get(r), c)),
            E.forall_range([(0, m)], lambda r: yr.get(r) == a.y.get(rnd.get(r))),
            (z3.BoolVal(wr is None) if a.sample_weight is None else
             (z3.BoolVal(False) if not isinstance(wr, NdArr) else z3.And(
                 z(wr.shape[0]) == m, E.forall_range([(0, m)], lambda r: wr.get(r) == a.sample_weight.get(rnd.get(r)))))))
        out["returns_the_fitted_estimator"] = z3.BoolVal(res is a.est)
        return out

    canaries = {"high_is_n_minus_1": lambda E, a, res, old: FitOne().ensures(E, a, res, old, shift_high=-1).get(
        "every_row_eligible_none_out_of_range", z3.BoolVal(True))}


def _self(E, n_est=None, fitted=False):
    est = models.new_estimator(E, "base", methods=("fit", "predict"))
    fields = dict(estimator=est, n_jobs=None, alpha=E.real("alpha"), verbose=False,
                  n_estimators=n_est if n_est is not None else E.size("n_estimators", 0))
    return E.new_obj(F + "::IntervalRegressor", fields)


@contract(F + "::IntervalRegressor.fit", "C17")
class Fit(Contract):
    variants = [False, True]

    def setup(self, E, has_w):
        n, d = E.size("n", 1), E.size("d", 1)
        return dict(self=_self(E), X=E.nd("X", (n, d)), y=E.nd("y", (n,)),
                    sample_weight=E.nd("w", (n,)) if has_w else None)

    def requires(self, E, a):
        return {"alpha>0": z(a.self.fields["alpha"]) > 0}

    def ensures(self, E, a, res, old):
        from pyvc.engine import SymSeq
        s = a.self
        out = {"returns_self": z3.BoolVal(res is s)}
        ests = s.fields.get("estimators_")
        ok = isinstance(ests, SymSeq)
        out["estimators_is_a_sequence"] = z3.BoolVal(ok)
        if not ok:
            return out
        out["n_estimators_models"] = z(ests.length) == z(s.fields["n_estimators"])
        k = E.int("k")
        E.assume(z3.And(k >= 0, k < z(ests.length)))
        e = ests.item(k)
        okk = isinstance(e, Obj) and e.tag == "estimator" and e.fields.get("$rnd") is not None
        out["each_model_is_a_fitted_clone"] = z3.BoolVal(okk and e.fields.get("$clone_of") is s.fields["estimator"])
        if okk:
            n = z(a.X.shape[0])
            rnd, fX, fy, fw = e.fields["$rnd"], e.fields["$fit_X"], e.fields["$fit_y"], e.fields["$fit_w"]
            m = z(rnd.shape[0])
            out["each_model_trained_on_resample_of_all_rows"] = z3.And(
                m == _new_size(n, z(s.fields["alpha"])),
                E.forall_range([(0, m), (0, z(a.X.shape[1]))], lambda r, c: fX.get(r, c) == a.X.get(rnd.get(r), c)),
                E.forall_range([(0, m)], lambda r: fy.get(r) == a.y.get(rnd.get(r))),
                z3.BoolVal(fw is None) if a.sample_weight is None else
                E.forall_range([(0, m)], lambda r: fw.get(r) == a.sample_weight.get(rnd.get(r))))
        out["base_estimator_not_fitted"] = z3.BoolVal(not any(ev == ("call", "fit") for ev in s.fields["estimator"].events))
        return out


def _fitted_self(E):
    """a fitted IntervalRegressor: estimators_ is a list of any length of fitted regressors"""
    from pyvc.engine import SymSeq
    s = _self(E)
    m = E.size("m", 0)
    stF = z3.Function(models.fresh_name("member_state"), z3.IntSort(), models.Est)

    def member(k):
        o = models.new_estimator(E, "member", methods=("fit", "predict"), fitted=True)
        o.fields["$state"] = stF(k)
        return o
    s.fields["estimators_"] = SymSeq(m, member, "estimators_")
    s.fields["$stF"] = stF
    return s


def _pred(E, s, X, k, r):
    return models.predF(s.fields["$stF"](k), models.row_of(E, X, r))


@contract(F + "::IntervalRegressor.predict_all", "C17")
@query_frame("self")
class PredictAll(Contract):
    variants = ["float64", "int64", "float32"]      # the dtype of the query batch must not change what is stored

    def setup(self, E, v):
        n, d = E.size("n", 0), E.size("d", 1)
        X = E.nd("X", (n, d), "int" if v == "int64" else "real")
        if v == "float32":
            X.cell.dtype_name = "float32"
        return dict(self=_fitted_self(E), X=X)

    def old(self, E, a):
        return dict(X=a.X.snapshot())

    def result(self, E, a, old):
        return NdArr.fresh("container", (a.X.shape[0], a.self.fields["estimators_"].length), "real")

    def ensures(self, E, a, res, old):
        s = a.self
        m = z(s.fields["estimators_"].length)
        ok = isinstance(res, NdArr) and res.ndim == 2
        out = {"matrix": z3.BoolVal(ok)}
        if ok:
            out["shape"] = z3.And(z(res.shape[0]) == z(a.X.shape[0]), z(res.shape[1]) == m)
            out["column_i_is_prediction_of_model_i"] = E.forall_range(
                [(0, z(a.X.shape[0])), (0, m)], lambda r, i: res.get(r, i) == _pred(E, s, old["X"], i, r))
        return out

    loops = {0: lambda E, L: {"done": E.forall_range(
        [(0, z(L["X"].shape[0])), (0, L.k)],
        lambda r, i: L["container"].get(r, i) == _pred(E, L["self"], L["X"], i, r))}}
    canaries = {"shifted_column": lambda E, a, res, old: E.forall_range(
        [(0, z(a.X.shape[0])), (0, z(a.self.fields["estimators_"].length) - 1)],
        lambda r, i: res.get(r, i) == _pred(E, a.self, old["X"], i + 1, r))}


@contract(F + "::IntervalRegressor.predict", "C17")
@query_frame("self")
class Predict(Contract):
    """predict is the mean of the individual predictions: (1/m) * sum_i predict_i(x); hence it lies between any bounds of them"""

    def setup(self, E, v):
        n, d = E.size("n", 0), E.size("d", 1)
        return dict(self=_fitted_self(E), X=E.nd("X", (n, d)))

    def requires(self, E, a):
        return {"at_least_one_model": z(a.self.fields["estimators_"].length) >= 1}

    def old(self, E, a):
        return dict(X=a.X.snapshot(), ns=len(E.ps.get("row_sums", [])))

    def ensures(self, E, a, res, old, wrong=False):
        s = a.self
        m = z(s.fields["estimators_"].length)
        ok = isinstance(res, NdArr) and res.ndim == 1
        out = {"vector": z3.BoolVal(ok)}
        sums = E.ps.get("row_sums", [])[old["ns"]:]
        out["one_row_wise_mean"] = z3.BoolVal(len(sums) == 1)
        if not ok or len(sums) != 1:
            return out
        f, fs, mm = sums[0]
        n = z(a.X.shape[0])
        X = old["X"]
        out["one_value_per_row"] = z(res.shape[0]) == n
        # the summed matrix is the matrix of individual predictions (postcondition of predict_all) ...
        out["mean_is_taken_over_the_individual_predictions_of_the_row"] = z3.And(mm == m, E.forall_range(
            [(0, n), (0, m)], lambda r, i: fs.get(r, i) == _pred(E, s, X, i, r)))
        # ... predict[r] is RowSum(r) / m, RowSum(r) := sum_i fs[r, i] (ghost definition; lemma instance below)
        out["predict_is_the_row_sum_divided_by_the_number_of_models"] = E.forall_range([(0, n)], lambda r: res.get(r) == f(r) / z3.ToReal(m) + (1 if wrong else 0))
        lo, hi, r, i = z3.Real("lo!b"), z3.Real("hi!b"), z3.Int("r!b"), z3.Int("i!b")      # arbitrary bounds and row: free constants
        # lemma row_mean_bounds (Pyvc.mean_bounds in lemmas/Counting.lean), instance for these bounds and this row:
        # a mean lies between any bounds of its terms
        E.axiom(z3.Implies(z3.And(mm >= 1, z3.ForAll([i], z3.Implies(z3.And(i >= 0, i < mm), z3.And(lo <= fs.get(r, i), fs.get(r, i) <= hi)))),
                           z3.And(lo <= f(r) / z3.ToReal(mm), f(r) / z3.ToReal(mm) <= hi)))
        E.used_lemmas.add("row_mean_bounds")
        out["predict_lies_between_any_bounds_of_the_individual_predictions"] = z3.Implies(
            z3.And(r >= 0, r < n, z3.ForAll([i], z3.Implies(z3.And(i >= 0, i < m), z3.And(lo <= _pred(E, s, X, i, r), _pred(E, s, X, i, r) <= hi)))),
            z3.And(lo <= res.get(r), res.get(r) <= hi))
        return out

    canaries = {"mean_plus_one": lambda E, a, res, old: Predict().ensures(E, a, res, old, wrong=True).get(
        "predict_is_the_row_sum_divided_by_the_number_of_models", z3.BoolVal(True))}


@contract(F + "::IntervalRegressor.predict_sorted", "C17")
@query_frame("self")
class PredictSorted(Contract):
    def setup(self, E, v):
        n, d = E.size("n", 0), E.size("d", 1)
        return dict(self=_fitted_self(E), X=E.nd("X", (n, d)))

    def old(self, E, a):
        return dict(X=a.X.snapshot())

    def ensures(self, E, a, res, old):
        s = a.self
        m = z(s.fields["estimators_"].length)
        n = z(a.X.shape[0])
        ok = isinstance(res, NdArr) and res.ndim == 2
        out = {"matrix": z3.BoolVal(ok)}
        if not ok:
            return out
        out["shape"] = z3.And(z(res.shape[0]) == n, z(res.shape[1]) == m)
        out["rows_non_decreasing"] = E.forall_range(
            [(0, n), (0, m), (0, m)], lambda r, i, j: z3.Implies(i <= j, res.get(r, i) <= res.get(r, j)))
        # each row is a permutation of the individual predictions: stated through ghost permutation
        # functions per row (witnessed by the sort contract)
        pi = z3.Function(models.fresh_name("pi"), z3.IntSort(), z3.IntSort(), z3.IntSort())
        out["each_value_is_an_individual_prediction"] = E.forall_range(
            [(0, n), (0, m)], lambda r, i: z3.Exists([q := z3.Int(models.fresh_name("q"))], z3.And(
                q >= 0, q < m, res.get(r, i) == _pred(E, s, old["X"], q, r))))
        out["each_individual_prediction_appears"] = E.forall_range(
            [(0, n), (0, m)], lambda r, q: z3.Exists([i := z3.Int(models.fresh_name("i"))], z3.And(
                i >= 0, i < m, res.get(r, i) == _pred(E, s, old["X"], q, r))))
        return out

    @staticmethod
    def _inv(E, L):
        s, X, preds = L["self"], L["X"], L["preds"]
        m = z(s.fields["estimators_"].length)
        n = z(X.shape[0])
        return {
            "untouched_rows_are_raw": E.forall_range([(L.k, n), (0, m)], lambda r, i: preds.get(r, i) == _pred(E, s, X, i, r)),
            "done_rows_sorted": E.forall_range([(0, L.k), (0, m), (0, m)], lambda r, i, j: z3.Implies(
                i <= j, preds.get(r, i) <= preds.get(r, j))),
            "done_rows_values": E.forall_range([(0, L.k), (0, m)], lambda r, i: z3.Exists(
                [q := z3.Int(models.fresh_name("q"))], z3.And(q >= 0, q < m, preds.get(r, i) == _pred(E, s, X, q, r)))),
            "done_rows_cover": E.forall_range([(0, L.k), (0, m)], lambda r, q: z3.Exists(
                [i := z3.Int(models.fresh_name("i"))], z3.And(i >= 0, i < m, preds.get(r, i) == _pred(E, s, X, q, r)))),
        }
    loops = {0: _inv.__func__}
    canaries = {"rows_strictly_increasing": lambda E, a, res, old: E.forall_range(
        [(0, z(a.X.shape[0])), (0, z(a.self.fields["estimators_"].length)), (0, z(a.self.fields["estimators_"].length))],
        lambda r, i, j: z3.Implies(i < j, res.get(r, i) < res.get(r, j)))}


META = dict(
    lean_files=["lemmas/Counting.lean"], level="proof", assumptions=["A1", "A2", "A6", "A7", "A8", "A9"],
    trusted=["numpy.random.randint(low, high, size): values uniform in [low, high), ValueError if high <= low",
             "estimator protocol: fit returns the receiver; predict is a deterministic function of (fitted state, row)",
             "numpy.sort returns a non-decreasing permutation of its argument; sklearn.base.clone returns a fresh unfitted copy"],
    not_applicable=["predict: proved to be RowSum(r) / m over the matrix of individual predictions and to lie between any bounds of them (min <= predict <= "
                    "max), through the ghost row sum and the lemma row_mean_bounds (Lean-checked); that numpy's mean(axis=1) IS that row sum divided by "
                    "the number of columns is the assumed model (floating point summation order is outside A1)"],
)
