"""clone_with_fitted_parameters under contract (shared by C04 and C15): structural recursion, every parameter and every fitted /
private attribute is deep-copied (no array cell is shared with the original), nested estimators are cloned recursively."""
import z3
from pyvc.api import Contract
from pyvc.values import Obj, NdArr, z
from pyvc import models

MM = "mlinsights/mlmodel/"


def _fitted_estimator(E, name, nested=True):
    o = models.new_estimator(E, name, "Generic", ("fit", "predict", "get_params", "set_params"), fitted=True)
    n = E.size(name + "_p", 1)
    o.fields["alpha"] = E.real(name + "_alpha")
    o.fields["coef_"] = E.nd(name + "_coef", (n,))
    o.fields["_cache"] = [E.nd(name + "_cache0", (n,)), 7]
    o.fields["$param_fields"] = ["alpha"]
    if nested:
        inner = _fitted_estimator(E, name + "_inner", nested=False)
        o.fields["base"] = inner                        # a constructor parameter that is an estimator
        o.fields["$param_fields"].append("base")
        o.fields["fitted_"] = _fitted_estimator(E, name + "_fitted", nested=False)     # a fitted attribute that is an estimator
    return o


def _same_content(E, a, b):
    if isinstance(a, NdArr) and isinstance(b, NdArr):
        n = z(a.shape[0])
        return z3.And(z3.BoolVal(a is not b and a.cell is not b.cell), z(b.shape[0]) == n, E.forall_range([(0, n)], lambda i: a.get(i) == b.get(i)))
    if isinstance(a, list) and isinstance(b, list):
        return z3.And(z3.BoolVal(a is not b and len(a) == len(b)), *[_same_content(E, x, y) for x, y in zip(a, b)])
    if isinstance(a, Obj) and isinstance(b, Obj):
        return _clone_ok(E, a, b)
    return z3.BoolVal(a is b or a == b) if not z3.is_expr(a) else a == b


def _clone_ok(E, est, res):
    conj = [z3.BoolVal(isinstance(res, Obj) and res is not est and res.fields.get("$class") == est.fields.get("$class"))]
    if not (isinstance(res, Obj) and res is not est):
        return z3.And(*conj)
    for k, v in est.fields.items():
        if k.startswith("$"):
            continue
        if k not in res.fields:
            conj.append(z3.BoolVal(False))
            continue
        conj.append(_same_content(E, v, res.fields[k]))
    return z3.And(*conj)


class CloneFittedBase(Contract):
    variants = ["estimator", "list", "dict"]
    max_paths = 20000

    def setup(self, E, v):
        e = _fitted_estimator(E, "est")
        est = e if v == "estimator" else ([e, _fitted_estimator(E, "second", nested=False)] if v == "list" else {"a": e})
        return dict(est=est, _v=v, _e=e)

    def old(self, E, a):
        e = a._e
        return dict(ev=len(e.events), w=[e.fields["coef_"].cell.writes, e.fields["_cache"][0].cell.writes], fields=dict(e.fields))

    def ensures(self, E, a, res, old):
        e = a._e
        if a._v == "estimator":
            got = res
        elif a._v == "list":
            got = res[0] if isinstance(res, list) and len(res) == 2 else None
        else:
            got = res.get("a") if isinstance(res, dict) else None
        out = {"every_parameter_and_fitted_or_private_attribute_is_deep_copied": _clone_ok(E, e, got) if got is not None else z3.BoolVal(False)}
        out["argument_untouched"] = z3.BoolVal(len(e.events) == old["ev"] and e.fields["coef_"].cell.writes == old["w"][0]
                                              and e.fields["_cache"][0].cell.writes == old["w"][1]
                                              and all(e.fields.get(k) is v for k, v in old["fields"].items()))
        return out


