"""C13 - target transformations are undone exactly by their reciprocal."""
import itertools
import z3
from pyvc.api import Contract, contract
from contracts._frames import query_frame
from pyvc.values import Obj, NdArr, z
from pyvc import models
from pyvc.engine import Closure, LambdaFn, ExternFn

F = "mlinsights/mlmodel/sklearn_transform_inv_fct.py"
T = "mlinsights/mlmodel/target_predictors.py"
NAMES = ["log", "exp", "log(1+x)", "log1p", "exp(x)-1", "expm1"]


def domain(name, y):
    if name == "log":
        return y > 0
    if name in ("log(1+x)", "log1p"):
        return y > -1
    return z3.BoolVal(True)


@contract(F + "::FunctionReciprocalTransformer.available_fcts", "C13")
class Table(Contract):
    """every predefined name is paired with the name of its inverse function"""

    def setup(self, E, v):
        return {}

    def ensures(self, E, a, res, old, wrong=False):
        out = {"is_a_table_of_the_six_names": z3.BoolVal(isinstance(res, dict) and sorted(res) == sorted(NAMES))}
        if not (isinstance(res, dict) and sorted(res) == sorted(NAMES)):
            return out
        y = E.real("y")
        for name in NAMES:
            f, inv = res[name]
            ok = isinstance(inv, str) and inv in res
            out["inverse_of_%s_is_a_table_entry" % name] = z3.BoolVal(ok)
            if ok:
                g = res[inv][0] if not wrong else res[name][0]
                fy = E.call(f, [y], {})
                out["%s_is_undone_by_%s" % (name, "its_reciprocal")] = z3.Implies(domain(name, y), E.call(g, [fy], {}) == y)
        return out

    canaries = {"function_is_its_own_inverse": lambda E, a, res, old: Table().ensures(E, a, res, old, wrong=True).get(
        "exp_is_undone_by_its_reciprocal", z3.BoolVal(True))}


def _frt(E, name, fitted):
    o = E.new_obj(F + "::FunctionReciprocalTransformer", dict(fct=name, fct_inv=None))
    if fitted:
        table = E.call(E.getattr(o.cls, "available_fcts"), [], {})
        o.fields["fct_"], o.fields["fct_inv_"] = table[name]
    return o


@contract(F + "::FunctionReciprocalTransformer.fit", "C13")
class FrtFit(Contract):
    variants = NAMES

    def setup(self, E, name):
        return dict(self=_frt(E, name, False))

    def ensures(self, E, a, res, old):
        s = a.self
        table = E.call(E.getattr(s.cls, "available_fcts"), [], {})
        y = E.real("y")
        f = s.fields.get("fct_")
        return {"returns_self": z3.BoolVal(res is s),
                "fct_inv_is_the_table_entry": z3.BoolVal(s.fields.get("fct_inv_") == table[s.fields["fct"]][1]),
                "fct_is_the_named_function": z3.BoolVal(f is not None) if f is None else
                E.call(f, [y], {}) == E.call(table[s.fields["fct"]][0], [y], {})}


@contract(F + "::FunctionReciprocalTransformer.get_fct_inv", "C13")
@query_frame("self")
class FrtInv(Contract):
    variants = NAMES

    def setup(self, E, name):
        return dict(self=_frt(E, name, True))

    def ensures(self, E, a, res, old):
        s = a.self
        y = E.real("y")
        ok = isinstance(res, Obj) and res is not s and "fct_" in res.fields
        out = {"returns_a_fitted_transformer": z3.BoolVal(ok)}
        if ok:
            fy = E.call(s.fields["fct_"], [y], {})
            out["reciprocal_undoes_the_transform"] = z3.Implies(domain(s.fields["fct"], y), E.call(res.fields["fct_"], [fy], {}) == y)
        return out


@contract(F + "::FunctionReciprocalTransformer.transform", "C13")
@query_frame("self")
class FrtTransform(Contract):
    variants = [(n, hy) for n in NAMES for hy in (True, False)]

    def setup(self, E, v):
        name, has_y = v
        n = E.size("n", 0)
        return dict(self=_frt(E, name, True), X=E.nd("X", (n, E.size("d", 1))), y=E.nd("y", (n,)) if has_y else None)

    def old(self, E, a):
        return dict(y=a.y.snapshot() if a.y is not None else None, w=a.X.cell.writes)

    def ensures(self, E, a, res, old):
        ok = isinstance(res, tuple) and len(res) == 2
        out = {"returns_pair": z3.BoolVal(ok)}
        if not ok:
            return out
        X2, y2 = res
        out["features_untouched"] = z3.BoolVal(X2 is a.X and a.X.cell.writes == old["w"])
        if a.y is None:
            out["none_stays_none"] = z3.BoolVal(y2 is None)
        else:
            okk = isinstance(y2, NdArr) and y2.ndim == 1
            out["target_array"] = z3.BoolVal(okk)
            if okk:
                n = z(a.y.shape[0])
                out["target_is_fct_of_y"] = z3.And(z(y2.shape[0]) == n, E.forall_range(
                    [(0, n)], lambda r: y2.get(r) == E.call(a.self.fields["fct_"], [old["y"].get(r)], {})))
        return out


# ----------------------------------------------------------------------------- regressor on a transformed target
def _ttr(E, name, fitted, has_reg=True):
    reg = models.new_estimator(E, "reg", "Regressor", ("fit", "predict", "get_params", "set_params")) if has_reg else None
    o = E.new_obj(T + "::TransformedTargetRegressor2", dict(regressor=reg, transformer=name))
    if fitted:
        o.fields["transformer_"] = _frt(E, name, True)
        o.fields["regressor_"] = models.new_estimator(E, "reg_fitted", "Regressor", ("fit", "predict"), fitted=True)
    return o


def _user_transformer(E):
    """a reciprocal transformer object supplied by the caller (any subclass of BaseReciprocalTransformer)"""
    t = models.new_estimator(E, "user_tr", "UserReciprocalTransformer", ("fit", "transform", "get_fct_inv", "get_params", "set_params"),
                             bases=("BaseEstimator", "TransformerMixin", "BaseReciprocalTransformer"))
    t.fields["$reciprocal"] = True
    return t


@contract(T + "::_common_get_transform", "C13")
class GetTransform(Contract):
    """the transformer a model fits and keeps as transformer_ is its OWN: built from the name, or a fresh clone of the caller's
    object - never the caller's object itself (whose later fit elsewhere would silently change what this model predicts)"""
    variants = [("name", "log", True), ("name", "exp(x)-1", True), ("name", "permute", False), ("name", "permute", True),
                ("object", None, False), ("object", None, True), ("other", None, True)]

    def setup(self, E, v):
        kind, name, reg = v
        t = name if kind == "name" else (_user_transformer(E) if kind == "object" else E.int("not_a_transformer"))
        return dict(transformer=t, is_regression=reg, _kind=kind)

    def old(self, E, a):
        return dict(tl=len(E.trace))

    def signals(self, E, a, exc, old):
        if a._kind == "other":
            return {"anything_else_is_refused_with_TypeError": z3.BoolVal(exc == "TypeError")}
        return None

    def ensures(self, E, a, res, old):
        if a._kind == "other":
            return {"must_be_refused": z3.BoolVal(False)}
        if a._kind == "object":
            return {"a_fresh_clone_never_the_callers_object": z3.BoolVal(
                isinstance(res, Obj) and res is not a.transformer and res.fields.get("$clone_of") is a.transformer)}
        ok = isinstance(res, Obj) and res is not a.transformer
        if a.transformer == "permute":
            return {"a_new_permutation_transformer": z3.BoolVal(ok and res.tag == "PermutationReciprocalTransformer"),
                    "closest_only_for_regression": z3.BoolVal(ok and res.fields.get("closest") is a.is_regression),
                    "not_fitted_yet": z3.BoolVal(ok and "permutation_" not in res.fields)}
        return {"a_new_function_transformer_of_that_name": z3.BoolVal(
            ok and res.tag == "FunctionReciprocalTransformer" and res.fields.get("fct") == a.transformer),
            "not_fitted_yet": z3.BoolVal(ok and "fct_" not in res.fields)}

    canaries = {"returns_the_callers_object": lambda E, a, res, old: z3.BoolVal(a._kind != "object" or res is a.transformer)}


@contract(T + "::TransformedTargetRegressor2.fit", "C13")
class TtrFit(Contract):
    variants = [(n, hw) for n in ("log", "exp(x)-1") for hw in (False, True)]

    def setup(self, E, v):
        name, has_w = v
        n = E.size("n", 1)
        return dict(self=_ttr(E, name, False), X=E.nd("X", (n, E.size("d", 1))), y=E.nd("y", (n,)),
                    sample_weight=E.nd("w", (n,)) if has_w else None)

    def old(self, E, a):
        return dict(tl=len(E.trace), y=a.y.snapshot())

    def ensures(self, E, a, res, old):
        s = a.self
        fits = [t for t in E.trace[old["tl"]:] if t["op"] == "fit"]
        out = {"returns_self": z3.BoolVal(res is s),
               "one_fit_of_a_clone": z3.BoolVal(len(fits) == 1 and fits[0]["obj"].fields.get("$clone_of") is s.fields["regressor"]
                                               and s.fields.get("regressor_") is fits[0]["obj"])}
        if len(fits) == 1:
            t = fits[0]
            table = E.call(E.getattr(s.fields["transformer_"].cls, "available_fcts"), [], {})
            f = table[s.fields["transformer"]][0]
            n = z(a.y.shape[0])
            yt = t["y"]
            out["trained_on_features_and_transformed_target"] = z3.And(
                z3.BoolVal(t["X"] is a.X and isinstance(yt, NdArr)), z(yt.shape[0]) == n,
                E.forall_range([(0, n)], lambda r: yt.get(r) == E.call(f, [old["y"].get(r)], {})))
            out["weights_passed_on"] = z3.BoolVal(t["w"] is a.sample_weight)
        return out


@contract(T + "::TransformedTargetClassifier2.fit", "C13")
class TtcFit(Contract):
    """with ANY reciprocal transformer (an opaque object obeying the protocol) and with or without sample weights: the transformer kept is
    a fitted clone of the caller's, the classifier kept is a clone of the caller's trained ONCE on the features and the TRANSFORMED
    labels, with the weights when given"""
    variants = [False, True]

    def setup(self, E, has_w):
        n = E.size("n", 1)
        clf = models.new_estimator(E, "clf", "Classifier", ("fit", "predict", "predict_proba", "decision_function", "get_params", "set_params"))
        o = E.new_obj(T + "::TransformedTargetClassifier2", dict(classifier=clf, transformer=_user_transformer(E)))
        return dict(self=o, X=E.nd("X", (n, E.size("d", 1))), y=E.nd("y", (n,), "int"), sample_weight=E.nd("w", (n,)) if has_w else None)

    def old(self, E, a):
        return dict(tl=len(E.trace), wy=a.y.cell.writes, wX=a.X.cell.writes)

    def ensures(self, E, a, res, old, untransformed=False):
        s = a.self
        tr_, clf_ = s.fields.get("transformer_"), s.fields.get("classifier_")
        ev = E.trace[old["tl"]:]
        out = {"returns_self": z3.BoolVal(res is s),
               "keeps_a_fitted_clone_of_the_transformer": z3.BoolVal(
                   isinstance(tr_, Obj) and tr_.fields.get("$clone_of") is s.fields["transformer"]
                   and [t for t in ev if t["op"] == "fit" and t["obj"] is tr_ and t["y"] is a.y and t["w"] is a.sample_weight] != [])}
        rts = [t for t in ev if t["op"] == "rtransform" and t["obj"] is tr_ and t["y"] is a.y]
        fits = [t for t in ev if t["op"] == "fit" and t["obj"] is clf_]
        ok = isinstance(clf_, Obj) and clf_.fields.get("$clone_of") is s.fields["classifier"] and len(fits) == 1 and len(rts) == 1
        out["one_fit_of_a_clone_of_the_classifier"] = z3.BoolVal(ok)
        if ok:
            want_y = a.y if untransformed else rts[0]["result"]
            out["trained_on_the_features_and_the_transformed_labels"] = z3.BoolVal(fits[0]["X"] is rts[0]["X"] and rts[0]["X"] is a.X and fits[0]["y"] is want_y)
            out["weights_passed_on_when_given"] = z3.BoolVal(fits[0]["w"] is a.sample_weight)
        out["features_and_labels_not_written"] = z3.BoolVal(a.X.cell.writes == old["wX"] and a.y.cell.writes == old["wy"])
        return out

    canaries = {"trained_on_the_untransformed_labels": lambda E, a, res, old: TtcFit().ensures(E, a, res, old, untransformed=True).get(
        "trained_on_the_features_and_the_transformed_labels", z3.BoolVal(True))}


@contract(T + "::TransformedTargetClassifier2._apply", "C13")
@query_frame("self")
class TtcApply(Contract):
    """predict / predict_proba / decision_function with ANY reciprocal transformer: the output of the fitted classifier on the given rows,
    taken back to the original labels by the INVERSE of the fitted transformer (asked from it at that moment)"""
    variants = ["predict", "predict_proba", "decision_function"]

    def setup(self, E, method):
        clf = models.new_estimator(E, "clf_fitted", "Classifier", ("fit", "predict", "predict_proba", "decision_function"), fitted=True)
        tr = _user_transformer(E)
        tr.fields["$fitted"] = True
        o = E.new_obj(T + "::TransformedTargetClassifier2", dict(classifier=None, transformer=None, classifier_=clf, transformer_=tr))
        return dict(self=o, X=E.nd("X", (E.size("n", 0), E.size("d", 1))), method=method)

    def old(self, E, a):
        return dict(tl=len(E.trace))

    def ensures(self, E, a, res, old):
        s = a.self
        ev = E.trace[old["tl"]:]
        tr_, clf_ = s.fields["transformer_"], s.fields["classifier_"]
        calls = [t for t in ev if t["op"] == a.method and t["obj"] is clf_]
        invs = [t for t in ev if t["op"] == "get_fct_inv" and t["obj"] is tr_]
        ok = len(calls) == 1 and calls[0]["X"] is a.X and len(invs) == 1
        out = {"one_call_of_the_method_on_the_given_rows_and_one_inverse_asked_from_the_fitted_transformer": z3.BoolVal(ok)}
        if ok:
            back = [t for t in ev if t["op"] == "rtransform" and t["obj"] is invs[0]["result"]]
            out["result_is_the_classifiers_output_taken_back_by_the_inverse_transformer"] = z3.BoolVal(
                len(back) == 1 and back[0]["y"] is calls[0]["result"] and res is back[0]["result"])
        return out


@contract(T + "::TransformedTargetRegressor2.predict", "C13")
@query_frame("self")
class TtrPredict(Contract):
    variants = NAMES

    def setup(self, E, name):
        return dict(self=_ttr(E, name, True), X=E.nd("X", (E.size("n", 0), E.size("d", 1))))

    def old(self, E, a):
        return dict(tl=len(E.trace))

    def ensures(self, E, a, res, old):
        s = a.self
        preds = [t for t in E.trace[old["tl"]:] if t["op"] == "predict"]
        out = {"one_prediction_of_the_inner_regressor_on_X": z3.BoolVal(
            len(preds) == 1 and preds[0]["obj"] is s.fields["regressor_"] and preds[0]["X"] is a.X)}
        ok = isinstance(res, NdArr) and res.ndim == 1
        out["vector"] = z3.BoolVal(ok)
        if ok and len(preds) == 1:
            st = preds[0]["state"]
            n = z(a.X.shape[0])
            table = E.call(E.getattr(s.fields["transformer_"].cls, "available_fcts"), [], {})
            name = s.fields["transformer"]
            ginv = table[table[name][1]][0]
            f = table[name][0]
            p = lambda r: models.predF(st, models.row_of(E, a.X, r))
            out["prediction_is_inverse_function_of_inner_prediction"] = z3.And(z(res.shape[0]) == n, E.forall_range(
                [(0, n)], lambda r: res.get(r) == E.call(ginv, [p(r)], {})))
            # and that function really is the inverse on the transformed scale: f(g(t)) = t where g is defined
            out["transform_of_prediction_is_inner_prediction"] = E.forall_range(
                [(0, n)], lambda r: z3.Implies(domain(table[name][1], p(r)), E.call(f, [res.get(r)], {}) == p(r)))
        return out


# ----------------------------------------------------------------------------- permutations (bounded in the number of labels)
def _labels(E, m):
    ls = [E.int("label%d" % i) for i in range(m)]
    if m > 1:
        E.assume(z3.Distinct(*ls))
    return ls


def _perm_transformer(E, labels, perm, inverse=False):
    o = E.new_obj(F + "::PermutationReciprocalTransformer", dict(random_state=None, closest=False))
    d = {}
    for l, p in zip(labels, perm):
        if inverse:
            E.setitem(d, p, l)
        else:
            E.setitem(d, l, p)
    o.fields["permutation_"] = d
    return o


PERMS = [p for m in (2, 3) for p in itertools.permutations(range(m))]


@contract(F + "::PermutationReciprocalTransformer.get_fct_inv", "C13")
@query_frame("self")
class PermInv(Contract):
    variants = PERMS
    max_paths = 20000

    def setup(self, E, perm):
        labels = _labels(E, len(perm))
        return dict(self=_perm_transformer(E, labels, perm), _labels=labels, _perm=perm)

    def ensures(self, E, a, res, old):
        ok = isinstance(res, Obj) and isinstance(res.fields.get("permutation_"), dict)
        out = {"returns_a_fitted_transformer": z3.BoolVal(ok)}
        if ok:
            d = res.fields["permutation_"]
            out["is_the_inverse_permutation"] = z3.And(z3.BoolVal(len(d) == len(a._perm)), *[
                z(E.getitem(d, p)) == l for l, p in zip(a._labels, a._perm)])
        return out


@contract(F + "::PermutationReciprocalTransformer.transform", "C13")
@query_frame("self")
class PermTransform(Contract):
    """label branch (1-d integer targets of length 2) and probability-column branch"""
    variants = [(p, kind) for p in PERMS for kind in ("labels", "columns")]
    max_paths = 20000

    def setup(self, E, v):
        perm, kind = v
        m = len(perm)
        labels = _labels(E, m)
        if kind == "labels":
            # the forward transformer applied to two arbitrary known labels
            y = NdArr.fresh("y", (2,), "int")
            i0, i1 = E.int("i0"), E.int("i1")
            for iv in (i0, i1):
                E.assume(z3.And(iv >= 0, iv < m))
            def lab(iv):
                t = z(labels[-1])
                for k in range(m - 2, -1, -1):
                    t = z3.If(iv == k, labels[k], t)
                return t
            y.set((0,), lab(i0))
            y.set((1,), lab(i1))
            y.cell.writes = 0
            return dict(self=_perm_transformer(E, labels, perm), X=E.nd("X", (2, 1)), y=y, _labels=labels, _perm=perm,
                        _idx=(i0, i1), _kind=kind)
        # the inverse transformer applied to a matrix of probabilities (one column per permuted class)
        n = E.size("n", 0)
        return dict(self=_perm_transformer(E, labels, perm, inverse=True), X=E.nd("X", (n, 1)), y=E.nd("proba", (n, m)),
                    _labels=labels, _perm=perm, _kind=kind)

    def old(self, E, a):
        return dict(y=a.y.snapshot(), w=a.y.cell.writes, xw=a.X.cell.writes)

    def ensures(self, E, a, res, old, gather=False):
        ok = isinstance(res, tuple) and len(res) == 2 and isinstance(res[1], NdArr)
        out = {"returns_pair": z3.BoolVal(ok)}
        if not ok:
            return out
        X2, y2 = res
        m = len(a._perm)
        out["features_and_input_untouched"] = z3.BoolVal(X2 is a.X and a.X.cell.writes == old["xw"] and a.y.cell.writes == old["w"])
        if a._kind == "labels":
            def pv(iv):
                t = z3.IntVal(a._perm[-1])
                for k in range(m - 2, -1, -1):
                    t = z3.If(iv == k, z3.IntVal(a._perm[k]), t)
                return t
            out["each_label_replaced_by_its_image"] = z3.And(z3.BoolVal(y2.ndim == 1), z(y2.shape[0]) == 2,
                                                             y2.get(0) == pv(a._idx[0]), y2.get(1) == pv(a._idx[1]))
        else:
            n = z(a.y.shape[0])
            # column of permuted class c holds the probability of label labels[perm^-1(c)]; the output column of a
            # label is its rank among the sorted original labels
            conj = [z3.BoolVal(y2.ndim == 2), z(y2.shape[0]) == n, z(y2.shape[1]) == m]
            for li, (l, c) in enumerate(zip(a._labels, a._perm)):
                rank = z3.Sum(*[z3.If(o < l, 1, 0) for o in a._labels if o is not l]) if m > 1 else z3.IntVal(0)
                if gather:
                    conj.append(E.forall_range([(0, n)], lambda r: z3.And(*[z3.Implies(rank == j, y2.get(r, c) == old["y"].get(r, j)) for j in range(m)])))
                else:
                    conj.append(E.forall_range([(0, n)], lambda r: z3.And(*[z3.Implies(rank == j, y2.get(r, j) == old["y"].get(r, c)) for j in range(m)])))
            out["column_of_each_label_moves_to_its_rank_among_sorted_labels"] = z3.And(*conj)
        return out

    canaries = {"gather_instead_of_scatter": lambda E, a, res, old: PermTransform().ensures(E, a, res, old, gather=True).get(
        "column_of_each_label_moves_to_its_rank_among_sorted_labels", z3.BoolVal(False))}


@contract(F + "::PermutationReciprocalTransformer.fit", "C13")
class PermFit(Contract):
    """bounded in the length of y (<= 3), complete in the label values (ties included)"""
    variants = [(L, seeded, refit) for L in (1, 2, 3) for seeded in (False, True) for refit in (False, True)]
    max_paths = 20000

    def setup(self, E, v):
        L, seeded, refit = v
        o = E.new_obj(F + "::PermutationReciprocalTransformer", dict(random_state=E.int("seed") if seeded else None, closest=False))
        if refit:
            # the instance was fitted and USED before: whatever the real methods cache on it is there when fit runs again
            olds = _labels(E, 2)
            o.fields["permutation_"] = {}
            for l, p in zip(olds, (1, 0)):
                E.setitem(o.fields["permutation_"], l, p)
            E.call_method(o, "get_fct_inv", [], {}, None)
        return dict(self=o, X=None, y=E.nd("y", (L,), "int"), _L=L, _refit=refit)

    def ensures(self, E, a, res, old):
        s = a.self
        d = s.fields.get("permutation_")
        out = {"returns_self": z3.BoolVal(res is s), "permutation_is_a_dict": z3.BoolVal(isinstance(d, dict))}
        if not isinstance(d, dict):
            return out
        from pyvc import dicts
        ks = dicts.keys(d)
        m = len(ks)
        vals = [z(v) for v in d.values()]
        out["one_entry_per_distinct_label"] = z3.And(
            *([z3.Distinct(*[z(k) for k in ks])] if m > 1 else []),
            *[z3.Or(*[a.y.get(i) == z(k) for k in ks]) for i in range(a._L)])
        out["bijection_onto_0_m"] = z3.And(*[z3.And(v >= 0, v < m) for v in vals], *([z3.Distinct(*vals)] if m > 1 else []))
        # what the instance answers after this fit depends on this fit only (no state of an earlier fit / earlier use survives)
        inv = E.call_method(s, "get_fct_inv", [], {}, None)
        ok = isinstance(inv, Obj) and isinstance(inv.fields.get("permutation_"), dict)
        out["the_inverse_asked_for_after_fit_inverts_this_fit"] = z3.BoolVal(ok) if not ok else z3.And(
            z3.BoolVal(len(inv.fields["permutation_"]) == m), *[z(E.getitem(inv.fields["permutation_"], d[k0])) == z(dicts.kterm(k0)) for k0 in d.keys()])
        return out


# ----------------------------------------------------------------------------- classifier on permuted labels
@contract(T + "::TransformedTargetClassifier2.classes_", "C13")
@query_frame("self")
class Classes(Contract):
    variants = PERMS
    max_paths = 20000

    def setup(self, E, perm):
        m = len(perm)
        labels = _labels(E, m)
        clf = models.new_estimator(E, "clf", "Classifier", ("fit", "predict", "predict_proba"), fitted=True)
        cls = NdArr.from_fn("classes", (m,), "int", lambda i: i)      # sorted permuted labels 0..m-1
        clf.fields["classes_"] = cls
        o = E.new_obj(T + "::TransformedTargetClassifier2", dict(classifier=None, transformer="permute"))
        o.fields["classifier_"] = clf
        o.fields["transformer_"] = _perm_transformer(E, labels, perm)
        return dict(self=o, _labels=labels, _perm=perm)

    def ensures(self, E, a, res, old):
        m = len(a._perm)
        ok = isinstance(res, NdArr) and res.ndim == 1
        out = {"vector": z3.BoolVal(ok)}
        if ok:
            # probability column j (see PermTransform) holds the label of rank j among the sorted labels
            conj = [z(res.shape[0]) == m]
            for l in a._labels:
                rank = z3.Sum(*[z3.If(o < l, 1, 0) for o in a._labels if o is not l]) if m > 1 else z3.IntVal(0)
                conj.append(z3.And(*[z3.Implies(rank == j, res.get(j) == l) for j in range(m)]))
            out["classes_j_is_the_label_of_probability_column_j"] = z3.And(*conj)
        return out


META = dict(
    level="proof", lean_files=["lemmas/Sums.lean"], assumptions=["A1", "A2", "A5", "A6", "A7", "A9"],
    trusted=["numpy.log/exp/log1p/expm1 are element-wise ln/exp with ln(exp x)=x, exp(ln x)=x (x>0), log1p x=ln(1+x), expm1 x=exp x-1",
             "numpy.random.permutation / RandomState.permutation return a bijection of their argument",
             "estimator protocol for the wrapped regressor/classifier (clone, fit returns receiver, row-wise predict)"],
    not_applicable=["permutations are verified for every permutation of 2 and 3 labels with arbitrary (symbolic) label values and every fit input of "
                    "length <= 3: bounded in the number of labels, complete in their values; larger label sets are covered by the bounded stand-in only",
                    "agreement with the plain classifier for label-permutation-equivariant learners: property of the learner (bounded stand-in)",
                    "closest=True path (_find_closest, nearest-neighbour cache): outside the verified subset"],
)
