"""C10 - DecisionTreeLogisticRegression is a consistent tree of binary classifiers.

The two recursive node methods are verified against recursive contracts over ghost functions of the node:
  P(node, x, c)      probability column c of the classifier at which x's path below `node` ends
  onpath(node, x, j) node index j lies on x's path below `node`
both unfolded one level by their defining equation (induction on the height of the subtree)."""
import z3
from pyvc.api import Contract, contract
from contracts._frames import query_frame
from pyvc.values import Obj, NdArr, z
from pyvc import models

F = "mlinsights/mlmodel/decision_tree_logreg.py"
PF = z3.Function("P_node", z3.IntSort(), models.Row, z3.IntSort(), z3.RealSort())
OnF = z3.Function("onpath", z3.IntSort(), models.Row, z3.IntSort(), z3.BoolSort())
ESTM = ("fit", "predict", "predict_proba", "decision_function", "get_params", "set_params")


def node(E, name, with_children=(False, False), height=None):
    est = models.new_estimator(E, name + "_clf", methods=ESTM, fitted=True)
    est.fields["$width_predict_proba"] = 2
    pid = E.int(name + "_id")
    o = E.new_obj(F + "::_DecisionTreeLogisticRegressionNode",
                  dict(index=E.int(name + "_index"), estimator=est, above=None, below=None, threshold=E.real(name + "_threshold"), depth=E.int(name + "_depth")))
    o.fields["$pid"] = pid
    if with_children[0]:
        o.fields["above"] = node(E, name + "_above")
    if with_children[1]:
        o.fields["below"] = node(E, name + "_below")
    return o


def proba(n, row, c):
    return models.out2F["predict_proba"](n.fields["estimator"].fields["$state"], row, c)


def unfold_axioms(E, n):
    """defining equations of the ghost functions at this node (one level)"""
    x = z3.Const(models.fresh_name("x"), models.Row)
    c, j = z3.Int(models.fresh_name("c")), z3.Int(models.fresh_name("j"))
    pid = n.fields["$pid"]
    up = proba(n, x, 1) > z(n.fields["threshold"])
    ab, be = n.fields["above"], n.fields["below"]
    val = proba(n, x, c)
    if be is not None:
        val = z3.If(z3.Not(up), PF(be.fields["$pid"], x, c), val)
    if ab is not None:
        val = z3.If(up, PF(ab.fields["$pid"], x, c), val)
    E.axiom(z3.ForAll([x, c], PF(pid, x, c) == val, patterns=[PF(pid, x, c)]))
    on = j == z(n.fields["index"])
    if ab is not None:
        on = z3.Or(on, z3.And(up, OnF(ab.fields["$pid"], x, j)))
    if be is not None:
        on = z3.Or(on, z3.And(z3.Not(up), OnF(be.fields["$pid"], x, j)))
    E.axiom(z3.ForAll([x, j], OnF(pid, x, j) == on, patterns=[OnF(pid, x, j)]))


VARIANTS = [(a, b) for a in (False, True) for b in (False, True)]


@contract(F + "::_DecisionTreeLogisticRegressionNode.predict_proba", "C10")
@query_frame("self")
class NodeProba(Contract):
    variants = VARIANTS
    max_paths = 20000

    def setup(self, E, v):
        n = node(E, "node", v)
        unfold_axioms(E, n)
        return dict(self=n, X=E.nd("X", (E.size("n", 0), E.size("d", 1))))

    def old(self, E, a):
        return dict(X=a.X.snapshot(), w=a.X.cell.writes)

    def result(self, E, a, old):
        return NdArr.fresh("proba", (a.X.shape[0], 2), "real")

    def ensures(self, E, a, res, old, other_column=False):
        ok = isinstance(res, NdArr) and res.ndim == 2
        out = {"matrix": z3.BoolVal(ok)}
        if ok:
            n = z(a.X.shape[0])
            pid = a.self.fields["$pid"]
            out["each_row_gets_the_probabilities_of_the_classifier_ending_its_path"] = z3.And(
                z(res.shape[0]) == n, z(res.shape[1]) == 2,
                E.forall_range([(0, n), (0, 2)], lambda r, c: res.get(r, c) == PF(pid, models.row_of(E, old["X"], r), (1 - c) if other_column else c)))
            out["input_not_written"] = z3.BoolVal(a.X.cell.writes == old["w"])
        return out

    canaries = {"columns_swapped": lambda E, a, res, old: NodeProba().ensures(E, a, res, old, other_column=True).get(
        "each_row_gets_the_probabilities_of_the_classifier_ending_its_path", z3.BoolVal(True))}


def pos_of(E, indices):
    """ghost inverse of the (injective) row-index vector: matrix row -> data row; for a masked sub-vector it is derived from the
    parent's inverse and the mask's rank function"""
    reg = E.ps.setdefault("c10_pos", {})
    key = id(indices.cell)
    if key in reg:
        return reg[key]
    sel = getattr(indices.cell, "sel_of", None)
    if sel is None:
        return None
    parent, mask = sel
    ppos = pos_of(E, parent)
    if ppos is None:
        return None
    fm, n, K, rank, unrank = E.registry.mask_info(E, mask)
    reg[key] = lambda R: rank(ppos(R))
    E.ps.setdefault("c10_cov", {})[key] = lambda R: z3.And(cov_of(E, parent)(R), fm.get(ppos(R)))
    return reg[key]


def cov_of(E, indices):
    """ghost: matrix row R belongs to the index vector"""
    c = E.ps.setdefault("c10_cov", {})
    if id(indices.cell) not in c:
        pos_of(E, indices)
    return c[id(indices.cell)]


@contract(F + "::_DecisionTreeLogisticRegressionNode.decision_path", "C10")
@query_frame("self")
class NodePath(Contract):
    variants = VARIANTS
    max_paths = 20000

    def setup(self, E, v):
        nd = node(E, "node", v)
        unfold_axioms(E, nd)
        n = E.size("n", 0)
        indices = E.nd("indices", (n,), "int")
        posF = z3.Function(models.fresh_name("pos"), z3.IntSort(), z3.IntSort())
        fi = indices.snapshot()
        E.ps.setdefault("c10_pos", {})[id(indices.cell)] = lambda R: posF(R)
        E.ps.setdefault("c10_cov", {})[id(indices.cell)] = lambda R: z3.And(posF(R) >= 0, posF(R) < z(n), fi.get(posF(R)) == R)
        return dict(self=nd, X=E.nd("X", (n, E.size("d", 1))), mat=E.nd("mat", (E.size("rows", 0), E.size("n_nodes", 1)), "int"),
                    indices=indices)

    def requires(self, E, a):
        n = z(a.X.shape[0])
        i = z3.Int(models.fresh_name("i"))
        ind = a.indices
        pos = pos_of(E, ind)
        idx = a.self.fields["index"]
        if pos is None:
            return {"row_index_vector_has_a_known_inverse": z3.BoolVal(False)}
        out = {"one_distinct_matrix_row_per_data_row": z3.And(z(ind.shape[0]) == n, z3.ForAll([i], z3.Implies(
                   z3.And(i >= 0, i < n), z3.And(ind.get(i) >= 0, ind.get(i) < z(a.mat.shape[0]), pos(ind.get(i)) == i, cov_of(E, ind)(ind.get(i)))))),
               "node_index_is_a_column": z3.And(z(idx) >= 0, z(idx) < z(a.mat.shape[1]))}
        for ch in ("above", "below"):
            c = a.self.fields[ch]
            if c is not None:
                out["child_index_is_a_column_" + ch] = z3.And(z(c.fields["index"]) >= 0, z(c.fields["index"]) < z(a.mat.shape[1]))
        return out

    def old(self, E, a):
        return dict(X=a.X.snapshot(), mat=a.mat.snapshot(), ind=a.indices.snapshot(), xw=a.X.cell.writes)

    def result(self, E, a, old):
        a.mat.cell.term = z3.Const(models.fresh_name("mat"), a.mat.cell.term.sort())
        return None

    def ensures(self, E, a, res, old, off_path=False):
        n = z(a.X.shape[0])
        pid = a.self.fields["$pid"]
        m0, ind, X = old["mat"], old["ind"], old["X"]
        J, R = z3.Int(models.fresh_name("J")), z3.Int(models.fresh_name("R"))
        cols = z(a.mat.shape[1])
        pos, cov = pos_of(E, a.indices), cov_of(E, a.indices)
        on = lambda rr, jj: (z3.Not(OnF(pid, models.row_of(E, X, rr), jj)) if off_path else OnF(pid, models.row_of(E, X, rr), jj))
        return {
            "marks_exactly_the_nodes_on_each_rows_path_and_nothing_else": z3.ForAll([R, J], z3.Implies(
                z3.And(R >= 0, R < z(a.mat.shape[0]), J >= 0, J < cols),
                a.mat.get(R, J) == z3.If(z3.And(cov(R), on(pos(R), J)), 1, m0.get(R, J)))),
            "features_not_written": z3.BoolVal(a.X.cell.writes == old["xw"]),
        }

    canaries = {"marks_the_nodes_off_the_path": lambda E, a, res, old: NodePath().ensures(E, a, res, old, off_path=True)[
        "marks_exactly_the_nodes_on_each_rows_path_and_nothing_else"]}


@contract(F + "::_DecisionTreeLogisticRegressionNode.predict", "C10")
@query_frame("self")
class NodePredict(Contract):
    variants = VARIANTS

    def setup(self, E, v):
        n = node(E, "node", v)
        unfold_axioms(E, n)
        return dict(self=n, X=E.nd("X", (E.size("n", 0), E.size("d", 1))))

    def old(self, E, a):
        return dict(X=a.X.snapshot())

    def ensures(self, E, a, res, old):
        ok = isinstance(res, NdArr) and res.ndim == 1
        out = {"vector": z3.BoolVal(ok)}
        if ok:
            n = z(a.X.shape[0])
            pid = a.self.fields["$pid"]
            out["label_is_1_iff_probability_of_class_1_at_least_one_half"] = z3.And(z(res.shape[0]) == n, E.forall_range(
                [(0, n)], lambda r: res.get(r) == z3.If(PF(pid, models.row_of(E, old["X"], r), 1) >= z3.RealVal("1/2"), 1, 0)))
        return out


META = dict(
    level="proof", lean_files=["lemmas/Sums.lean"], assumptions=["A1", "A2", "A6", "A7", "A9"],
    trusted=["estimator protocol: predict_proba of a fitted binary classifier is a deterministic row-wise function with two columns",
             "boolean-mask gather/scatter lemmas (rank/unrank); ghost functions P / onpath are defined by their one-level unfolding (induction on subtree height)"],
    not_applicable=["which intercept fit_improve chooses (a search over a likelihood - only that the probabilities it returns are those of the classifier as "
                    "it is at return is proved; scipy's logistic function is assumed to map arrays element-wise), rows summing to one (property of the member classifiers): bounded stand-in.  enumerate_leaves_index "
                    "(recursive generator): proved on five tree shapes (bounded in the shape, complete in the node indices), sorted() in get_leaves_index "
                    "is the bounded stand-in's.  Proved about fit: the recursive node fit (real closure _fit_side, real recursion with a "
                    "decreases clause max_depth - depth) builds a WELL-NUMBERED subtree - every index in [index, returned value], parents before children, "
                    "all of `above` before all of `below`, depth of a child = depth + 1 <= max_depth - and _fit_parallel makes the root node 0 at depth 1 "
                    "with n_nodes_ = returned value + 1; by induction on the tree (one-level unfolding of the ghost predicate) all node indices are "
                    "distinct and below n_nodes_ and no node is deeper than max_depth.  Observation (not a violation): a side that gets no node still "
                    "consumes an index, so n_nodes_ may exceed the number of nodes",
                    "termination of the recursions is by the height of the (finite) node tree - assumed well-founded (A9)"],
)


# ----------------------------------------------------------------------------------------------------------------------
# building the tree: node indices form nested, disjoint intervals; depth never exceeds max_depth
hiF = z3.Function("last_index_of_subtree", z3.IntSort(), z3.IntSort())       # ghost: largest node index in the subtree of a node
okF = z3.Function("subtree_well_numbered", z3.IntSort(), z3.BoolSort())      # ghost: defined by one-level unfolding (fit_unfold)


def _dtlr(E):
    est = models.new_estimator(E, "estimator", methods=ESTM)
    f = dict(estimator=est, max_depth=E.size("max_depth", 1), min_samples_split=E.int("min_samples_split"), min_samples_leaf=E.int("min_samples_leaf"),
             min_weight_fraction_leaf=E.real("min_weight_fraction_leaf"), fit_improve_algo="auto", p1p2=E.real("p1p2"), gamma=E.real("gamma"), verbose=0,
             strategy="parallel")
    return E.new_obj(F + "::DecisionTreeLogisticRegression", f)


def pid_of(E, n):
    if "$pid" not in n.fields:
        n.fields["$pid"] = E.int("node_id")
    return n.fields["$pid"]


def fit_unfold(E, n, max_depth):
    """one-level definition of the ghost predicate at a node whose children are known objects (or None): the indices of the subtree
    lie in [index, hi]; `above` lies strictly after the node, `below` strictly after everything in `above`; depths grow by one and
    stay within max_depth; both children are well numbered themselves.  (By induction on the tree: all indices of a well-numbered
    tree are distinct and lie in [root index, hi(root)], all depths are <= max_depth.)"""
    pid = pid_of(E, n)
    idx, dep = z(n.fields["index"]), z(n.fields["depth"])
    ab, be = n.fields.get("above"), n.fields.get("below")
    conj = [dep <= z(max_depth), hiF(pid) >= idx]
    ub = idx
    for ch in (ab, be):
        if ch is not None:
            cp = pid_of(E, ch)
            conj += [z(ch.fields["index"]) > ub, z(ch.fields["depth"]) == dep + 1, okF(cp), hiF(cp) >= z(ch.fields["index"]), hiF(pid) >= hiF(cp)]
            ub = hiF(cp)
    return okF(pid) == z3.And(*conj)


@contract(F + "::_DecisionTreeLogisticRegressionNode.fit_improve", "C10")
class FitImprove(Contract):
    """the probabilities it returns are those of the node's classifier AS IT IS AT RETURN on the rows given (the split that follows uses
    them; prediction later asks the same classifier): n rows, two columns; when the intercept of a linear classifier is moved, the
    probabilities are computed again afterwards.  Features and labels are not written."""
    variants = [(algo, linear) for algo in ("none", "auto", "intercept_sort_always") for linear in (True, False) if not (algo == "intercept_sort_always" and not linear)]
    loop_kinds = {0: {"best": "real", "besti": "int", "beta_best": "real", "beta": "real", "like": "real", "w": "real"}}
    # the search loop only chooses a number (the new intercept): nothing about WHICH one is claimed, so no fact has to be carried through it
    loops = {0: lambda E, L: {"best_value_position_and_intercept_are_set_together": z3.BoolVal(
                                  (L["besti"] is None) == (L["best"] is None) and (L["besti"] is None) == (L["beta_best"] is None))}}
    max_paths = 20000

    def setup(self, E, v):
        algo, linear = v
        n, d = E.size("n", 1), E.size("d", 1)
        est = models.new_estimator(E, "node_clf", methods=ESTM, fitted=True,
                                   bases=("BaseEstimator", "ClassifierMixin") + (("LinearClassifierMixin",) if linear else ()))
        est.fields["$width_predict_proba"] = 2
        if linear:
            est.fields["coef_"] = E.nd("coef", (1, d))
            est.fields["intercept_"] = E.real("intercept")
        nd = E.new_obj(F + "::_DecisionTreeLogisticRegressionNode",
                       dict(index=E.int("index"), estimator=est, above=None, below=None, threshold=E.real("threshold"), depth=E.int("depth")))
        dt = _dtlr(E)
        dt.fields["fit_improve_algo"] = algo
        return dict(self=nd, dtlr=dt, total_N=E.int("total_N"), X=E.nd("X", (n, d)), y=E.nd("y", (n,), "int"), sample_weight=None)

    def requires(self, E, a):
        return {"one_label_per_row": z(a.y.shape[0]) == z(a.X.shape[0]), "total_positive": z(a.total_N) >= 1,
                "min_samples_leaf_non_negative": z(a.dtlr.fields["min_samples_leaf"]) >= 0}

    def old(self, E, a):
        return dict(tl=len(E.trace), wX=a.X.cell.writes, wy=a.y.cell.writes, callsite=a.get("_callsite"))

    def result(self, E, a, old):
        return NdArr.fresh("prob", (a.X.shape[0], 2), "real")

    def ensures(self, E, a, res, old):
        ok = isinstance(res, NdArr) and res.ndim == 2
        out = {"n_rows_two_columns": z3.BoolVal(False) if not ok else z3.And(z(res.shape[0]) == z(a.X.shape[0]), z(res.shape[1]) == 2)}
        est = a.self.fields["estimator"]
        calls = [t for t in E.trace[old["tl"]:] if t["op"] == "predict_proba" and t["obj"] is est]
        if calls:      # (at a call site the summary above is all that is assumed)
            last = calls[-1]
            out["probabilities_of_the_classifier_as_it_is_at_return_on_the_given_rows"] = z3.BoolVal(
                last["X"] is a.X and z3.eq(last["state"], est.fields["$state"]) and res is last["result"])
            out["features_and_labels_not_written"] = z3.BoolVal(a.X.cell.writes == old["wX"] and a.y.cell.writes == old["wy"])
        return out


@contract(F + "::_DecisionTreeLogisticRegressionNode.fit", "C10")
class NodeFit(Contract):
    """recursive contract (induction on max_depth - depth): the subtree built below a node is well numbered - every index lies in
    [index, returned value], parents before children, everything of `above` before everything of `below` (hence all distinct) -
    and no node is deeper than max_depth.  (A side without a node still consumes an index: the numbering may have gaps.)"""
    variants = [False, True]          # without / with sample weights
    max_paths = 20000

    def setup(self, E, has_w):
        est = models.new_estimator(E, "node_clf", methods=ESTM)
        n = E.size("n", 1)
        nd = E.new_obj(F + "::_DecisionTreeLogisticRegressionNode",
                       dict(index=E.int("index"), estimator=est, above=None, below=None, threshold=E.real("threshold"), depth=E.int("depth")))
        pid_of(E, nd)
        return dict(self=nd, X=E.nd("X", (n, E.size("d", 1))), y=E.nd("y", (n,), "int"), sample_weight=E.nd("w", (n,)) if has_w else None,
                    dtlr=_dtlr(E), total_N=E.int("total_N"))

    def requires(self, E, a):
        s = a.self
        return {"node_not_deeper_than_max_depth": z3.And(z(s.fields["depth"]) >= 1, z(s.fields["depth"]) <= z(a.dtlr.fields["max_depth"])),
                "a_fresh_node_without_children": z3.BoolVal(s.fields.get("above") is None and s.fields.get("below") is None),
                "one_label_per_row": z(a.y.shape[0]) == z(a.X.shape[0]), "total_positive": z(a.total_N) >= 1,
                "valid_configuration_min_samples_leaf_non_negative": z(a.dtlr.fields["min_samples_leaf"]) >= 0}

    def decreases(self, E, a):
        return z(a.dtlr.fields["max_depth"]) - z(a.self.fields["depth"])

    def old(self, E, a):
        return dict(index=a.self.fields["index"], depth=a.self.fields["depth"], tl=len(E.trace), est=a.self.fields["estimator"])

    def result(self, E, a, old):
        # at the recursive call sites: the child's own subtree is summarised by the ghost functions of its id
        s = a.self
        pid_of(E, s)
        old["callsite"] = True
        return E.int("last_index")

    def ensures(self, E, a, res, old, overlap=False):
        s = a.self
        pid = pid_of(E, s)
        if old.get("callsite"):
            return {"summary": z3.And(okF(pid), hiF(pid) == z(res), z(res) >= z(s.fields["index"]))}
        md = a.dtlr.fields["max_depth"]
        E.assume(hiF(pid) == z(res))                        # ghost definition: hi(node) IS the value its (single) fit returns
        E.assume(fit_unfold(E, s, md))                      # definition of the ghost predicate at THIS node (its children are now known)
        out = {"index_and_depth_of_the_node_are_not_changed": z3.BoolVal(s.fields["index"] is old["index"] and s.fields["depth"] is old["depth"])}
        # whatever stops the growth of the tree here (depth, min_samples_split, min_samples_leaf, a one-sided split), the node that exists
        # answers predict_proba later: its classifier is fitted, once, on the rows, labels and weights the node was given
        fits = [t for t in E.trace[old["tl"]:] if t["op"] == "fit" and t["obj"] is old["est"]]
        out["the_classifier_of_the_node_is_fitted_once_on_the_rows_labels_and_weights_of_the_node"] = z3.BoolVal(
            s.fields["estimator"] is old["est"] and len(fits) == 1 and fits[0]["X"] is a.X and fits[0]["y"] is a.y and fits[0]["w"] is a.sample_weight)
        ab, be = s.fields.get("above"), s.fields.get("below")
        idx = z(s.fields["index"])
        ub = idx
        # what the code returns: a side without a node still consumes the index proposed for it (the numbering may have gaps)
        last = idx
        for name, ch in (("above", ab), ("below", be)):
            if ch is None:
                last = last + 1
                continue
            cp = pid_of(E, ch)
            out["%s_is_numbered_after_everything_before_it_and_one_level_deeper" % name] = z3.And(
                (z(ch.fields["index"]) > ub + (1 if overlap else 0)) if not overlap else (z(ch.fields["index"]) > hiF(cp)),
                z(ch.fields["depth"]) == z(s.fields["depth"]) + 1, z(ch.fields["depth"]) <= z(md))
            ub = hiF(cp)
            last = hiF(cp)
        exact = z(res) == last if (ab is not None or be is not None) else z3.Or(z(res) == idx, z(res) == last)    # early return: the node's own index
        out["returns_an_index_not_below_any_index_of_the_subtree"] = z3.And(exact, z(res) >= ub, z(res) >= idx)
        out["subtree_is_well_numbered_and_within_max_depth"] = z3.And(okF(pid), hiF(pid) == z(res))
        return out

    canaries = {"a_child_numbered_after_its_own_subtree": lambda E, a, res, old: z3.And(*[v for k_, v in NodeFit().ensures(E, a, res, old, overlap=True).items()
                                                                                        if k_.endswith("one_level_deeper")] or [z3.BoolVal(False)])}


@contract(F + "::DecisionTreeLogisticRegression._fit_parallel", "C10")
class FitParallel(Contract):
    """the root is node 0 at depth 1 <= max_depth; n_nodes_ is the last index of the well-numbered tree plus one"""
    variants = [False, True]

    def setup(self, E, has_w):
        n = E.size("n", 1)
        s = _dtlr(E)
        s.fields["classes_"] = E.nd("classes", (2,), "int")
        return dict(self=s, X=E.nd("X", (n, E.size("d", 1))), y=E.nd("y", (n,), "int"), sample_weight=E.nd("w", (n,)) if has_w else None)

    def requires(self, E, a):
        return {"valid_configuration_min_samples_leaf_non_negative": z(a.self.fields["min_samples_leaf"]) >= 0}

    def ensures(self, E, a, res, old):
        s = a.self
        root = s.fields.get("tree_")
        ok = isinstance(root, Obj)
        out = {"returns_self": z3.BoolVal(res is s), "tree_is_a_node": z3.BoolVal(ok)}
        if ok:
            pid = pid_of(E, root)
            out["root_is_node_zero_at_depth_one"] = z3.And(z(root.fields["index"]) == 0, z(root.fields["depth"]) == 1)
            out["tree_well_numbered_and_n_nodes_is_last_index_plus_one"] = z3.And(okF(pid), z(s.fields["n_nodes_"]) == hiF(pid) + 1, hiF(pid) >= 0)
        return out


# ----------------------------------------------------------------------------------------------------------------------
# get_leaves_index: the nodes at which a path can END (a node with a missing side takes the rows of that side itself).
# Bounded in the SHAPE of the tree (the shapes below, real recursion of the generator), complete in the node indices.
LEAVES_SHAPES = {
    "single": (None, None),
    "above_only": ((None, None), None),
    "below_only": (None, (None, None)),
    "both": ((None, None), (None, None)),
    "mixed": (((None, None), None), (None, ((None, None), (None, None)))),
}


def _build(E, shape, name="n"):
    o = node(E, name)
    if shape[0] is not None:
        o.fields["above"] = _build(E, shape[0], name + "a")
    if shape[1] is not None:
        o.fields["below"] = _build(E, shape[1], name + "b")
    return o


def _terminal_spec(o, childless_only=False):
    ab, be = o.fields["above"], o.fields["below"]
    here = (ab is None and be is None) if childless_only else (ab is None or be is None)
    out = [o.fields["index"]] if here else []
    for ch in (ab, be):
        if ch is not None:
            out += _terminal_spec(ch, childless_only)
    return out


@contract(F + "::_DecisionTreeLogisticRegressionNode.enumerate_leaves_index", "C10")
@query_frame("self")
class EnumerateLeaves(Contract):
    """yields the index of every node where a row's path can end - every node lacking at least one side - once, parents first,
    `above` before `below`"""
    variants = list(LEAVES_SHAPES)

    def setup(self, E, v):
        return dict(self=_build(E, LEAVES_SHAPES[v]))

    def ensures(self, E, a, res, old, childless_only=False):
        from pyvc.engine import GenResult
        ok = isinstance(res, GenResult)
        out = {"a_sequence": z3.BoolVal(ok)}
        if not ok:
            return out
        items = list(res.items)
        spec = _terminal_spec(a.self, childless_only)
        out["every_node_lacking_a_side_once_parents_first"] = z3.And(z3.BoolVal(len(items) == len(spec)), *[
            z(i) == z(s) for i, s in zip(items, spec)]) if len(items) == len(spec) else z3.BoolVal(False)
        return out

    canaries = {"only_nodes_without_any_child": lambda E, a, res, old: EnumerateLeaves().ensures(E, a, res, old, childless_only=True)[
        "every_node_lacking_a_side_once_parents_first"] if any(
            (o is not None) for o in (a.self.fields["above"], a.self.fields["below"])) and len(_terminal_spec(a.self)) != len(_terminal_spec(a.self, True)) else z3.BoolVal(False)}
