"""C10 - DecisionTreeLogisticRegression is a consistent tree of binary classifiers.

The two recursive node methods are verified against recursive contracts over ghost functions of the node:
  P(node, x, c)      probability column c of the classifier at which x's path below `node` ends
  onpath(node, x, j) node index j lies on x's path below `node`
both unfolded one level by their defining equation (induction on the height of the subtree)."""
import z3
from pyvc.api import Contract, contract
from pyvc.values import Obj, NdArr, z
from pyvc import models

F = "mlinsights/mlmodel/decision_tree_logreg.py"
PF = z3.Function("P_node", z3.IntSort(), models.Row, z3.IntSort(), z3.RealSort())
OnF = z3.Function("onpath", z3.IntSort(), models.Row, z3.IntSort(), z3.BoolSort())
ESTM = ("fit", "predict", "predict_proba", "decision_function", "get_params", "set_params")


def node(E, name, with_children=(False, False), height=None):
    est = models.new_estimator(E, name + "_clf", methods=ESTM, fitted=True)
    est.fields["$width_predict_proba"] = 2
    pid = E.int(name + "_id")
    o = E.new_obj(F + "::_DecisionTreeLogisticRegressionNode",
                  dict(index=E.int(name + "_index"), estimator=est, above=None, below=None, threshold=E.real(name + "_threshold"), depth=E.int(name + "_depth")))
    o.fields["$pid"] = pid
    if with_children[0]:
        o.fields["above"] = node(E, name + "_above")
    if with_children[1]:
        o.fields["below"] = node(E, name + "_below")
    return o


def proba(n, row, c):
    return models.out2F["predict_proba"](n.fields["estimator"].fields["$state"], row, c)


def unfold_axioms(E, n):
    """defining equations of the ghost functions at this node (one level)"""
    x = z3.Const(models.fresh_name("x"), models.Row)
    c, j = z3.Int(models.fresh_name("c")), z3.Int(models.fresh_name("j"))
    pid = n.fields["$pid"]
    up = proba(n, x, 1) > z(n.fields["threshold"])
    ab, be = n.fields["above"], n.fields["below"]
    val = proba(n, x, c)
    if be is not None:
        val = z3.If(z3.Not(up), PF(be.fields["$pid"], x, c), val)
    if ab is not None:
        val = z3.If(up, PF(ab.fields["$pid"], x, c), val)
    E.axiom(z3.ForAll([x, c], PF(pid, x, c) == val, patterns=[PF(pid, x, c)]))
    on = j == z(n.fields["index"])
    if ab is not None:
        on = z3.Or(on, z3.And(up, OnF(ab.fields["$pid"], x, j)))
    if be is not None:
        on = z3.Or(on, z3.And(z3.Not(up), OnF(be.fields["$pid"], x, j)))
    E.axiom(z3.ForAll([x, j], OnF(pid, x, j) == on, patterns=[OnF(pid, x, j)]))


VARIANTS = [(a, b) for a in (False, True) for b in (False, True)]


@contract(F + "::_DecisionTreeLogisticRegressionNode.predict_proba", "C10")
class NodeProba(Contract):
    variants = VARIANTS
    max_paths = 20000

    def setup(self, E, v):
        n = node(E, "node", v)
        unfold_axioms(E, n)
        return dict(self=n, X=E.nd("X", (E.size("n", 0), E.size("d", 1))))

    def old(self, E, a):
        return dict(X=a.X.snapshot(), w=a.X.cell.writes)

    def result(self, E, a, old):
        return NdArr.fresh("proba", (a.X.shape[0], 2), "real")

    def ensures(self, E, a, res, old, other_column=False):
        ok = isinstance(res, NdArr) and res.ndim == 2
        out = {"matrix": z3.BoolVal(ok)}
        if ok:
            n = z(a.X.shape[0])
            pid = a.self.fields["$pid"]
            out["each_row_gets_the_probabilities_of_the_classifier_ending_its_path"] = z3.And(
                z(res.shape[0]) == n, z(res.shape[1]) == 2,
                E.forall_range([(0, n), (0, 2)], lambda r, c: res.get(r, c) == PF(pid, models.row_of(E, old["X"], r), (1 - c) if other_column else c)))
            out["input_not_written"] = z3.BoolVal(a.X.cell.writes == old["w"])
        return out

    canaries = {"columns_swapped": lambda E, a, res, old: NodeProba().ensures(E, a, res, old, other_column=True).get(
        "each_row_gets_the_probabilities_of_the_classifier_ending_its_path", z3.BoolVal(True))}


def pos_of(E, indices):
    """ghost inverse of the (injective) row-index vector: matrix row -> data row; for a masked sub-vector it is derived from the
    parent's inverse and the mask's rank function"""
    reg = E.ps.setdefault("c10_pos", {})
    key = id(indices.cell)
    if key in reg:
        return reg[key]
    sel = getattr(indices.cell, "sel_of", None)
    if sel is None:
        return None
    parent, mask = sel
    ppos = pos_of(E, parent)
    if ppos is None:
        return None
    fm, n, K, rank, unrank = E.registry.mask_info(E, mask)
    reg[key] = lambda R: rank(ppos(R))
    E.ps.setdefault("c10_cov", {})[key] = lambda R: z3.And(cov_of(E, parent)(R), fm.get(ppos(R)))
    return reg[key]


def cov_of(E, indices):
    """ghost: matrix row R belongs to the index vector"""
    c = E.ps.setdefault("c10_cov", {})
    if id(indices.cell) not in c:
        pos_of(E, indices)
    return c[id(indices.cell)]


@contract(F + "::_DecisionTreeLogisticRegressionNode.decision_path", "C10")
class NodePath(Contract):
    variants = VARIANTS
    max_paths = 20000

    def setup(self, E, v):
        nd = node(E, "node", v)
        unfold_axioms(E, nd)
        n = E.size("n", 0)
        indices = E.nd("indices", (n,), "int")
        posF = z3.Function(models.fresh_name("pos"), z3.IntSort(), z3.IntSort())
        fi = indices.snapshot()
        E.ps.setdefault("c10_pos", {})[id(indices.cell)] = lambda R: posF(R)
        E.ps.setdefault("c10_cov", {})[id(indices.cell)] = lambda R: z3.And(posF(R) >= 0, posF(R) < z(n), fi.get(posF(R)) == R)
        return dict(self=nd, X=E.nd("X", (n, E.size("d", 1))), mat=E.nd("mat", (E.size("rows", 0), E.size("n_nodes", 1)), "int"),
                    indices=indices)

    def requires(self, E, a):
        n = z(a.X.shape[0])
        i = z3.Int(models.fresh_name("i"))
        ind = a.indices
        pos = pos_of(E, ind)
        idx = a.self.fields["index"]
        if pos is None:
            return {"row_index_vector_has_a_known_inverse": z3.BoolVal(False)}
        out = {"one_distinct_matrix_row_per_data_row": z3.And(z(ind.shape[0]) == n, z3.ForAll([i], z3.Implies(
                   z3.And(i >= 0, i < n), z3.And(ind.get(i) >= 0, ind.get(i) < z(a.mat.shape[0]), pos(ind.get(i)) == i, cov_of(E, ind)(ind.get(i)))))),
               "node_index_is_a_column": z3.And(z(idx) >= 0, z(idx) < z(a.mat.shape[1]))}
        for ch in ("above", "below"):
            c = a.self.fields[ch]
            if c is not None:
                out["child_index_is_a_column_" + ch] = z3.And(z(c.fields["index"]) >= 0, z(c.fields["index"]) < z(a.mat.shape[1]))
        return out

    def old(self, E, a):
        return dict(X=a.X.snapshot(), mat=a.mat.snapshot(), ind=a.indices.snapshot(), xw=a.X.cell.writes)

    def result(self, E, a, old):
        a.mat.cell.term = z3.Const(models.fresh_name("mat"), a.mat.cell.term.sort())
        return None

    def ensures(self, E, a, res, old, off_path=False):
        n = z(a.X.shape[0])
        pid = a.self.fields["$pid"]
        m0, ind, X = old["mat"], old["ind"], old["X"]
        J, R = z3.Int(models.fresh_name("J")), z3.Int(models.fresh_name("R"))
        cols = z(a.mat.shape[1])
        pos, cov = pos_of(E, a.indices), cov_of(E, a.indices)
        on = lambda rr, jj: (z3.Not(OnF(pid, models.row_of(E, X, rr), jj)) if off_path else OnF(pid, models.row_of(E, X, rr), jj))
        return {
            "marks_exactly_the_nodes_on_each_rows_path_and_nothing_else": z3.ForAll([R, J], z3.Implies(
                z3.And(R >= 0, R < z(a.mat.shape[0]), J >= 0, J < cols),
                a.mat.get(R, J) == z3.If(z3.And(cov(R), on(pos(R), J)), 1, m0.get(R, J)))),
            "features_not_written": z3.BoolVal(a.X.cell.writes == old["xw"]),
        }

    canaries = {"marks_the_nodes_off_the_path": lambda E, a, res, old: NodePath().ensures(E, a, res, old, off_path=True)[
        "marks_exactly_the_nodes_on_each_rows_path_and_nothing_else"]}


@contract(F + "::_DecisionTreeLogisticRegressionNode.predict", "C10")
class NodePredict(Contract):
    variants = VARIANTS

    def setup(self, E, v):
        n = node(E, "node", v)
        unfold_axioms(E, n)
        return dict(self=n, X=E.nd("X", (E.size("n", 0), E.size("d", 1))))

    def old(self, E, a):
        return dict(X=a.X.snapshot())

    def ensures(self, E, a, res, old):
        ok = isinstance(res, NdArr) and res.ndim == 1
        out = {"vector": z3.BoolVal(ok)}
        if ok:
            n = z(a.X.shape[0])
            pid = a.self.fields["$pid"]
            out["label_is_1_iff_probability_of_class_1_at_least_one_half"] = z3.And(z(res.shape[0]) == n, E.forall_range(
                [(0, n)], lambda r: res.get(r) == z3.If(PF(pid, models.row_of(E, old["X"], r), 1) >= z3.RealVal("1/2"), 1, 0)))
        return out


META = dict(
    level="proof", assumptions=["A1", "A2", "A6", "A7", "A9"],
    trusted=["estimator protocol: predict_proba of a fitted binary classifier is a deterministic row-wise function with two columns",
             "boolean-mask gather/scatter lemmas (rank/unrank); ghost functions P / onpath are defined by their one-level unfolding (induction on subtree height)"],
    not_applicable=["fit (node indices distinct and below n_nodes_, depth <= max_depth, fit_improve intercept search), get_leaves_index, rows summing to one "
                    "(property of the member classifiers): bounded stand-in; the recursive fit with its closure over label sets is outside the executor subset",
                    "termination of the recursions is by the height of the (finite) node tree - assumed well-founded (A9)"],
)
