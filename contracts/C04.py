"""C04 - predictions are a pure per-row function of the model and survive persistence.

(1) Every prediction method under contract elsewhere has a postcondition of the form  out[r] = G(model, X[r])  with G free of
    the batch: those contracts are re-verified here under this property (a change that breaks the row-wise form fails C04 too).
(2) Lemma over contracts (proved once, generically): a row-wise postcondition implies that any sub-batch, permutation, repetition or
    single row of a batch gets the same outputs as inside the batch, and that repeated calls agree.
(3) clone_with_fitted_parameters: structural recursion, every fitted / private attribute is deep-copied, nested estimators are
    cloned recursively, the argument is untouched."""
import z3
from pyvc.api import Contract, contract
from pyvc.values import Obj, NdArr, z
from pyvc import models
from contracts import C08 as _c08, C10 as _c10, C15 as _c15, C17 as _c17

MM = "mlinsights/mlmodel/"

# (1) the row-wise contracts, re-registered for C04 ---------------------------------------------------------------
# transform_bins decides which model answers for a row: its contract (a row's bucket depends on that row only; unseen cells get -1) is
# verified under this property as well - a bucket that depended on the other rows of the batch would break "per-row function" first
for _cls in (_c08.TransformBins, _c08.RegPredict, _c08.ClfProba, _c08.ClfPredict, _c10.NodeProba, _c10.NodePredict, _c10.NodePath,
             _c15.LearnerTransform, _c15.TransferTransform, _c17.PredictAll):
    contract(_cls.key, "C04")(type(_cls.__name__, (_cls,), {"canaries": {}}))


# (2) the generic lemma -------------------------------------------------------------------------------------------
class RowWiseLemma(Contract):
    key = "lemma::row_wise_outputs_are_batch_independent"
    name = "row_wise_batch_independence"
    prop = "C04"
    is_lemma = True

    def _setup(self, E):
        G = z3.Function("G_model", models.Row, z3.RealSort())                 # the per-row function of the fitted model
        A = E.nd("A", (E.size("n", 0), E.size("d", 1)))
        B = E.nd("B", (E.size("m", 0), A.shape[1]))
        outA, outB = E.nd("outA", (A.shape[0],)), E.nd("outB", (B.shape[0],))
        sigma = z3.Function("sigma", z3.IntSort(), z3.IntSort())              # B's rows are rows of A (any selection, order, repetition)
        r, j, c = z3.Int("r"), z3.Int("j"), z3.Int("c")
        n, m, d = z(A.shape[0]), z(B.shape[0]), z(A.shape[1])
        # hypotheses: the two calls satisfy the row-wise postcondition of the contract
        E.assume(z3.ForAll([r], z3.Implies(z3.And(r >= 0, r < n), outA.get(r) == G(models.row_of(E, A, r)))))
        E.assume(z3.ForAll([j], z3.Implies(z3.And(j >= 0, j < m), outB.get(j) == G(models.row_of(E, B, j)))))
        E.assume(z3.ForAll([j], z3.Implies(z3.And(j >= 0, j < m), z3.And(sigma(j) >= 0, sigma(j) < n))))
        E.assume(z3.ForAll([j, c], z3.Implies(z3.And(j >= 0, j < m, c >= 0, c < d), B.get(j, c) == A.get(sigma(j), c))))
        # row extensionality (instance schema): equal entries => equal Row
        E.axiom(z3.ForAll([j], z3.Implies(z3.And(j >= 0, j < m, z3.ForAll([c], z3.Implies(z3.And(c >= 0, c < d), B.get(j, c) == A.get(sigma(j), c)))),
                                          models.row_of(E, B, j) == models.row_of(E, A, sigma(j)))))
        return outA, outB, sigma, m

    def lemma(self, E):
        outA, outB, sigma, m = self._setup(E)
        j = z3.Int("jj")
        return {"sub_batch_permutation_or_single_row_gets_the_same_outputs":
                z3.ForAll([j], z3.Implies(z3.And(j >= 0, j < m), outB.get(j) == outA.get(sigma(j))))}

    def lemma_canaries(self, E):
        outA, outB, sigma, m = self._setup(E)
        j = z3.Int("jj")
        return {"outputs_by_position": z3.ForAll([j], z3.Implies(z3.And(j >= 0, j < m), outB.get(j) == outA.get(j)))}


from pyvc.api import ALL_CONTRACTS
ALL_CONTRACTS.setdefault("C04", []).append(RowWiseLemma)


# (3) clone_with_fitted_parameters ---------------------------------------------------------------------------------
from contracts._clone import CloneFittedBase, _fitted_estimator, _same_content, _clone_ok


@contract(MM + "sklearn_testing.py::clone_with_fitted_parameters", "C04")
class CloneFitted(CloneFittedBase):
    pass


META = dict(
    level="proof", lean_files=["lemmas/Sums.lean"], assumptions=["A1", "A2", "A6", "A7", "A8", "A9"],
    trusted=["the assumed contracts of C08/C10/C15/C17 (estimator protocol: outputs are deterministic functions of fitted state and row; transform_bins is verified here as under C08)",
             "row extensionality; copy.deepcopy copies arrays/lists; sklearn.base.clone copies constructor parameters and clones nested estimators"],
    not_applicable=["pickle round trips (and the Cython criteria's __reduce__): no contract within reach expresses pickling - bounded stand-in",
                    "KMeansL1L2 / ConstraintKMeans / PiecewiseTreeRegressor predictions: row-wise by delegation to scikit-learn (assumed) - bounded stand-in; "
                    "balanced prediction of ConstraintKMeans is the documented exception"],
)
