"""C20 - time-series framing never looks ahead.

Functions under contract: mlinsights/timeseries/utils.py::build_ts_X_y,
mlinsights/timeseries/metrics.py::ts_mape.
Quantifier of the property: delay1 = 1, use_all_past = False, all n, past, delay2, with/without
exogenous features and weights, both same_rows values.
"""
import z3
from pyvc.api import Contract, contract
from pyvc.values import Obj, NdArr, z


def _nrow(a):
    m = a.model
    return z(a.y.shape[0]) - z(m.fields["delay2"]) - z(m.fields["past"]) + 2


@contract("mlinsights/timeseries/utils.py::build_ts_X_y", "C20")
class BuildTsXy(Contract):
    # the series may be a vector of reals or of integers (the docstring's own example is an integer series)
    variants = [(sr, hx, hw, yk) for sr in (False, True) for hx in (False, True) for hw in (False, True) for yk in ("real", "int")]

    def setup(self, E, variant):
        same_rows, has_x, has_w, ykind = variant
        n = E.size("n")
        past, delay2 = E.size("past", 1), E.size("delay2", 2)
        ncol = E.size("ncol")
        model = Obj("BaseTimeSeries", dict(past=past, delay1=1, delay2=delay2, use_all_past=False))
        y = E.nd("y", (n,), ykind)
        X = E.nd("X", (n, ncol)) if has_x else None
        w = E.nd("w", (n,)) if has_w else None
        return dict(model=model, X=X, y=y, weights=w, same_rows=same_rows)

    def requires(self, E, a):
        m = a.model.fields
        return {"past>=1": z(m["past"]) >= 1, "delay2>delay1": z(m["delay2"]) > 1,
                "at_least_zero_rows": _nrow(a) >= 0}

    def _clauses(self, E, a, res, shift_target=0, shift_lag=0):
        nx, ny, nw = res
        m = a.model.fields
        past, delay2 = z(m["past"]), z(m["delay2"])
        n = z(a.y.shape[0])
        nrow = _nrow(a)
        ncol = z(a.X.shape[1]) if a.X is not None else z3.IntVal(0)
        off = (n - nrow) if a.same_rows else z3.IntVal(0)
        out = {}
        out["result_arrays"] = z3.BoolVal(isinstance(nx, NdArr) and isinstance(ny, NdArr) and nx.ndim == 2 and ny.ndim == 2)
        if not (isinstance(nx, NdArr) and isinstance(ny, NdArr) and nx.ndim == 2 and ny.ndim == 2):
            return out
        rows = n if a.same_rows else nrow
        out["shape_X"] = z3.And(z(nx.shape[0]) == rows, z(nx.shape[1]) == ncol + past)
        out["shape_y"] = z3.And(z(ny.shape[0]) == rows, z(ny.shape[1]) == delay2 - 1)
        # lag features: `past` consecutive values y[r] .. y[r+past-1]
        out["lags_are_past_consecutive_values"] = E.forall_range(
            [(0, nrow), (0, past)], lambda r, i: z3.And(nx.get(off + r, ncol + i) == a.y.get(r + i + shift_lag),
                                                         z3.Not(nx.isnan(off + r, ncol + i))))
        # first target exactly delay1 = 1 step after the newest lag (index r+past-1), targets consecutive
        out["targets_start_delay1_after_newest_lag_and_are_consecutive"] = E.forall_range(
            [(0, nrow), (0, delay2 - 1)],
            lambda r, t: z3.And(ny.get(off + r, t) == a.y.get((r + past - 1) + 1 + t + shift_target),
                                z3.Not(ny.isnan(off + r, t))))
        # (consequence, stated for the reader: every lag index r+i <= r+past-1 < r+past+t)
        if a.X is not None:
            out["exogenous_aligned_to_newest_lag"] = E.forall_range(
                [(0, nrow), (0, ncol)], lambda r, c: z3.And(nx.get(off + r, c) == a.X.get(r + past - 1, c),
                                                             z3.Not(nx.isnan(off + r, c))))
        if a.same_rows:
            out["left_padding_is_nan_X"] = E.forall_range(
                [(0, n - nrow), (0, ncol + past)], lambda r, c: nx.isnan(r, c))
            out["left_padding_is_nan_y"] = E.forall_range(
                [(0, n - nrow), (0, delay2 - 1)], lambda r, c: ny.isnan(r, c))
        else:
            if a.weights is None:
                out["weights_none"] = z3.BoolVal(nw is None)
            else:
                ok = isinstance(nw, NdArr) and nw.ndim == 1
                out["weights_array"] = z3.BoolVal(ok)
                if ok:
                    out["weights_aligned_to_newest_lag"] = z3.And(
                        z(nw.shape[0]) == nrow,
                        E.forall_range([(0, nrow)], lambda r: nw.get(r) == a.weights.get(r + past - 1)))
        return out

    def ensures(self, E, a, res, old):
        return self._clauses(E, a, res)

    canaries = {
        "target_off_by_one": lambda self_E, a, res, old: BuildTsXy._clauses(BuildTsXy(), self_E, a, res, shift_target=1)[
            "targets_start_delay1_after_newest_lag_and_are_consecutive"],
        "lag_off_by_one": lambda self_E, a, res, old: BuildTsXy._clauses(BuildTsXy(), self_E, a, res, shift_lag=1)[
            "lags_are_past_consecutive_values"],
    }

    # loop invariants (loop ordinals in source order inside build_ts_X_y)
    @staticmethod
    def _inv_lags(E, L):
        a_y, nx = L["y"], L["new_X"]
        m = L["model"].fields
        past, delay2 = z(m["past"]), z(m["delay2"])
        n = z(a_y.shape[0])
        nrow = n - delay2 - past + 2
        ncol = z(L["X"].shape[1]) if L["X"] is not None else z3.IntVal(0)      # from the parameter, not from a local temporary of the code
        same = L["same_rows"]
        off = (n - nrow) if same else z3.IntVal(0)
        pre = L.old("new_X")
        rows = n if same else nrow
        inv = {
            "done_columns": E.forall_range([(0, nrow), (0, L.i)], lambda r, i: z3.And(
                nx.get(off + r, ncol + i) == a_y.get(r + i), z3.Not(nx.isnan(off + r, ncol + i)))),
            "exog_block_untouched": E.forall_range([(0, rows), (0, ncol)], lambda r, c: z3.And(
                nx.get(r, c) == pre.get(r, c), nx.isnan(r, c) == pre.isnan(r, c))),
        }
        if same:
            inv["padding_untouched"] = E.forall_range([(0, n - nrow), (0, ncol + past)], lambda r, c: nx.isnan(r, c))
        return inv

    @staticmethod
    def _inv_targets(E, L):
        a_y, ny = L["y"], L["new_y"]
        m = L["model"].fields
        past, delay2 = z(m["past"]), z(m["delay2"])
        n = z(a_y.shape[0])
        nrow = n - delay2 - past + 2
        same = L["same_rows"]
        off = (n - nrow) if same else z3.IntVal(0)
        inv = {
            "done_columns": E.forall_range([(0, nrow), (0, L.i - 1)], lambda r, t: z3.And(
                ny.get(off + r, t) == a_y.get(r + past + t), z3.Not(ny.isnan(off + r, t)))),
        }
        if same:
            inv["padding_untouched"] = E.forall_range([(0, n - nrow), (0, delay2 - 1)], lambda r, c: ny.isnan(r, c))
        return inv

    loops = {3: _inv_lags.__func__, 4: _inv_targets.__func__, 8: _inv_lags.__func__, 9: _inv_targets.__func__}

    scopes = [dict(n=3, past=1, delay2=2, ncol=1), dict(n=4, past=2, delay2=2, ncol=1), dict(n=5, past=2, delay2=3, ncol=1),
              dict(n=6, past=3, delay2=3, ncol=2)]


def _absdiff_sum(E, y, w, n):
    """spec term: sum_{t=1}^{n-1} |y[t-1]-y[t]| * w[t]   (ghost Sum)"""
    from pyvc.ghost import sum1
    ys = y.snapshot()
    ws = w.snapshot() if w is not None else None

    def f(i):
        d = ys.get(i) - ys.get(i + 1)
        a = z3.If(d >= 0, d, -d)
        return a * ws.get(i + 1) if ws is not None else a
    return sum1(E, NdArr.from_fn("spec", (n - 1,), "real", f))


def _masked_absdiff_sum(E, y, w, n, isnan):
    """spec term with missing forecasts: the steps t whose forecast and whose previous forecast both exist,
    sum_{t=1}^{n-1} [not nan(p[t-1]) and not nan(p[t])] |y[t-1]-y[t]| * w[t]   (ghost Sum)"""
    from pyvc.ghost import sum1
    ys = y.snapshot()
    ws = w.snapshot() if w is not None else None

    def f(i):
        d = ys.get(i) - ys.get(i + 1)
        a = z3.If(d >= 0, d, -d)
        a = a * ws.get(i + 1) if ws is not None else a
        return z3.If(z3.Or(isnan(i), isnan(i + 1)), z3.RealVal(0), a)
    return sum1(E, NdArr.from_fn("spec", (n - 1,), "real", f))


@contract("mlinsights/timeseries/metrics.py::ts_mape", "C20")
class TsMape(Contract):
    """kinds any / naive: forecasts without NaN.  kinds any-nan / naive-nan: forecasts where any entry may be missing (NaN), the
    naive one being `the previous value where there is a forecast`; at least one step is scored (a forecast whose predecessor exists)"""
    variants = [(kind, hw) for kind in ("any", "naive", "any-nan", "naive-nan") for hw in (False, True)]
    scopes = [dict(n=2), dict(n=3), dict(n=4)]

    def setup(self, E, variant):
        kind, has_w = variant
        n = E.size("n", 2)
        y = E.nd("y", (n,))
        extra = {}
        if kind.endswith("-nan"):
            pn = E.nd("forecast_missing", (n,), "bool").snapshot()
            extra = dict(_pn=pn, _k=E.int("scored_step"))
        nanfn = (lambda t: pn.get(t)) if kind.endswith("-nan") else None
        if kind.startswith("naive"):
            p0 = E.real("p0")
            ys = y.snapshot()
            p = NdArr.from_fn("naive", (n,), "real", lambda t: z3.If(t >= 1, ys.get(t - 1), p0), nanfn)
        elif nanfn is not None:
            pv = E.nd("pv", (n,)).snapshot()
            p = NdArr.from_fn("p", (n,), "real", lambda t: pv.get(t), nanfn)
        else:
            p = E.nd("p", (n,))
        w = E.nd("w", (n,)) if has_w else None
        return dict(expected_y=y, predicted_y=p, sample_weight=w, _kind=kind, **extra)

    def requires(self, E, a):
        n = z(a.expected_y.shape[0])
        out = {"n>=2": n >= 2}
        if a.sample_weight is not None:
            out["weights_nonneg"] = E.forall_range([(0, n)], lambda i: a.sample_weight.get(i) >= 0)
        if a._kind.endswith("-nan"):
            k = a._k
            out["one_step_is_scored"] = z3.And(k >= 0, k < n - 1, z3.Not(a._pn.get(k)), z3.Not(a._pn.get(k + 1)))
        return out

    def ensures(self, E, a, res, old):
        from pyvc.values import NanReal
        n = z(a.expected_y.shape[0])
        out = {}
        if isinstance(res, str):
            out["returns_a_number"] = z3.BoolVal(res == "inf+")
            isnum = False
        elif isinstance(res, NanReal):
            # NaN / numpy.ma.masked would come back if no step were scored
            isnum = True
            out["returns_a_number"] = z3.Not(res.isnan)
            res = res.val
            out["non_negative"] = z(res) >= 0
        else:
            isnum = True
            out["returns_a_number"] = z3.BoolVal(res is not None)
            out["non_negative"] = z(res) >= 0
        if a._kind.startswith("naive"):
            if a._kind == "naive":
                S = _absdiff_sum(E, a.expected_y, a.sample_weight, n)
            else:
                S = _masked_absdiff_sum(E, a.expected_y, a.sample_weight, n, lambda i: a._pn.get(i))
            from pyvc.ghost import sum_congr_all
            sum_congr_all(E)
            if isnum:
                out["naive_forecast_scores_1_unless_series_constant"] = z3.Implies(S != 0, z(res) == 1)
            else:
                out["naive_forecast_scores_1_unless_series_constant"] = z3.BoolVal(False)
        return out

    canaries = {
        "always_below_one": lambda E, a, res, old: z3.BoolVal(False) if isinstance(res, str) else z(getattr(res, "val", res)) <= 1,
    }


META = dict(
    level="proof", lean_files=["lemmas/Sums.lean"],
    assumptions=["A1", "A2", "A6", "A7", "A9"],
    trusted=["ghost Sum with lemma instances sum_empty/sum_nonneg/sum_congr (statements in pyvc/ghost.py LEMMAS)",
             "numpy.squeeze on a 1-d array of length != 1 returns it unchanged; numpy.ma.masked_array with an all-false mask is the data, otherwise the data with the mask as per-cell flag: operations or the flags, numpy.sum adds the unflagged cells"],
    not_applicable=["use_all_past=True (outside the property's quantifier)",
                    "same_rows weights: the statement is ambiguous (code returns `weights` unchanged; upstream test expects that) - not asserted",
                    "ts_mape when no step at all is scored (every forecast or its predecessor missing): numpy returns numpy.ma.masked; "
                    "precondition one_step_is_scored of the NaN variants"],
)
