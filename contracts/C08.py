"""C08 - piecewise estimators: a partition by the binner with one local model per bucket.

Bounded in the number of buckets (1..3), complete in the data: any number of rows, any values, any assignment of rows to
buckets (including rows of unseen buckets, association = -1)."""
import z3
from pyvc.api import Contract, contract
from pyvc.values import Obj, NdArr, Opaque, z
from pyvc import models
from pyvc.engine import PyFn

P = "mlinsights/mlmodel/piecewise_estimator.py"
ESTM = ("fit", "predict", "predict_proba", "decision_function", "get_params", "set_params")


lfF = z3.Function("leaf_position", models.Est, models.Row, z3.IntSort())      # ghost: which entry of leaves_ a row falls into


def _wf_tree(E, st, leaves, mapping):
    """well-formedness of a fitted tree-binned estimator: leaves_ are node ids of the tree and every row's decision path
    contains exactly one of them (scikit-learn trees: a row ends in exactly one leaf - ASSUMED, stated as a precondition)"""
    R = E.registry
    row = z3.Const("rho!wf", models.Row)
    t = z3.Int("t!wf")
    L = z(leaves.length)
    at = (lambda q: leaves.get(q)) if hasattr(leaves, "get") else (lambda q: z(leaves.item(q)))
    return {"at_least_one_leaf": L >= 1,
            "leaves_are_nodes_of_the_tree": z3.ForAll([t], z3.Implies(z3.And(t >= 0, t < L), z3.And(at(t) >= 0, at(t) < R.nodesF(st)))),
            "every_row_ends_in_exactly_one_leaf": z3.ForAll([row, t], z3.And(
                lfF(st, row) >= 0, lfF(st, row) < L,
                z3.Implies(z3.And(t >= 0, t < L), (R.pathF(st, row, at(t)) == 1) == (t == lfF(st, row)))))}


def _bins_key(E, st, X, r, width):
    """the dictionary key transform_bins computes for row r of X: tuple(int32(transform(X)[r, :]))"""
    from pyvc import sparsemodel
    from pyvc.npmodel import cast
    arr = NdArr.from_fn("cell", (width,), "int", lambda c: cast(models.out2F["transform"](st, models.row_of(E, X, r), c), "int"))
    return sparsemodel.tuple_key(arr)


def _bucket_of_row(E, s, row):
    b = s.fields["binner_"]
    st = b.fields["$state"]
    mp = s.fields["mapping_"]
    if "tree_" in (b.fields.get("$fitted_attrs") or ()):
        leaves = s.fields["leaves_"]
        return mp.lookup(leaves.get(lfF(st, row)), -1)
    from pyvc import sparsemodel
    from pyvc.npmodel import cast
    width = models.widthF["transform"](st)
    arr = NdArr.from_fn("cell", (width,), "int", lambda c: cast(models.out2F["transform"](st, row, c), "int"))
    return mp.lookup(sparsemodel.tuple_key(arr), -1)


def bucket_of(E, s, X, r):
    """THE ROUTING FUNCTION: the bucket id of row r of X under the fitted estimator s (-1: bucket unseen at training time):
    the value mapping_ gives to the row's tree leaf / to tuple(int32(binner_.transform(row))), a function of the row alone"""
    F = s.fields.get("$bucketF")
    row = models.row_of(E, X, r)
    return F(row) if F is not None else _bucket_of_row(E, s, row)


def name_bucket_function(E, s, prop_fn):
    """callers of transform_bins: name the routing function (definitional axiom) and prove once that its values are -1 or a
    position of estimators_ (from the object invariant), then use that as a fact"""
    F = z3.Function(models.fresh_name("bucket"), models.Row, z3.IntSort())
    rho = z3.Const("rho!b", models.Row)
    # F abbreviates _bucket_of_row (a definitional extension: conservative).  The definition itself is not handed to the solver -
    # the only fact used about F is the range below, proved for the definition; transform_bins' proved postcondition
    # (association[r] == _bucket_of_row(row r)) reads association[r] == F(row r) under the abbreviation.
    k = len(s.fields["estimators_"])
    rng = z3.ForAll([rho], z3.And(_bucket_of_row(E, s, rho) >= -1, _bucket_of_row(E, s, rho) < k))
    E.oblige("C08.%s.lemma.bucket_ids_are_minus_one_or_a_position_of_a_local_model" % prop_fn, rng, "lemma")
    E.assume(z3.ForAll([rho], z3.And(F(rho) >= -1, F(rho) < k), patterns=[F(rho)]))
    s.fields["$bucketF"] = F
    return F


def _fitted_binned(E, kind, cls="PiecewiseRegressor", extra=None):
    from pyvc.dicts import SymMap
    from pyvc.values import SList
    from pyvc import sparsemodel
    binner_ = models.new_estimator(E, "binner_", methods=ESTM + ("transform", "decision_path"), fitted=True)
    binner_.fields["$fitted_attrs"] = {"tree_"} if kind == "tree" else set()
    f = dict(binner=models.new_estimator(E, "binner", methods=ESTM + ("transform", "decision_path")),
             estimator=models.new_estimator(E, "estimator", methods=ESTM), n_jobs=None, verbose=False, binner_=binner_)
    if kind == "tree":
        f["leaves_"] = SList.fresh("leaves", z3.IntSort())
        E.assume(f["leaves_"].length >= 0)
        f["mapping_"] = SymMap.fresh("mapping", z3.IntSort())
    else:
        binner_.fields["$sparse_transform"] = True
        f["mapping_"] = SymMap.fresh("mapping", sparsemodel.Key)
    f.update(extra or {})
    return E.new_obj(P + "::" + cls, f)


def _estimator_obj(E, k, cls="PiecewiseRegressor", kind="bins"):
    members = [models.new_estimator(E, "local%d" % i, methods=ESTM, fitted=True) for i in range(k)]
    mean = models.new_estimator(E, "global", methods=ESTM, fitted=True)
    for m in members + [mean]:
        m.fields["classes_"] = NdArr.fresh("classes", (E.size("ncls", 2),), "int")
    extra = dict(estimators_=members, mean_estimator_=mean, dim_=1)
    if cls == "PiecewiseClassifier":
        extra["random_state"] = None
    return _fitted_binned(E, kind, cls, extra)


def _wf_fitted(E, s):
    """object invariant of a fitted piecewise estimator (established by fit): mapping_ sends buckets to positions of estimators_"""
    mp = s.fields["mapping_"]
    k = len(s.fields["estimators_"])
    key = z3.Const("key!wf", mp.key_sort())
    out = {"mapping_values_are_positions_of_local_models": z3.ForAll([key], z3.Implies(z3.Select(mp.member, key), z3.And(
        z3.Select(mp.value, key) >= 0, z3.Select(mp.value, key) < k)))}
    b = s.fields["binner_"]
    if "tree_" in (b.fields.get("$fitted_attrs") or ()):
        out.update(_wf_tree(E, b.fields["$state"], s.fields["leaves_"], mp))
    return out


def _same_fields(obj, before):
    """frame of a query: the estimator has the attributes it had, each the same object (nothing is kept from one call to the next)"""
    now = {k: v for k, v in obj.fields.items() if not k.startswith("$")}
    return z3.BoolVal(set(now) == set(before) and all(now[k] is before[k] for k in now))


def _fields_of(obj):
    return {k: v for k, v in obj.fields.items() if not k.startswith("$")}


@contract(P + "::PiecewiseEstimator.transform_bins", "C08")
class TransformBins(Contract):
    """PROVED: every row gets exactly one bucket id - the id its tree leaf / discretizer cell was given at training time, -1 if that
    bucket was not seen; the id is a function of the fitted estimator and the row alone (bucket_of)"""
    variants = ["tree", "bins"]

    def setup(self, E, v):
        return dict(self=_fitted_binned(E, v), X=E.nd("X", (E.size("n", 0), E.size("d", 1))))

    def requires(self, E, a):
        s = a.self
        b = s.fields["binner_"]
        if "tree_" in (b.fields.get("$fitted_attrs") or ()):
            return _wf_tree(E, b.fields["$state"], s.fields["leaves_"], s.fields["mapping_"])
        return {}

    def old(self, E, a):
        return dict(X=a.X.snapshot(), w=a.X.cell.writes, fields=_fields_of(a.self))

    @staticmethod
    def _tree_inv(E, L):
        s, X, assoc = L["self"], L["X"], L["association"]
        st = s.fields["binner_"].fields["$state"]
        leaves, mp = s.fields["leaves_"], s.fields["mapping_"]
        lf = lambda r: lfF(st, models.row_of(E, X, r))
        return {"rows_of_the_leaves_seen_so_far_have_their_bucket_the_others_minus_one": E.forall_range(
            [(0, z(X.shape[0]))], lambda r: assoc.get(r) == z3.ToReal(z3.If(lf(r) < z(L.k), mp.lookup(leaves.get(lf(r)), -1), -1)))}

    @staticmethod
    def _bins_inv(E, L):
        s, X, assoc = L["self"], L["X"], L["association"]
        return {"rows_seen_so_far_have_their_bucket_the_others_minus_one": E.forall_range(
            [(0, z(X.shape[0]))], lambda r: assoc.get(r) == z3.ToReal(z3.If(r < z(L.k), bucket_of(E, s, X, r), -1)))}
    loops = {0: _tree_inv.__func__, 1: _bins_inv.__func__}

    def result(self, E, a, old):
        assoc = NdArr.fresh("association", (a.X.shape[0],), "real")
        E.ps["c08_assoc"] = assoc
        return assoc

    def ensures(self, E, a, res, old, shifted=False):
        ok = isinstance(res, NdArr) and res.ndim == 1
        out = {"one_bucket_id_per_row": z3.BoolVal(ok) if not ok else z(res.shape[0]) == z(a.X.shape[0])}
        if ok:
            X = old["X"]
            out["the_id_is_the_bucket_of_the_row_or_minus_one_if_unseen"] = E.forall_range(
                [(0, z(a.X.shape[0]))], lambda r: res.get(r) == z3.ToReal(bucket_of(E, a.self, X, r) + (1 if shifted else 0)))
            out["input_not_written"] = z3.BoolVal(a.X.cell.writes == old["w"])
        # the routing is a function of (fitted estimator, row): a call leaves no state behind that a later call could read
        out["estimator_left_as_it_was_nothing_kept_between_calls"] = _same_fields(a.self, old["fields"])
        return out

    canaries = {"ids_shifted_by_one": lambda E, a, res, old: TransformBins().ensures(E, a, res, old, shifted=True).get(
        "the_id_is_the_bucket_of_the_row_or_minus_one_if_unseen", z3.BoolVal(True))}


class ApplyBase(Contract):
    variants = [(k, kind) for k in (1, 2, 3) for kind in ("bins", "tree")]
    cls = "PiecewiseRegressor"
    method = "predict"
    max_paths = 20000

    def setup(self, E, v):
        k, kind = v
        return dict(self=_estimator_obj(E, k, self.cls, kind), X=E.nd("X", (E.size("n", 0), E.size("d", 1))))

    def requires(self, E, a):
        return _wf_fitted(E, a.self)

    def old(self, E, a):
        name_bucket_function(E, a.self, "%s.%s" % (self.cls, self.method))
        return dict(X=a.X.snapshot(), w=a.X.cell.writes, tl=len(E.trace), fields=_fields_of(a.self),
                    ev=[len(m.events) for m in a.self.fields["estimators_"] + [a.self.fields["mean_estimator_"]]])

    def value(self, E, st, X, r, c):
        if self.method == "predict":
            return models.predF(st, models.row_of(E, X, r))
        return models.out2F[self.method](st, models.row_of(E, X, r), c)

    def ensures(self, E, a, res, old, fallback_first=False):
        s = a.self
        members = s.fields["estimators_"]
        k = len(members)
        ok = isinstance(res, NdArr)
        out = {"array": z3.BoolVal(ok), "input_not_written": z3.BoolVal(a.X.cell.writes == old["w"]),
               "no_model_is_refitted": z3.BoolVal(all(len(m.events) == e for m, e in zip(members + [s.fields["mean_estimator_"]], old["ev"]))),
               "estimator_left_as_it_was_nothing_kept_between_calls": _same_fields(s, old["fields"])}
        if not ok:
            return out
        n = z(a.X.shape[0])
        X = old["X"]

        def expected(r, c):
            b = bucket_of(E, s, X, r)
            v = self.value(E, s.fields["mean_estimator_"].fields["$state"], X, r, c)       # unseen bucket: global fallback model
            order = list(range(k))
            for i in reversed(order):
                cond = (b == i) if not fallback_first else z3.And(b == i, i != 0)
                v = z3.If(cond, self.value(E, members[i].fields["$state"], X, r, c), v)
            return v
        if res.ndim == 1:
            out["each_row_gets_the_output_of_its_buckets_model_or_the_global_fallback"] = z3.And(
                z(res.shape[0]) == n, E.forall_range([(0, n)], lambda r: res.get(r) == self.post(expected(r, 0))))
        else:
            out["each_row_gets_the_output_of_its_buckets_model_or_the_global_fallback"] = z3.And(
                z(res.shape[0]) == n, E.forall_range([(0, n), (0, z(res.shape[1]))], lambda r, c: res.get(r, c) == self.post(expected(r, c))))
        return out

    def post(self, v):
        return v


@contract(P + "::PiecewiseRegressor.predict", "C08")
class RegPredict(ApplyBase):
    canaries = {"bucket_0_sent_to_the_fallback": lambda E, a, res, old: RegPredict().ensures(E, a, res, old, fallback_first=True).get(
        "each_row_gets_the_output_of_its_buckets_model_or_the_global_fallback", z3.BoolVal(True))}


@contract(P + "::PiecewiseClassifier.predict_proba", "C08")
class ClfProba(ApplyBase):
    cls = "PiecewiseClassifier"
    method = "predict_proba"

    def setup(self, E, v):
        a = ApplyBase.setup(self, E, v)
        w = E.size("ncls", 2)
        s = a["self"]
        for m in s.fields["estimators_"] + [s.fields["mean_estimator_"]]:
            m.fields["classes_"] = NdArr.fresh("classes", (w,), "int")
            m.fields["$width_predict_proba"] = w
        return a


@contract(P + "::PiecewiseClassifier.predict", "C08")
class ClfPredict(ApplyBase):
    cls = "PiecewiseClassifier"

    def post(self, v):
        # predict casts to int32 (integer class labels)
        return z3.ToReal(z3.If(v >= 0, z3.ToInt(v), -z3.ToInt(-v)))

    def ensures(self, E, a, res, old, fallback_first=False):
        out = ApplyBase.ensures(self, E, a, res, old, fallback_first)
        return out


@contract(P + "::_fit_piecewise_estimator", "C08")
class FitBucket(Contract):
    """regressor case (nb_classes None): bucket i is fitted once on exactly its rows, targets and weights"""
    variants = [False, True]

    def setup(self, E, has_w):
        n = E.size("n", 1)
        model = models.new_estimator(E, "model", methods=ESTM)
        return dict(i=E.int("i"), model=model, X=E.nd("X", (n, E.size("d", 1))), y=E.nd("y", (n,)),
                    sample_weight=E.nd("w", (n,)) if has_w else None, association=E.nd("association", (n,)),
                    nb_classes=None, random_state=None)

    def old(self, E, a):
        return dict(tl=len(E.trace), X=a.X.snapshot(), y=a.y.snapshot(), w=a.sample_weight.snapshot() if a.sample_weight is not None else None,
                    assoc=a.association.snapshot())

    def ensures(self, E, a, res, old, other_bucket=False):
        fits = [t for t in E.trace[old["tl"]:] if t["op"] == "fit"]
        n = z(a.X.shape[0])
        i = z(a.i)
        inb = lambda r: old["assoc"].get(r) == z3.ToReal(i + (1 if other_bucket else 0))
        out = {"returns_the_model": z3.BoolVal(res is a.model)}
        if not fits:
            r = z3.Int(models.fresh_name("r"))
            out["no_fit_only_if_the_bucket_is_empty"] = z3.ForAll([r], z3.Implies(z3.And(r >= 0, r < n), z3.Not(inb(r))))
            return out
        t = fits[0]
        Xi, yi, wi = t["X"], t["y"], t["w"]
        ok = len(fits) == 1 and t["obj"] is a.model and isinstance(Xi, NdArr) and isinstance(yi, NdArr)
        out["exactly_one_fit_of_the_given_model"] = z3.BoolVal(ok)
        if not ok:
            return out
        K = z(Xi.shape[0])
        j = z3.Int(models.fresh_name("j"))
        r = z3.Int(models.fresh_name("r"))
        src = z3.Function(models.fresh_name("source_row"), z3.IntSort(), z3.IntSort())
        sel = getattr(Xi.cell, "sel_of", None)
        ok2 = sel is not None and getattr(yi.cell, "sel_of", None) is not None and sel[1] is yi.cell.sel_of[1] \
            and (a.sample_weight is None or (isinstance(wi, NdArr) and getattr(wi.cell, "sel_of", None) is not None and wi.cell.sel_of[1] is sel[1]))
        out["features_targets_weights_selected_by_the_same_mask"] = z3.BoolVal(bool(ok2))
        if not ok2:
            return out
        fm, nn, KK, rank, unrank = E.registry.mask_info(E, sel[1])
        out["training_rows_are_exactly_the_buckets_rows"] = z3.And(
            z3.BoolVal(sel[0] is a.X and yi.cell.sel_of[0] is a.y and (a.sample_weight is None or wi.cell.sel_of[0] is a.sample_weight)),
            z3.ForAll([r], z3.Implies(z3.And(r >= 0, r < n), fm.get(r) == inb(r))),
            z(yi.shape[0]) == K, (z3.BoolVal(wi is None) if a.sample_weight is None else z(wi.shape[0]) == K))
        return out

    canaries = {"rows_of_the_next_bucket": lambda E, a, res, old: FitBucket().ensures(E, a, res, old, other_bucket=True).get(
        "training_rows_are_exactly_the_buckets_rows", z3.BoolVal(True))}


applyF = z3.Function("apply__", models.Est, models.Row, z3.IntSort())        # ghost: the leaf (node id) the fitted tree binner routes a row to


@contract(P + "::PiecewiseEstimator._mapping_train", "C08")
class MappingTrain(Contract):
    """PROVED for both kinds of binner.  TREE (the real loop over the leaves; `mapping` is a dictionary of unbounded symbolic size): every
    training row gets the bucket number of its leaf; buckets are numbered 0 .. len(mapping)-1 without repetition, one per leaf that holds a
    training row; leaves lists all leaves of the tree.  DISCRETIZER (three real loops; `unique` is a set and `mapping` a dictionary of cell
    tuples, both of unbounded symbolic size; sorted(unique) is a sequence without repetition of exactly the elements): every training row gets
    the number of its cell, numbers are 0 .. len(mapping)-1 without repetition, one bucket per cell that holds a training row and no
    other, leaves lists the cells in the order of their numbers.  This establishes the well-formedness transform_bins / predict rely
    on.  The summary used by fit (1..2 buckets, a concrete dictionary) is the bounded part: see result()."""
    variants = ["tree", "bins"]
    # `mapping = {}` is a dictionary of unbounded symbolic size keyed by leaf ids (tree binner) / by cell tuples (discretizer);
    # `unique = set()` of the discretizer branch is a set of cell tuples of unbounded symbolic size
    symbolic_dicts = {"mapping": (lambda E: "key" if E.ps.get("variant") == "bins" else "int")}
    symbolic_sets = {"unique": "key"}
    max_paths = 20000

    def _setup_bins(self, E):
        binner = models.new_estimator(E, "binner_", methods=ESTM + ("transform",), fitted=True)
        binner.fields["$fitted_attrs"] = set()
        binner.fields["$sparse_transform"] = True
        s = E.new_obj(P + "::PiecewiseRegressor", dict(binner=models.new_estimator(E, "binner", methods=ESTM), estimator=models.new_estimator(E, "estimator", methods=ESTM),
                                                       n_jobs=None, verbose=False, binner_=binner))
        return dict(self=s, X=E.nd("X", (E.size("n", 1), E.size("d", 1))), binner=binner, _bins=True)

    @staticmethod
    def _rowkey(E, L_or_a, r):
        b, X = L_or_a["binner"], L_or_a["X"]
        st = b.fields["$state"]
        k_ = _bins_key(E, st, X, r, models.widthF["transform"](st))
        return getattr(k_, "term", k_)

    @staticmethod
    def _first(E, ctx, with_definition=False):
        """ghost: the first training row whose cell tuple is a given key, -1 for a key that no training row has (lemma schema
        first_occurrence, lemmas/Sums.lean: such a function exists for every sequence of keys; instantiated for the row keys of X).
        The loops only need `first(key of row r) in [0, r]`; the other half of the definition is used once, in the postcondition."""
        from pyvc import sparsemodel
        F = E.ps.get("c08_first")
        n = z(ctx["X"].shape[0])
        if F is None:
            F = z3.Function("first_row_with_cell", sparsemodel.Key, z3.IntSort())
            E.ps["c08_first"] = F
            r = z3.Int("fr!first")
            rk = MappingTrain._rowkey(E, ctx, r)
            E.assume(z3.ForAll([r], z3.Implies(z3.And(r >= 0, r < n), z3.And(F(rk) >= 0, F(rk) <= r))))
            E.used_lemmas.add("first_occurrence")
        if with_definition and not E.ps.get("c08_first_def"):
            E.ps["c08_first_def"] = True
            key = z3.Const("fk!first", sparsemodel.Key)
            E.assume(z3.ForAll([key], z3.Implies(F(key) >= 0, z3.And(F(key) < n, MappingTrain._rowkey(E, ctx, F(key)) == key)), patterns=[F(key)]))
        return F

    @staticmethod
    def _inv_unique(E, L):
        """loop over the rows that collects the cell tuples: exactly the tuples of the rows seen so far"""
        u = L["unique"]
        from pyvc import sparsemodel
        r, key = z3.Int(models.fresh_name("ur")), z3.Const(models.fresh_name("uk"), sparsemodel.Key)
        k = z(L.k)
        first = MappingTrain._first(E, L)
        return {"tuples_of_the_rows_seen_so_far_are_in_the_set": z3.ForAll([r], z3.Implies(z3.And(r >= 0, r < k), z3.Select(u.member, MappingTrain._rowkey(E, L, r)))),
                "the_set_holds_nothing_else": z3.ForAll([key], z3.Implies(z3.Select(u.member, key), z3.And(first(key) >= 0, first(key) < k))),
                "size_within_the_rows_seen": z3.And(z(u.count) >= 0, z(u.count) <= k)}

    @staticmethod
    def _inv_number(E, L):
        """loop that numbers the sorted tuples: the first k of them have the numbers 0..k-1"""
        mp, leaves = L["mapping"], L["leaves"]
        _, item, pos = leaves.sorted_of
        from pyvc import sparsemodel
        j, key = z3.Int(models.fresh_name("nj")), z3.Const(models.fresh_name("nk"), sparsemodel.Key)
        k = z(L.k)
        return {"first_k_tuples_are_numbered_by_their_position": z3.ForAll([j], z3.Implies(z3.And(j >= 0, j < k), z3.And(
                    z3.Select(mp.member, item(j)), z3.Select(mp.value, item(j)) == j))),
                "nothing_else_is_numbered": z3.ForAll([key], z3.Implies(z3.Select(mp.member, key), z3.And(
                    z3.Select(mp.value, key) >= 0, z3.Select(mp.value, key) < k, item(z3.Select(mp.value, key)) == key))),
                "as_many_entries_as_tuples_numbered": z(mp.count) == k}

    @staticmethod
    def _inv_assoc(E, L):
        """loop that gives every row the number of its tuple"""
        leaves, assoc = L["leaves"], L["association"]
        _, item, pos = leaves.sorted_of
        r = z3.Int(models.fresh_name("ar"))
        k, n = z(L.k), z(L["X"].shape[0])
        return {"rows_seen_so_far_carry_the_number_of_their_tuple_the_others_minus_one": z3.ForAll([r], z3.Implies(z3.And(r >= 0, r < n), z3.If(
            r < k, assoc.get(r) == z3.ToReal(pos(MappingTrain._rowkey(E, L, r))), assoc.get(r) == -1)))}

    def setup(self, E, v):
        if v == "bins":
            return self._setup_bins(E)
        m = E.size("node_count", 1)
        binner = models.new_estimator(E, "binner_", methods=ESTM + ("transform", "decision_path"), fitted=True)
        binner.fields["$fitted_attrs"] = {"tree_"}
        t = Obj("Tree", tag="Tree")
        cl, cr = E.nd("children_left", (m,), "int"), E.nd("children_right", (m,), "int")
        t.fields.update(cnt=m, node_count=m, children_left=cl, children_right=cr)
        t.fields["$children_left"], t.fields["$children_right"] = cl, cr
        binner.fields["tree_"] = t
        s = E.new_obj(P + "::PiecewiseRegressor", dict(binner=models.new_estimator(E, "binner", methods=ESTM), estimator=models.new_estimator(E, "estimator", methods=ESTM),
                                                       n_jobs=None, verbose=False, binner_=binner))
        return dict(self=s, X=E.nd("X", (E.size("n", 1), E.size("d", 1))), binner=binner, _m=m, _cl=cl, _cr=cr)

    def requires(self, E, a):
        if a.get("_bins"):
            MappingTrain._first(E, a)          # ghost definition (first half), stated before the code runs
            return {}
        if "_m" not in a:
            return {}
        st = a.binner.fields["$state"]
        R = E.registry
        row, j = z3.Const("rho!mt", models.Row), z3.Int("j!mt")
        m = z(a._m)
        isleaf = lambda q: z3.And(a._cl.get(q) <= q, a._cr.get(q) <= q)
        leafmask = NdArr.from_fn("isleaf", (a._m,), "bool", isleaf)
        leafmask.canonical_key = True
        fm, n_, K, rank, unrank = R.mask_info(E, leafmask)
        a["_leaf"] = (isleaf, K, rank, unrank)
        # ghost definition: the position of a row's leaf in `leaves` is the rank of that leaf among the leaves of the tree
        E.assume(z3.ForAll([row], lfF(st, row) == rank(applyF(st, row)), patterns=[lfF(st, row)]))
        # ASSUMED about the fitted scikit-learn tree: one decision_path column per node, exactly one leaf marked per row
        return {"decision_path_has_one_column_per_node": R.nodesF(st) == m,
                "every_row_ends_in_exactly_one_leaf": z3.ForAll([row, j], z3.And(
                    applyF(st, row) >= 0, applyF(st, row) < m, isleaf(applyF(st, row)),
                    z3.Implies(z3.And(j >= 0, j < m), z3.Or(R.pathF(st, row, j) == 0, R.pathF(st, row, j) == 1)),
                    z3.Implies(z3.And(j >= 0, j < m, isleaf(j)), (R.pathF(st, row, j) == 1) == (j == applyF(st, row)))))}

    def old(self, E, a):
        return dict(X=a.X.snapshot(), w=a.X.cell.writes) if ("_m" in a or a.get("_bins")) else dict(callsite=True)

    @staticmethod
    def _facts(E, X, st, mp, assoc, ntree, done, rank):
        """done(j): leaf j has already been handled by the loop"""
        key, k2, r = z3.Int(models.fresh_name("key")), z3.Int(models.fresh_name("k2")), z3.Int(models.fresh_name("r"))
        n = z(X.shape[0])
        leaf_of = lambda rr: applyF(st, models.row_of(E, X, rr))
        return {
            "bucket_numbers_are_0_to_ntree_minus_1": z3.And(z(ntree) >= 0, z(mp.count) == z(ntree), z3.ForAll([key], z3.Implies(
                z3.Select(mp.member, key), z3.And(z3.Select(mp.value, key) >= 0, z3.Select(mp.value, key) < z(ntree), done(key))))),
            "no_bucket_number_is_used_twice": z3.ForAll([key, k2], z3.Implies(
                z3.And(z3.Select(mp.member, key), z3.Select(mp.member, k2), key != k2), z3.Select(mp.value, key) != z3.Select(mp.value, k2))),
            "rows_of_handled_leaves_carry_their_buckets_number_the_others_minus_one": z3.ForAll([r], z3.Implies(z3.And(r >= 0, r < n), z3.If(
                done(leaf_of(r)), z3.And(z3.Select(mp.member, leaf_of(r)), assoc.get(r) == z3.ToReal(z3.Select(mp.value, leaf_of(r)))), assoc.get(r) == -1)))}

    @staticmethod
    def _inv(E, L):
        s, X = L["self"], L["X"]
        st = L["binner"].fields["$state"]
        leaves = L["leaves"]
        mask, rank, unrank = leaves.filter_of
        fm = E.registry.mask_info(E, mask)[0]
        done = lambda j: z3.And(j >= 0, j < z(mask.shape[0]), fm.get(j), rank(j) < z(L.k))
        return MappingTrain._facts(E, X, st, L["mapping"], L["association"], L["ntree"], done, rank)
    loops = {0: _inv.__func__, 1: _inv_unique.__func__, 2: _inv_number.__func__, 3: _inv_assoc.__func__}

    def _ensures_bins(self, E, a, res, old):
        from pyvc import sparsemodel
        ok = isinstance(res, tuple) and len(res) == 3 and isinstance(res[0], NdArr) and type(res[1]).__name__ == "SymMap" \
            and getattr(res[2], "sorted_of", None) is not None
        out = {"association_mapping_leaves": z3.BoolVal(ok)}
        if not ok:
            return out
        assoc, mp, leaves = res
        uset, item, pos = leaves.sorted_of
        n = z(a.X.shape[0])
        r, key, k2 = z3.Int(models.fresh_name("r")), z3.Const(models.fresh_name("key"), sparsemodel.Key), z3.Const(models.fresh_name("k2"), sparsemodel.Key)
        rk = lambda rr: MappingTrain._rowkey(E, a, rr)
        val = lambda kk: z3.Select(mp.value, kk)
        out["every_training_row_gets_the_number_of_its_cell"] = z3.And(z(assoc.shape[0]) == n, z3.ForAll([r], z3.Implies(z3.And(r >= 0, r < n), z3.And(
            z3.Select(mp.member, rk(r)), assoc.get(r) == z3.ToReal(val(rk(r))), val(rk(r)) >= 0, val(rk(r)) < z(mp.count)))))
        out["bucket_numbers_are_0_to_len_minus_1_without_repetition"] = z3.And(
            z(mp.count) == z(leaves.length),
            z3.ForAll([key], z3.Implies(z3.Select(mp.member, key), z3.And(val(key) >= 0, val(key) < z(mp.count)))),
            z3.ForAll([key, k2], z3.Implies(z3.And(z3.Select(mp.member, key), z3.Select(mp.member, k2), key != k2), val(key) != val(k2))))
        first = MappingTrain._first(E, a, with_definition=True)
        out["one_bucket_per_cell_that_holds_a_training_row_and_no_other"] = z3.ForAll([key], z3.Implies(z3.Select(mp.member, key), z3.And(
            first(key) >= 0, first(key) < n, rk(first(key)) == key)))
        out["leaves_lists_the_cells_in_the_order_of_their_numbers"] = z3.ForAll([r], z3.Implies(z3.And(r >= 0, r < z(leaves.length)), z3.And(
            z3.Select(mp.member, item(r)), val(item(r)) == r)))
        out["training_data_not_written"] = z3.BoolVal(a.X.cell.writes == old["w"])
        return out

    @staticmethod
    def _canary_numbers_start_at_one(E, a, res, old):
        """must NOT verify: bucket numbers start at 0, in both branches"""
        if old.get("callsite") or not (isinstance(res, tuple) and len(res) == 3 and type(res[1]).__name__ == "SymMap"):
            return z3.BoolVal(True)
        mp = res[1]
        key = z3.Const(models.fresh_name("ck"), mp.key_sort())
        return z3.ForAll([key], z3.Implies(z3.Select(mp.member, key), z3.Select(mp.value, key) >= 1))

    canaries = {"bucket_numbers_start_at_one": lambda E, a, res, old: MappingTrain._canary_numbers_start_at_one(E, a, res, old)}

    def result(self, E, a, old):
        # summary used by fit (bounded in the number of buckets there: 1..2 entries of a concrete dictionary)
        n = a.X.shape[0]
        n = a.X.shape[0]
        nb = E.ps.get("c08_nb", 2)
        assoc = NdArr.fresh("association", (n,), "real")
        r = z3.Int(models.fresh_name("r"))
        E.assume(z3.ForAll([r], z3.Implies(z3.And(r >= 0, r < z(n)), z3.And(assoc.cell.term[r] >= 0, assoc.cell.term[r] < nb,
                                                                              z3.IsInt(assoc.cell.term[r])))))
        mapping = {("leaf", i): i for i in range(nb)}
        E.ps["c08_train_assoc"] = assoc
        return (assoc, mapping, [("leaf", i) for i in range(nb)])

    def ensures(self, E, a, res, old):
        if old.get("callsite"):
            return {}
        if a.get("_bins"):
            return self._ensures_bins(E, a, res, old)
        ok = isinstance(res, tuple) and len(res) == 3 and isinstance(res[0], NdArr) and type(res[1]).__name__ == "SymMap"
        out = {"association_mapping_leaves": z3.BoolVal(ok)}
        if not ok:
            return out
        assoc, mp, leaves = res
        st = a.binner.fields["$state"]
        isleaf, K, rank, unrank = a._leaf
        m = z(a._m)
        allleaves = lambda j: z3.And(j >= 0, j < m, isleaf(j))
        facts = MappingTrain._facts(E, old["X"], st, mp, assoc, mp.count, allleaves, rank)
        out.update(facts)
        r = z3.Int(models.fresh_name("r"))
        n = z(a.X.shape[0])
        out["every_training_row_gets_a_bucket"] = z3.And(z(assoc.shape[0]) == n, z3.ForAll([r], z3.Implies(z3.And(r >= 0, r < n), z3.And(
            assoc.get(r) >= 0, assoc.get(r) < z3.ToReal(z(mp.count))))))
        t = z3.Int(models.fresh_name("t"))
        out["leaves_lists_all_leaves_of_the_tree"] = z3.And(z(leaves.length) == z(K), z3.ForAll([t], z3.Implies(z3.And(t >= 0, t < z(K)), allleaves(z(leaves.item(t))))))
        out["training_data_not_written"] = z3.BoolVal(a.X.cell.writes == old["w"])
        # ... which is the well-formedness transform_bins requires of (binner_, leaves_, mapping_) - with one local model per mapping entry
        wf = _wf_tree(E, st, leaves, mp)
        out["establishes_what_transform_bins_requires_leaves"] = z3.And(wf["at_least_one_leaf"], wf["leaves_are_nodes_of_the_tree"])
        out["establishes_what_transform_bins_requires_one_leaf_per_row"] = wf["every_row_ends_in_exactly_one_leaf"]
        key = z3.Int(models.fresh_name("key"))
        out["establishes_what_predict_requires_mapping_values_are_positions_of_local_models"] = z3.ForAll([key], z3.Implies(
            z3.Select(mp.member, key), z3.And(z3.Select(mp.value, key) >= 0, z3.Select(mp.value, key) < z(mp.count))))
        return out


@contract(P + "::PiecewiseEstimator.fit", "C08")
class Fit(Contract):
    variants = [(nb, hw, seeded) for nb in (1, 2) for hw in (False, True) for seeded in (False, True)]
    max_paths = 20000

    def setup(self, E, v):
        nb, has_w, seeded = v
        E.ps["c08_nb"] = nb
        n = E.size("n", 1)
        f = dict(binner=models.new_estimator(E, "binner", methods=ESTM + ("transform", "decision_path")),
                 estimator=models.new_estimator(E, "estimator", methods=("fit", "predict", "get_params", "set_params")), n_jobs=None, verbose=False)
        f["estimator"].fields["$fitted_attrs"] = set()
        cls = "PiecewiseRegressor"
        if seeded:
            cls = "PiecewiseClassifier"
            f["random_state"] = E.int("seed")      # any integer, 0 included
        return dict(self=E.new_obj(P + "::" + cls, f), X=E.nd("X", (n, E.size("d", 1))), y=E.nd("y", (n,)),
                    sample_weight=E.nd("w", (n,)) if has_w else None, _nb=nb, _seeded=seeded)

    def old(self, E, a):
        return dict(tl=len(E.trace))

    def ensures(self, E, a, res, old):
        s = a.self
        out = {"returns_self": z3.BoolVal(res is s)}
        ests = s.fields.get("estimators_")
        ok = isinstance(ests, list) and len(ests) == a._nb
        out["one_local_model_per_training_bucket"] = z3.BoolVal(ok)
        out["binner_and_estimator_are_cloned_never_fitted_themselves"] = z3.BoolVal(
            ("call", "fit") not in s.fields["binner"].events and ("call", "fit") not in s.fields["estimator"].events
            and isinstance(s.fields.get("binner_"), Obj) and s.fields["binner_"].fields.get("$clone_of") is s.fields["binner"])
        me = s.fields.get("mean_estimator_")
        out["global_fallback_model_fitted_on_the_whole_training_set"] = z3.BoolVal(
            isinstance(me, Obj) and me.fields.get("$clone_of") is s.fields["estimator"] and me.fields.get("$fit_X") is a.X
            and me.fields.get("$fit_y") is a.y and me.fields.get("$fit_w") is a.sample_weight)
        if ok:
            assoc = E.ps.get("c08_train_assoc")
            n = z(a.X.shape[0])
            conj = []
            for i, e in enumerate(ests):
                fx = e.fields.get("$fit_X")
                good = isinstance(e, Obj) and e.fields.get("$clone_of") is s.fields["estimator"]
                if good and fx is not None:
                    sel = getattr(fx.cell, "sel_of", None)
                    good = sel is not None and sel[0] is a.X
                    if good:
                        fm = E.registry.mask_info(E, sel[1])[0]
                        r = z3.Int(models.fresh_name("r"))
                        conj.append(z3.ForAll([r], z3.Implies(z3.And(r >= 0, r < n), fm.get(r) == (assoc.get(r) == i))))
                # an empty bucket keeps its unfitted clone (cannot happen for a bucket of the training mapping; allowed by the code)
                conj.append(z3.BoolVal(bool(good) or (isinstance(e, Obj) and fx is None)))
            out["each_local_model_is_a_clone_trained_on_its_buckets_rows"] = z3.And(*conj)
        if a._seeded:
            calls = [t for t in E.trace[old["tl"]:] if t["op"] == "RandomState"]
            out["integer_random_state_seeds_the_generator_handed_to_every_bucket"] = z3.BoolVal(
                len(calls) == 1 and calls[0]["seed"] is s.fields["random_state"])
        return out


META = dict(
    level="proof", lean_files=["lemmas/Sums.lean"], assumptions=["A1", "A2", "A6", "A7", "A8", "A9"],
    trusted=["_mapping_train, TREE binner: PROVED on its own (real loop over the leaves, dictionary of unbounded symbolic size): buckets numbered 0..len-1 "
             "without repetition, every training row carries the number of its leaf, leaves_ = all leaves, and this IS the well-formedness "
             "transform_bins / predict require.  The discretizer branch of _mapping_train is proved as well (set and dictionary of cell tuples of "
             "unbounded symbolic size; sorted(set) = a sequence without repetition of exactly its elements - the order of tuples is not modelled "
             "and nothing depends on it; ghost 'first row with that cell', lemma first_occurrence in lemmas/Sums.lean).  fit uses a "
             "summary of _mapping_train with 1..2 buckets (concrete dictionary) - the link summary <-> proved postcondition is by inspection",
             "object invariant of a fitted estimator, stated as a PRECONDITION of predict / transform_bins: mapping_ sends bucket keys to positions of "
             "estimators_; for a tree binner leaves_ are node ids and every row's decision path contains exactly one of them (scikit-learn trees: "
             "a node is a leaf iff both children ids are <= its id, decision_path marks exactly one leaf per row - assumed)",
             "ASSUMED scipy/scikit-learn models (pyvc/sparsemodel.py): a sparse matrix stands for a dense array (m[:, j], m == c, row iteration, "
             ".todense()); decision_path / transform are row-wise functions of the fitted binner; tuple(row) of an integer row is a key that is a "
             "function of the row's entries",
             "numpy boolean-mask gather/scatter through ghost rank/unrank/count (mask_rank lemma); estimator protocol (row-wise deterministic outputs); "
             "A8: joblib.Parallel is sequential map - thread schedules are not explored"],
    not_applicable=["bounded in the number of buckets (1..3 at predict time, 1..2 at fit time), complete in rows and values",
                    "classifier branch of _fit_piecewise_estimator (borrowing one example per missing class), probabilities are distributions, labels in "
                    "classes_, n_jobs independence under real threads: bounded stand-in",
                    "results do not depend on n_jobs: under A8 by construction; real thread interleavings are outside this family of technique"],
)
